--------------------------- MODULE KTableHistory ---------------------------
(***************************************************************************)
(* C20 over HISTORIES.  The statement quantifies over tables, grids and    *)
(* atmospheres, not over what the loaded table objects and the model did   *)
(* before: a long-lived k-table object (it lives in KTableCache for the    *)
(* whole session) that is asked for opacities on one requested grid, then  *)
(* on another one, at another (T, P), under the other opacity mode, ...    *)
(* must return, at EVERY evaluation,                                       *)
(*   (1) what a freshly loaded object returns for the current request      *)
(*       (a refinement of Functional.tla: cfg = <<win, tp, mode>>), and    *)
(*   (2) for a degenerate table, at every quadrature point, what the       *)
(*       cross-section object holding the same numbers returns.            *)
(*                                                                         *)
(* Grid model.  Native points 1..NN sit at coordinates 2p, so that         *)
(* requested points can also fall between native points.  A window is      *)
(* lo, lo+step, .., hi (window 0: no grid passed, the full native grid).   *)
(* Sel(w) is the documented selection: the native points inside [lo, hi]   *)
(* when they are exactly the requested points, otherwise those plus one    *)
(* native neighbour on either side (interpolation).  A value at a          *)
(* requested coordinate is determined by the coefficients of its           *)
(* neighbours WITHIN the selection (Coef is uninterpreted and injective);  *)
(* outside the selection it is the edge value (constant extrapolation).    *)
(*                                                                         *)
(* Design mutants (non-vacuity).  Key says what a memo kept on the          *)
(* long-lived object is keyed on.  "none" (no memo), "content" (the        *)
(* requested points) and "ends" (first and last requested point: the       *)
(* selection between the same end points differs by the two neighbours     *)
(* only, which on-native requests do not use) satisfy the invariants;      *)
(* "size" (number of requested points), "first" (first requested point)    *)
(* and "window" (the requested points, but the memo also keeps the (T, P)  *)
(* it was filled at) must be refuted by the window alphabet of the         *)
(* configuration: two windows of the same length at different positions,   *)
(* the same start with another length, the same end points at another      *)
(* density, between-native requests, requests beyond the native range, the *)
(* full grid.  The driver realises that alphabet on real grids.            *)
(* ModeRead = "construct" (opacity mode latched when the object was built) *)
(* must be refuted as well.                                                *)
(***************************************************************************)
EXTENDS Integers, Sequences, FiniteSets, TLC

CONSTANTS NN,        \* native points 1..NN
          Wins,      \* sequence of windows [lo, hi, step] (coordinates, native p at 2p)
          NTP,       \* (temperature, pressure) classes 1..NTP
          NG,        \* quadrature points
          Keys,      \* subset of {"none", "content", "ends", "size", "first", "window"}
          ModeReads  \* subset of {"eval", "construct"}

\* Key and ModeRead are fixed at Init (one design variant per behaviour)
VARIABLES Key, ModeRead, win, tp, mode, mode0, memo, outk, outx, shape, evald
vars == <<Key, ModeRead, win, tp, mode, mode0, memo, outk, outx, shape, evald>>

Native   == 1..NN
Coord(p) == 2 * p
WinIds   == 0..Len(Wins)
KSMax(S) == CHOOSE x \in S : \A y \in S : y <= x
KSMin(S) == CHOOSE x \in S : \A y \in S : y >= x

Req(w)     == IF w = 0 THEN {Coord(p) : p \in Native}
              ELSE {c \in Wins[w].lo .. Wins[w].hi : ((c - Wins[w].lo) % Wins[w].step) = 0}
Inside(w)  == {p \in Native : Coord(p) >= Wins[w].lo /\ Coord(p) <= Wins[w].hi}
Aligned(w) == {Coord(p) : p \in Inside(w)} = Req(w)
Below(w)   == {p \in Native : Coord(p) < Wins[w].lo}
Above(w)   == {p \in Native : Coord(p) > Wins[w].hi}
Widened(w) == Inside(w) \cup (IF Below(w) = {} THEN {} ELSE {KSMax(Below(w))})
                        \cup (IF Above(w) = {} THEN {} ELSE {KSMin(Above(w))})
Sel(w)     == IF w = 0 THEN Native ELSE IF Aligned(w) THEN Inside(w) ELSE Widened(w)

Coef(p, t) == p * (NTP + 1) + t          \* uninterpreted, injective in (p, t)
ValueAt(s, c, t) ==
    LET L == {p \in s : Coord(p) <= c}
        R == {p \in s : Coord(p) >= c}
    IN  IF s = {} THEN <<0, 0>>
        ELSE << IF L = {} THEN Coef(KSMin(s), t) ELSE Coef(KSMax(L), t),
                IF R = {} THEN Coef(KSMax(s), t) ELSE Coef(KSMin(R), t) >>
Res(s, w, t) == [c \in Req(w) |-> ValueAt(s, c, t)]
Fresh(w, t)  == Res(Sel(w), w, t)

KeyOf(w) == CASE Key \in {"content", "window"} -> Req(w)
              [] Key = "size"    -> Cardinality(Req(w))
              [] Key = "ends"    -> <<Wins[w].lo, Wins[w].hi>>
              [] Key = "first"   -> Wins[w].lo
              [] OTHER           -> 0
\* the memo holds the last request that missed (one entry, replaced on a miss)
Hit(w)   == {m \in memo : m.k = KeyOf(w)}
UsedSel(w) == IF w = 0 \/ Key = "none" \/ Hit(w) = {} THEN Sel(w)
              ELSE (CHOOSE m \in Hit(w) : TRUE).s
UsedTP(w)  == IF w = 0 \/ Key # "window" \/ Hit(w) = {} THEN tp
              ELSE (CHOOSE m \in Hit(w) : TRUE).t

Init == /\ Key \in Keys /\ ModeRead \in ModeReads
        /\ win \in WinIds /\ tp \in 1..NTP /\ mode \in {"k", "x"} /\ mode0 = mode
        /\ memo = {} /\ outk = <<>> /\ outx = <<>> /\ shape = "-" /\ evald = FALSE
\* a setting changes: the previous results are no longer looked at
Forget     == evald' = FALSE /\ outk' = <<>> /\ outx' = <<>> /\ shape' = "-"
SetWin(w)  == win # w /\ win' = w /\ Forget /\ UNCHANGED <<Key, ModeRead, tp, mode, mode0, memo>>
SetTP(t)   == tp # t /\ tp' = t /\ Forget /\ UNCHANGED <<Key, ModeRead, win, mode, mode0, memo>>
SetMode(m) == mode # m /\ mode' = m /\ Forget /\ UNCHANGED <<Key, ModeRead, win, tp, mode0, memo>>
\* one evaluation of the long-lived pair: the k-table object (with its memo) and the cross-section
\* object with the same numbers (no memo); `shape` is the path the model actually took
Eval == /\ outk' = [g \in 1..NG |-> Res(UsedSel(win), win, UsedTP(win))]
        /\ outx' = Fresh(win, tp)
        /\ memo' = IF win # 0 /\ Key # "none" /\ Hit(win) = {}
                   THEN {[k |-> KeyOf(win), s |-> Sel(win), t |-> IF Key = "window" THEN tp ELSE 0]} ELSE memo
        /\ shape' = IF ModeRead = "eval" THEN mode ELSE mode0
        /\ evald' = TRUE
        /\ UNCHANGED <<Key, ModeRead, win, tp, mode, mode0>>
Next == \/ \E w \in WinIds : SetWin(w)
        \/ \E t \in 1..NTP : SetTP(t)
        \/ \E m \in {"k", "x"} : SetMode(m)
        \/ Eval
Spec == Init /\ [][Next]_vars

\* (1) every evaluation equals the evaluation of a freshly loaded object at the current settings
EvalEqualsFresh == evald => /\ \A g \in 1..NG : outk[g] = Fresh(win, tp)
                            /\ shape = mode
\* (2) the degenerate k-table twin equals the cross-section twin at every quadrature point, every time
TwinEqualsXsec  == evald => \A g \in 1..NG : outk[g] = outx
\* the result is defined on exactly the requested points
OnRequestedGrid == evald => \A g \in 1..NG : DOMAIN outk[g] = Req(win)
\* the design variants that must satisfy the invariants, and the mutants, in ONE model-checking run
Sound     == Key \in {"none", "content", "ends"} /\ ModeRead = "eval"
HoldFresh == Sound => EvalEqualsFresh
HoldTwin  == Sound => TwinEqualsXsec
\* one invariant per design mutant (expected counterexamples, TLC -continue reports each)
RefuteSize    == Key = "size" => EvalEqualsFresh
RefuteFirst   == Key = "first" => EvalEqualsFresh
RefuteWindowTwin == Key = "window" => TwinEqualsXsec
RefuteLatched == ModeRead = "construct" => EvalEqualsFresh
=============================================================================
