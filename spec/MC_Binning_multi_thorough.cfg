SPECIFICATION Spec
CONSTANTS
  E = 4
  KMin = 1
  KMax = 3
  TES = {0,2,3,5,8}
  TShift = 1
  NTgtMin = 2
  NTgtMax = 3
  Vals = {0,1,3}
  FMode = "generic"
  Kinds = {"flux","simple","native"}
  Variant = "ok"
  Export = FALSE
INVARIANT WellFormed
INVARIANT AlgRefinesDef
INVARIANT OutIsSortedOrder
INVARIANT NoOverlapUntouched
INVARIANT HistBetween
INVARIANT HistPartition
INVARIANT NativeIdentity
INVARIANT FitsInv
CONSTRAINT Emit
CHECK_DEADLOCK FALSE
