---------------------------- MODULE MC_Functional ----------------------------
EXTENDS Functional, Json
CONSTANT Export
\* the start configuration is kept so that the harness can construct the object the walk starts from
VARIABLE start
HInit == Init /\ start = cfg
HNext == Next /\ UNCHANGED start
HSpec == HInit /\ [][HNext]_<<vars, start>>
HEmit == (Export /\ Len(hist) = Depth /\ hist[Depth][1] = "eval") =>
           PrintT(<<"WALK", ToJson([init |-> start, walk |-> hist])>>)
=============================================================================
