--------------------------- MODULE MC_PriorDelivery ---------------------------
(* C08, end to end: "log-space variants operate on log10 of the parameter and return 10**x to  *)
(* the model" is a statement about what the MODEL receives.  A fitting parameter is declared    *)
(* in a mode (linear / log) and may be switched by set_mode; a prior of any of the four classes *)
(* is attached to it by one of the public routes                                               *)
(*    set_prior : Optimizer.set_prior(name, <object>)                                          *)
(*    text      : Optimizer.set_prior(name, create_prior("<Name>(key=value, ..)"))              *)
(*    file      : "<name>:prior = <text>" in the [Fitting] section of an input file            *)
(*    default   : no prior is given: compile_params derives it from the mode and the bounds     *)
(* then compile_params, then for every u of the grid the sampler's step                         *)
(*    update_model([prior.sample(u)]).                                                          *)
(* The space of the prior and the mode of the parameter are independent dimensions: 4 classes   *)
(* (6 constructor forms) x 4 parameter kinds x routes.  What reaches the model is               *)
(* ToModel(prior, Sample(prior, k)) of the ATTACHED prior.                                      *)
EXTENDS Priors, IOUtils
CONSTANTS QNum, QShift, QDen, ENum, EShift, SNum, SDen, Export
VARIABLES phase, pk, route, name, call, prior, recv
vars == <<phase, pk, route, name, call, prior, recv>>

MCZ == ndJsonDeserialize(IOEnv.PRIORS_Z_FILE)[1].z
QS == {R(n - QShift, d) : n \in QNum, d \in QDen}
ES == {e - EShift : e \in ENum}
SS == {R(n, d) : n \in SNum, d \in SDen}
Pairs(S) == {<<x, y>> \in S \X S : x # y}
UserCalls ==
    {[cls |-> "Uniform",     key1 |-> "bounds",     v1 |-> b, key2 |-> "",    v2 |-> 0] : b \in Pairs(QS)}
    \cup {[cls |-> "LogUniform",  key1 |-> "bounds",     v1 |-> b, key2 |-> "",    v2 |-> 0] : b \in Pairs(QS)}
    \cup {[cls |-> "LogUniform",  key1 |-> "lin_bounds", v1 |-> b, key2 |-> "",    v2 |-> 0] : b \in Pairs(ES)}
    \cup {[cls |-> "Gaussian",    key1 |-> "mean",       v1 |-> m, key2 |-> "std", v2 |-> s] : m \in QS, s \in SS}
    \cup {[cls |-> "LogGaussian", key1 |-> "mean",       v1 |-> m, key2 |-> "std", v2 |-> s] : m \in QS, s \in SS}
    \cup {[cls |-> "LogGaussian", key1 |-> "lin_mean",   v1 |-> e, key2 |-> "std", v2 |-> s] : e \in ES, s \in SS}
\* the bounds of a parameter live in linear space; for a log-mode parameter they are powers of ten (exponents)
DefaultCalls(k) == IF ModeOf(k) = "log" THEN {DefaultCall("log", b) : b \in Pairs(ES)}
                   ELSE {DefaultCall("linear", b) : b \in Pairs(QS)}
Routes == {"set_prior", "text", "file", "default"}
NoPrior == [kind |-> "None", a |-> Q(0), b |-> Q(0)]

Init == /\ phase = "in" /\ prior = NoPrior /\ recv = <<>>
        /\ pk \in ParamKinds
        /\ route \in Routes
        /\ call \in (IF route = "default" THEN DefaultCalls(pk) ELSE UserCalls)
        /\ name \in (IF route = "text" THEN Spellings[call.cls] ELSE {call.cls})

\* enable_fit, set_mode for the switched kinds, then the route's way of attaching the prior
\* (default: set_boundary only -- nothing is attached before compile_params)
Attach == /\ phase = "in"
          /\ prior' = (IF route = "default" THEN NoPrior
                       ELSE IF route = "set_prior" THEN Build(call)
                       ELSE FromText(Text(call, name)))
          /\ phase' = "set"
          /\ UNCHANGED <<pk, route, name, call, recv>>
Compile == /\ phase = "set"
           /\ prior' = (IF prior = NoPrior THEN Build(DefaultCall(ModeOf(pk), call.v1)) ELSE prior)
           /\ phase' = "compiled"
           /\ UNCHANGED <<pk, route, name, call, recv>>
\* the sampler's step for every u of the grid: cube -> prior.sample(u) -> update_model -> the model's setter
Update == /\ phase = "compiled"
          /\ recv' = [k \in 1..(UN + 1) |-> IF (k - 1) \in Grid(prior) THEN Deliver(prior, ModeOf(pk), Sample(prior, k - 1))
                                           ELSE [sp |-> "none", x |-> Q(0)]]
          /\ phase' = "done"
          /\ UNCHANGED <<pk, route, name, call, prior>>
Next == Attach \/ Compile \/ Update
Spec == Init /\ [][Next]_vars

Done == phase = "done"
ZOk == ZAssumption
\* the property: log classes hand 10^x, linear classes x, x the inverse CDF of the prior as constructed directly --
\* whatever the mode of the parameter and the route by which the prior arrived
DeliveryInv == Done => \A k \in Grid(prior) :
                 /\ recv[k + 1].x = Sample(Build(call), k)
                 /\ recv[k + 1].sp = (IF call.cls \in LogKinds THEN "pow10" ELSE "id")
RouteInv == phase \in {"compiled", "done"} => prior = Build(call)
DefaultSpaceInv == (phase \in {"compiled", "done"} /\ route = "default") => SpaceOf(prior.kind) = ModeOf(pk)
\* every combination of prior space and parameter mode is part of the model (vacuity guard, checked by the driver
\* on the exported vectors as well)
FitsInv == Done => \A k \in 1..Len(recv) : Fits(recv[k].x)

Emit == (Export /\ Done) =>
    PrintT(<<"DLV", ToJson([pk |-> pk, mode |-> ModeOf(pk), route |-> route, name |-> name, call |-> call, p |-> prior,
                            space |-> SpaceOf(prior.kind), recv |-> recv, un |-> UN])>>)
=============================================================================
