--------------------------- MODULE MC_PriorDelivery ---------------------------
(* C08, end to end: "log-space variants operate on log10 of the parameter and return 10**x to  *)
(* the model" is a statement about what the owner of the fitted parameter RECEIVES.  A fitting  *)
(* parameter is declared in a mode (linear / log) and may be switched by set_mode; a prior of   *)
(* any of the four classes is attached to it by one of the public routes                        *)
(*    set_prior : Optimizer.set_prior(name, <object>)                                          *)
(*    text      : Optimizer.set_prior(name, create_prior("<Name>(key=value, ..)"))              *)
(*    file      : "<name>:prior = <text>" in the [Fitting] section of an input file            *)
(*    default   : no prior is given: compile_params derives it from the mode and the bounds     *)
(* then compile_params, then for every u of the grid the sampler's step                         *)
(*    update_model([prior.sample(u), ...]).                                                     *)
(* The space of the prior and the mode of the parameter are independent dimensions: 4 classes   *)
(* (6 constructor forms) x 4 parameter kinds x routes.  What reaches the owner's setter is      *)
(* ToModel(prior, Sample(prior, k)) of the ATTACHED prior.                                      *)
(*                                                                                             *)
(* WHERE the parameter lives is a further dimension: the parameter under focus is owned by the  *)
(* forward model or by the observation, and the fitted set is that parameter alone (model-only  *)
(* / observation-only fitted sets) or that parameter in company of one fitted parameter of the  *)
(* OTHER owner (mixed sets) -- the company with a default prior or with a user prior of the     *)
(* other space.  compile_params is two passes (CompileModel, CompileObservation; Priors.tla:    *)
(* InForce); compiling again changes nothing (Recompile).  A user prior attached to a parameter *)
(* of either owner is the prior in force after compile_params, its space decides what reaches   *)
(* the owner's setter, and default priors only go to parameters that were given none.           *)
(*                                                                                             *)
(* WHO maps the unit cube is a further dimension (round 5).  "Each prior maps the unit interval *)
(* ... exactly as the inverse CDF ... for all u in [0,1]" is, for a retrieval, a statement      *)
(* about the callable a SAMPLER is handed: every sampler wrapper builds its own (nestle:        *)
(* nestle_uniform_prior(theta) -> tuple; MultiNest: Prior(cube, ndim, nparams) in place;        *)
(* PolyChord / dyPolyChord: prior(hypercube) -> list) around the priors in force.  `via` is     *)
(* "direct" (the check calls prior.sample(u) itself, as before) or one of Samplers; the domain  *)
(* of the sampler's callable is the whole unit cube: the grid k/UN WITH the faces 0 and 1 for   *)
(* the uniform kinds, and the tail ladder 2^-k, 1-2^-k, 10^-k, 1-10^-k of Priors.tla (TailPts). *)
(* What the callable returns for the cube point (u, .., u) is, in every coordinate, the exact   *)
(* inverse CDF of the prior in force for that coordinate (SamplerInv).  Cube = "exact" is the   *)
(* code; "clipped" (the cube kept away from its faces before the priors see it: flat below 1/UN *)
(* and above 1-1/UN) is the expected-counterexample variant, MC_PriorDelivery_clipped.cfg.      *)
EXTENDS Priors, IOUtils
CONSTANTS QNum, QShift, QDen, ENum, EShift, SNum, SDen, Export,
          Companies,    \* subset of {"alone", "default", "user"}: what else is fitted, on the other owner
          Samplers,     \* who maps the unit cube: subset of {"direct", "nestle", "multinest", "polychord", "dypolychord"}
          SamplerCompanies, SamplerRoutes,  \* the companies / routes the samplers' callables are exported for (the priors in force
                        \* do not remember their route: quick walks the mixed sets by set_prior / default, thorough every company)
          Cube          \* "exact": the sampler's callable hands the priors the cube as it is; "clipped": self-test
VARIABLES phase, focus, comp, pk, route, name, call, user, inforce, recv,
          via,          \* whose callable maps the cube
          trecv         \* what the callable returns on the tail ladder (per owner: one entry per point of TailPts)
vars == <<phase, focus, comp, pk, route, name, call, user, inforce, recv, via, trecv>>

MCZ == ndJsonDeserialize(IOEnv.PRIORS_Z_FILE)[1].z
QS == {R(n - QShift, d) : n \in QNum, d \in QDen}
ES == {e - EShift : e \in ENum}
SS == {R(n, d) : n \in SNum, d \in SDen}
Pairs(S) == {<<x, y>> \in S \X S : x # y}
UserCalls ==
    {[cls |-> "Uniform",     key1 |-> "bounds",     v1 |-> b, key2 |-> "",    v2 |-> 0] : b \in Pairs(QS)}
    \cup {[cls |-> "LogUniform",  key1 |-> "bounds",     v1 |-> b, key2 |-> "",    v2 |-> 0] : b \in Pairs(QS)}
    \cup {[cls |-> "LogUniform",  key1 |-> "lin_bounds", v1 |-> b, key2 |-> "",    v2 |-> 0] : b \in Pairs(ES)}
    \cup {[cls |-> "Gaussian",    key1 |-> "mean",       v1 |-> m, key2 |-> "std", v2 |-> s] : m \in QS, s \in SS}
    \cup {[cls |-> "LogGaussian", key1 |-> "mean",       v1 |-> m, key2 |-> "std", v2 |-> s] : m \in QS, s \in SS}
    \cup {[cls |-> "LogGaussian", key1 |-> "lin_mean",   v1 |-> e, key2 |-> "std", v2 |-> s] : e \in ES, s \in SS}
\* the bounds of a parameter live in linear space; for a log-mode parameter they are powers of ten (exponents)
DefaultCalls(k) == IF ModeOf(k) = "log" THEN {DefaultCall("log", b) : b \in Pairs(ES)}
                   ELSE {DefaultCall("linear", b) : b \in Pairs(QS)}
Routes == {"set_prior", "text", "file", "default"}

\* ---- the company: one fitted parameter of the other owner, of another kind, whose prior (if the user gives one) is of
\* the other space than the prior under focus, so that a prior landing on the wrong parameter cannot go unnoticed
Other(o) == IF o = "model" THEN "observation" ELSE "model"
CompKind(k) == CASE k = "lin" -> "log2lin" [] k = "log" -> "lin2log" [] k = "lin2log" -> "lin" [] k = "log2lin" -> "log"
QLeast == CHOOSE x \in QS : \A y \in QS : RLe(x, y)
QMost  == CHOOSE x \in QS : \A y \in QS : RLe(y, x)
ELeast == CHOOSE x \in ES : \A y \in ES : x <= y
EMost  == CHOOSE x \in ES : \A y \in ES : y <= x
SLeast == CHOOSE x \in SS : \A y \in SS : RLe(x, y)
CompUserCall(c) == IF c.cls \in LogKinds
                   THEN [cls |-> "Gaussian",   key1 |-> "mean",   v1 |-> QMost,              key2 |-> "std", v2 |-> SLeast]
                   ELSE [cls |-> "LogUniform", key1 |-> "bounds", v1 |-> <<QMost, QLeast>>,  key2 |-> "",    v2 |-> 0]
\* bounds of a parameter the user left alone (declared with the parameter), descending on purpose
DeclBounds(mode) == IF mode = "log" THEN <<EMost, ELeast>> ELSE <<QMost, QLeast>>

Fitted == IF comp = "alone" THEN {focus} ELSE Owners
\* the settings of the fitted parameter of owner o: kind, route, spelling, call (for the default route: the default call
\* of its mode and bounds) and its bounds
Setting(o) ==
    IF o = focus THEN [pk |-> pk, route |-> route, name |-> name, call |-> call,
                       bounds |-> IF route = "default" THEN call.v1 ELSE DeclBounds(ModeOf(pk))]
    ELSE LET ck == CompKind(pk)
             bd == DeclBounds(ModeOf(ck))
         IN  IF comp = "user"
             THEN [pk |-> ck, route |-> "set_prior", name |-> CompUserCall(call).cls, call |-> CompUserCall(call), bounds |-> bd]
             ELSE [pk |-> ck, route |-> "default", name |-> DefaultCall(ModeOf(ck), bd).cls, call |-> DefaultCall(ModeOf(ck), bd), bounds |-> bd]
Nobody == [o \in Owners |-> NoPrior]

\* ---- the sampler's own callable: cube point -> value handed to update_model
Clipped == Cube = "clipped" /\ via # "direct"
CubeK(k) == IF Clipped THEN (IF k < 1 THEN 1 ELSE IF k > UN - 1 THEN UN - 1 ELSE k) ELSE k
CubeTail(p, pt) == IF Clipped
                   THEN LET x == Sample(p, IF pt.side = "lo" THEN 1 ELSE UN - 1)
                        IN  IF p.kind \in UniKinds THEN [a |-> x, w |-> Q(0)] ELSE x
                   ELSE TailSample(p, pt)

Init == /\ phase = "in" /\ user = Nobody /\ inforce = Nobody /\ recv = [o \in Owners |-> <<>>]
        /\ trecv = [o \in Owners |-> <<>>]
        /\ via \in Samplers
        /\ via # "direct" => (comp \in SamplerCompanies /\ route \in SamplerRoutes)
        /\ focus \in Owners
        /\ comp \in Companies
        /\ pk \in ParamKinds
        /\ route \in Routes
        /\ call \in (IF route = "default" THEN DefaultCalls(pk) ELSE UserCalls)
        /\ name \in (IF route = "text" THEN Spellings[call.cls] ELSE {call.cls})

\* enable_fit, set_mode for the switched kinds, then the route's way of attaching the prior, for every fitted parameter
\* (default: set_boundary only -- nothing is attached before compile_params)
Attach == /\ phase = "in"
          /\ user' = [o \in Owners |->
                        IF o \notin Fitted THEN NoPrior
                        ELSE LET s == Setting(o) IN
                             IF s.route = "default" THEN NoPrior
                             ELSE IF s.route = "set_prior" THEN Build(s.call)
                             ELSE FromText(Text(s.call, s.name))]
          /\ phase' = "set"
          /\ UNCHANGED <<focus, comp, pk, route, name, call, inforce, recv, via, trecv>>
\* one pass of compile_params over the fitted parameters of one owner
PassResult(o) == IF o \in Fitted THEN InForce(o, user[o], ModeOf(Setting(o).pk), Setting(o).bounds) ELSE NoPrior
CompileModel == /\ phase = "set"
                /\ inforce' = [inforce EXCEPT !["model"] = PassResult("model")]
                /\ phase' = "pass1"
                /\ UNCHANGED <<focus, comp, pk, route, name, call, user, recv, via, trecv>>
CompileObservation == /\ phase = "pass1"
                      /\ inforce' = [inforce EXCEPT !["observation"] = PassResult("observation")]
                      /\ phase' = "compiled"
                      /\ UNCHANGED <<focus, comp, pk, route, name, call, user, recv, via, trecv>>
\* compile_params may be called again at any time before the fit (both passes anew, from what the user gave)
Recompile == /\ phase = "compiled"
             /\ inforce' = [o \in Owners |-> PassResult(o)]
             /\ UNCHANGED <<phase, focus, comp, pk, route, name, call, user, recv, via, trecv>>
\* the sampler's step for every u of the grid: cube -> prior.sample(u) -> update_model -> the owners' setters
Update == /\ phase = "compiled"
          /\ recv' = [o \in Owners |->
                        IF o \notin Fitted THEN <<>>
                        ELSE LET p == inforce[o] IN
                             [k \in 1..(UN + 1) |-> IF (k - 1) \in Grid(p) THEN Deliver(p, ModeOf(Setting(o).pk), Sample(p, CubeK(k - 1)))
                                                    ELSE [sp |-> "none", x |-> Q(0)]]]
          /\ trecv' = [o \in Owners |->
                        IF o \notin Fitted THEN <<>>
                        ELSE [i \in 1..Len(TailPts) |-> CubeTail(inforce[o], TailPts[i])]]
          /\ phase' = "done"
          /\ UNCHANGED <<focus, comp, pk, route, name, call, user, inforce, via>>
Next == Attach \/ CompileModel \/ CompileObservation \/ Recompile \/ Update
Spec == Init /\ [][Next]_vars

Done == phase = "done"
Compiled == phase \in {"compiled", "done"}
ZOk == ZAssumption
\* the prior that must be in force for the fitted parameter of owner o: the user's call as constructed directly, or the
\* default call of the parameter's mode and bounds
Expected(o) == Build(Setting(o).call)
\* the property: log classes hand 10^x, linear classes x, x the inverse CDF of the prior as constructed directly --
\* whatever the mode of the parameter, the route by which the prior arrived and the owner of the parameter
DeliveryInv == Done => \A o \in Fitted : \A k \in Grid(Expected(o)) :
                 /\ recv[o][k + 1].x = Sample(Expected(o), k)
                 /\ recv[o][k + 1].sp = (IF Setting(o).call.cls \in LogKinds THEN "pow10" ELSE "id")
\* the callable the sampler is handed is the exact inverse CDF on the whole cube: the grid with its faces (k = 0, UN for the
\* uniform kinds) and the tail ladder -- not clipped, not flat near the faces -- whoever maps the cube
SamplerInv == Done => \A o \in Fitted :
                 /\ \A k \in Grid(Expected(o)) : recv[o][k + 1].x = Sample(Expected(o), k)
                 /\ Len(trecv[o]) = Len(TailPts)
                 /\ \A i \in 1..Len(TailPts) : trecv[o][i] = TailSample(Expected(o), TailPts[i])
                 /\ Expected(o).kind \in UniKinds =>
                        /\ recv[o][1].x = Expected(o).a /\ recv[o][UN + 1].x = Expected(o).b
                        /\ \A i \in 1..Len(TailPts) : trecv[o][i].w = RSub(Expected(o).b, Expected(o).a)
RouteInv == Compiled => \A o \in Fitted : inforce[o] = Expected(o)
\* a user prior is the prior in force (for either owner, in any company) ...
UserPriorInForceInv == Compiled => \A o \in Fitted : user[o] # NoPrior => inforce[o] = user[o]
\* ... and a default prior goes to the parameters that were given none, from their own mode and bounds
DefaultOnlyWhenNoneInv == Compiled => \A o \in Fitted : user[o] = NoPrior =>
                              /\ Setting(o).route = "default"
                              /\ inforce[o] = Build(DefaultCall(ModeOf(Setting(o).pk), Setting(o).bounds))
                              /\ SpaceOf(inforce[o].kind) = ModeOf(Setting(o).pk)
DefaultSpaceInv == Compiled => \A o \in Fitted : Setting(o).route = "default" => SpaceOf(inforce[o].kind) = ModeOf(Setting(o).pk)
\* nothing is compiled for, or delivered to, an owner that has no fitted parameter
OwnerInv == /\ \A o \in Owners \ Fitted : inforce[o] = NoPrior /\ recv[o] = <<>>
            /\ Compiled => \A o \in Fitted : inforce[o] # NoPrior
            /\ phase = "pass1" => inforce["observation"] = NoPrior
FitsInv == Done => \A o \in Fitted : \A k \in 1..Len(recv[o]) : Fits(recv[o][k].x)

Slot(o) == LET s == Setting(o) IN
    [owner |-> o, role |-> IF o = focus THEN "focus" ELSE "company", pk |-> s.pk, mode |-> ModeOf(s.pk), route |-> s.route,
     name |-> s.name, call |-> s.call, bounds |-> s.bounds, given |-> user[o] # NoPrior, p |-> inforce[o],
     space |-> SpaceOf(inforce[o].kind), recv |-> recv[o], t |-> trecv[o]]
Emit == (Export /\ Done) =>
    PrintT(<<"DLV", ToJson([focus |-> focus, comp |-> comp, pk |-> pk, mode |-> ModeOf(pk), route |-> route, name |-> name,
                            call |-> call, slots |-> [o \in Fitted |-> Slot(o)], un |-> UN, via |-> via,
                            tpts |-> TailPts, zts |-> ZTS])>>)
=============================================================================
