------------------------- MODULE MC_InterpContrast -------------------------
(* C04 -- "all table shapes and magnitudes (1e-40..1)": the magnitudes may differ INSIDE one table.     *)
(*                                                                                                     *)
(* MC_Interp drives tables of small integers times one global unit (1, 1e-20, 1e-40).  Here neighbouring *)
(* rows / columns / single nodes of ONE table differ by 20 and 40 orders of magnitude: an entry is      *)
(* mant * 10^(-Dec * lev), lev \in 0..NLev-1 (Dec = 20 in the binding: 1, 1e-20, 1e-40).  A value is      *)
(* carried GRADED: the tuple <<c_0, .., c_{NLev-1}>> of exact rationals standing for sum c_l 10^(-Dec l). *)
(* The linear forms of Interp.tla are linear in the table, hence the graded result is obtained by       *)
(* evaluating the UNCHANGED operators of Interp.tla on the table of each level (TabL); in exp mode the   *)
(* two ends a, b of the geometric mean are graded, the weight w does not depend on the table.           *)
(* Comparisons of graded values are lexicographic (coefficients are rationals with numerators < 200     *)
(* and denominators < 10^5, the levels are 20 decades apart: the first differing level decides).        *)
(*                                                                                                     *)
(* Clauses: NonNegativeG, NodeExactG (EVERY node, in particular the grid edges T = Tmin, Tmax,          *)
(* P = Pmin, Pmax: the node's own mantissa at the node's own level, nothing at any other level),         *)
(* BracketBoundedG, ZeroBelowBothMinimaG.                                                              *)
(*                                                                                                     *)
(* Kernel / UpperT: a model of an IMPLEMENTATION in floating point, used for expected counterexamples.   *)
(*   Kernel = "exact"       the specification (exact rationals at every level)                          *)
(*   Kernel = "cancelling"  x0 - s (x0 - x1)  and the four-term bilinear form, every operation ROUNDED:  *)
(*                          a float keeps only its leading level (anything >= 20 decades below is         *)
(*                          absorbed).  With weight s = 1 next to a larger neighbour the node value is   *)
(*                          lost: TLC must refute NodeExactG (XC_InterpContrast_cancelling.cfg).         *)
(*   Kernel = "convex"      (1 - s) x0 + s x1, rounded the same way: reproduces every node               *)
(*   UpperT = "open"        "at or above the hottest node" tested with > : T = Tmax goes through the cell *)
(*                          kernel with weight 1; with the cancelling kernel TLC must refute NodeExactG   *)
(*                          at T = Tmax (XC_InterpContrast_openT.cfg restricts the queries to that edge). *)
EXTENDS Interp, SequencesExt
CONSTANTS TNS, PNS, Mode, QX, QYS, YShift, NLev, UpperT, Kernel, Export
VARIABLES phase, pat, qx, qy, out
vars == <<phase, pat, qx, qy, out>>

TN == SetToSortSeq(TNS, LAMBDA a, b : a < b)
PN == SetToSortSeq(PNS, LAMBDA a, b : a < b)
QY == {q - YShift : q \in QYS}
NT == Len(TN)
NP == Len(PN)
Levs == 1..NLev                 \* index l stands for the factor 10^(-Dec (l - 1))
Low  == NLev
Primes == <<2, 3, 5, 7, 11, 13, 17, 19, 23, 29, 31, 37, 41, 43, 47, 53>>
Mant == [p \in 1..NP |-> [t \in 1..NT |-> Primes[(p - 1) * NT + t]]]

\* contrast patterns: one temperature node / one pressure node tiny among ones (and the inverse), checkerboards,
\* all levels mixed
Pats == {<<"tnode", k>> : k \in 1..NT} \cup {<<"tnode_inv", k>> : k \in 1..NT}
        \cup {<<"pnode", k>> : k \in 1..NP} \cup {<<"pnode_inv", k>> : k \in 1..NP}
        \cup {<<"chk", k>> : k \in 0..1} \cup {<<"mix", 0>>}
LevOf(pt, p, t) == CASE pt[1] = "tnode"     -> IF t = pt[2] THEN Low ELSE 1
                     [] pt[1] = "tnode_inv" -> IF t = pt[2] THEN 1 ELSE Low
                     [] pt[1] = "pnode"     -> IF p = pt[2] THEN Low ELSE 1
                     [] pt[1] = "pnode_inv" -> IF p = pt[2] THEN 1 ELSE Low
                     [] pt[1] = "chk"       -> IF (p + t + pt[2]) % 2 = 0 THEN 1 ELSE Low
                     [] OTHER               -> ((p + t) % NLev) + 1
LevTab == [p \in 1..NP |-> [t \in 1..NT |-> LevOf(pat, p, t)]]
TabL(l) == [p \in 1..NP |-> [t \in 1..NT |-> IF LevOf(pat, p, t) = l THEN Mant[p][t] ELSE 0]]

\* ------------------------------------------------------------------ graded values
GZero == [l \in Levs |-> Q(0)]
G(p, t) == [l \in Levs |-> IF LevOf(pat, p, t) = l THEN Q(Mant[p][t]) ELSE Q(0)]
GAdd(g, h) == [l \in Levs |-> RAdd(g[l], h[l])]
GSub(g, h) == [l \in Levs |-> RSub(g[l], h[l])]
GScale(s, g) == [l \in Levs |-> RMul(s, g[l])]
GEq(g, h) == \A l \in Levs : REq(g[l], h[l])
GLe(g, h) == \/ GEq(g, h)
             \/ \E l \in Levs : RLt(g[l], h[l]) /\ \A k \in 1..(l - 1) : REq(g[k], h[k])
\* rounding: a float keeps its leading level only
Lead(g) == IF \A l \in Levs : g[l][1] = 0 THEN 0 ELSE CHOOSE l \in Levs : g[l][1] # 0 /\ \A k \in 1..(l - 1) : g[k][1] = 0
Rd(g) == [l \in Levs |-> IF l = Lead(g) THEN g[l] ELSE Q(0)]

\* ------------------------------------------------------------------ evaluation
Reg == Region(TN, PN, qx, qy)
ExactAt(l) == IF Mode = "linear"
              THEN LET v == ExpectedLinR(TN, PN, TabL(l), qx, qy, Reg) IN <<v, v, Q(0)>>
              ELSE ExpectedExpR(TN, PN, TabL(l), qx, qy, Reg)
Exact == <<[l \in Levs |-> ExactAt(l)[1]], [l \in Levs |-> ExactAt(l)[2]], ExactAt(1)[3]>>

\* implementation model (linear mode): region dispatch with a closed / open upper temperature edge, rounded kernels
RegU == LET pmax == qy >= NLast(PN)
            tmax == IF UpperT = "open" THEN qx > NLast(TN) ELSE qx >= NLast(TN)
            pmin == qy < NFirst(PN)
            tmin == qx < NFirst(TN)
        IN  IF pmax /\ tmax THEN "last" ELSE IF pmin /\ tmin THEN "zero"
            ELSE IF pmax /\ tmin THEN "corner_pmax_tmin" ELSE IF tmax /\ pmin THEN "corner_tmax_pmin"
            ELSE IF pmax THEN "tonly_lastp" ELSE IF tmax THEN "ponly_lastt"
            ELSE IF pmin THEN "tonly_firstp" ELSE IF tmin THEN "ponly_firstt" ELSE "interior"
KLin(g0, g1, s) == IF Kernel = "cancelling"
                   THEN Rd(GSub(g0, Rd(GScale(s, Rd(GSub(g0, g1))))))
                   ELSE Rd(GAdd(Rd(GScale(RSub(Q(1), s), g0)), Rd(GScale(s, g1))))
KBil(g11, g12, g21, g22, ps, ts) ==
    IF Kernel = "cancelling"
    THEN LET a == Rd(GSub(g11, Rd(GScale(ps, Rd(GSub(g11, g21))))))
             m == Rd(GSub(Rd(GAdd(Rd(GSub(g21, g11)), g12)), g22))
             b == Rd(GSub(a, Rd(GScale(RMul(ps, ts), m))))
         IN  Rd(GSub(b, Rd(GScale(ts, Rd(GSub(g11, g12))))))
    ELSE KLin(KLin(g11, g12, ts), KLin(g21, g22, ts), ps)
Rounded ==
    LET tl == LeftIdx(TN, qx)  tr == RightIdx(TN, qx)
        pl == LeftIdx(PN, qy)  pr == RightIdx(PN, qy)
        st == Norm(qx - TN[tl], TN[tr] - TN[tl])
        sp == Norm(qy - PN[pl], PN[pr] - PN[pl])
        r  == RegU
        v  == CASE r = "last"             -> G(NP, NT)
                [] r = "zero"             -> GZero
                [] r = "corner_pmax_tmin" -> G(NP, 1)
                [] r = "corner_tmax_pmin" -> G(1, NT)
                [] r = "tonly_lastp"      -> KLin(G(NP, tl), G(NP, tr), st)
                [] r = "ponly_lastt"      -> KLin(G(pl, NT), G(pr, NT), sp)
                [] r = "tonly_firstp"     -> KLin(G(1, tl), G(1, tr), st)
                [] r = "ponly_firstt"     -> KLin(G(pl, 1), G(pr, 1), sp)
                [] OTHER                  -> KBil(G(pl, tl), G(pl, tr), G(pr, tl), G(pr, tr), sp, st)
    IN  <<v, v, Q(0)>>

Nil == <<GZero, GZero, Q(0)>>
Init == /\ phase = "in" /\ pat \in Pats /\ qx \in QX /\ qy \in QY /\ out = Nil
Eval == /\ phase = "in"
        /\ out' = IF Kernel = "exact" THEN Exact ELSE Rounded
        /\ phase' = "done"
        /\ UNCHANGED <<pat, qx, qy>>
Next == Eval
Spec == Init /\ [][Next]_vars

\* ------------------------------------------------------------------ clauses
Done == phase = "done"
NonNegativeG == Done => \A l \in Levs : RLe(Q(0), out[1][l]) /\ RLe(Q(0), out[2][l])
NeverExtrapolated == Done => RLe(Q(0), out[3]) /\ RLe(out[3], Q(1))
IsNodeX == \E i \in 1..NT : TN[i] = qx
IsNodeY == \E j \in 1..NP : PN[j] = qy
NodeExactG == Done /\ IsNodeX /\ IsNodeY =>
    LET i == CHOOSE i \in 1..NT : TN[i] = qx
        j == CHOOSE j \in 1..NP : PN[j] = qy
    IN  \/ GEq(out[1], G(j, i)) /\ out[3] = Q(0)
        \/ GEq(out[2], G(j, i)) /\ out[3] = Q(1)
        \/ GEq(out[1], G(j, i)) /\ GEq(out[2], G(j, i))
HullNodes == {<<p, t>> : p \in Br(PN, qy), t \in Br(TN, qx)}
InHullG(v) == /\ \E n \in HullNodes : GLe(G(n[1], n[2]), v)
              /\ \E n \in HullNodes : GLe(v, G(n[1], n[2]))
BracketBoundedG == Done /\ Reg # "zero" =>
    /\ (out[3] # Q(1)) => InHullG(out[1])
    /\ (out[3] # Q(0)) => InHullG(out[2])
ZeroBelowBothMinimaG == Done /\ Reg = "zero" => GEq(out[1], GZero) /\ GEq(out[2], GZero)
FitsInv == Done => /\ Fits(out[3]) /\ \A l \in Levs : Fits(out[1][l]) /\ Fits(out[2][l])

\* where the query sits on each axis: "first" / "last" (the grid edges), "inner" node, "off" the nodes;
\* w1: the query reaches a bracket of an interpolated axis with weight exactly 1 (searchsorted-left: every node but the
\* first, when that axis is interpolated in the query's region)
NodeClass(nodes, q) == IF q = NFirst(nodes) THEN "first" ELSE IF q = NLast(nodes) THEN "last"
                       ELSE IF \E i \in 1..Len(nodes) : nodes[i] = q THEN "inner" ELSE "off"
W1 == \/ IsNodeX /\ qx # NFirst(TN) /\ Reg \in {"interior", "tonly_lastp", "tonly_firstp"}
      \/ IsNodeY /\ qy # NFirst(PN) /\ Reg \in {"interior", "ponly_lastt", "ponly_firstt"}
Emit == (Export /\ Done) =>
    PrintT(<<"CVEC", ToJson([pat |-> pat, lev |-> LevTab, mant |-> Mant, x |-> qx, y |-> qy,
                             ga |-> out[1], gb |-> out[2], w |-> out[3], reg |-> Reg,
                             inside |-> Inside(TN, PN, qx, qy), nx |-> NodeClass(TN, qx), ny |-> NodeClass(PN, qy),
                             w1 |-> W1, hull |-> HullNodes, mode |-> Mode, tn |-> TN, pn |-> PN])>>)
=============================================================================
