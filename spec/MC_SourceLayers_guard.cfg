SPECIFICATION Spec
CONSTANTS
  NL = 2
  NComp <- DefNComp
  AVals = {0,1}
  Seg2 = 2
  Modes = {"xsec","ktables"}
  KCfgs <- DefKCfgs
  Guard = "tangent"
  KAvg = "own"
  AbExps = {4}
  AbOrd = 4
  AbFloor = 99
  OnlyBasis = TRUE
  Export = FALSE
CONSTRAINT Emit
CHECK_DEADLOCK FALSE
INVARIANT LayerByLayer
