--------------------------- MODULE Trace_ParamFrame ---------------------------
(* Validation of recorded registry walks against ParamFrame.tla.  One trace per   *)
(* tid; every event carries what the real model shows AFTER the action:           *)
(*   rd     the value index read through the getter of each walked parameter      *)
(*          (99: a value that is in none of the parameter's table entries)        *)
(*   oth    1 iff every OTHER registered parameter of the model reads as it did   *)
(*          when the object was built                                             *)
(*   dflt   1 iff a SECOND model, constructed right now with every constructor     *)
(*          argument left at its default, reads the documented defaults (writes   *)
(*          to one object never reach another: no shared mutable defaults)        *)
(* [ev |-> "init", cfg, rd]            the model is built from cfg (constructor   *)
(*                                     arguments, defaults omitted or not) and    *)
(*                                     reads rd                                   *)
(* [ev |-> "set", d, v, rd, oth]       model[name_d] = table_d[v]                 *)
(* [ev |-> "eval", rd, oth, dig, fresh] the model is evaluated; digest ids of its *)
(*                                     result and of a freshly built model's      *)
(* Rejected at the first event where rd differs from the specification's reg      *)
(* (ReadYourWrite, FrameRule, RunIsPure), where oth = 0, where dig # fresh, or    *)
(* where a freshly constructed model does not read what it was constructed with.  *)
EXTENDS Integers, Sequences, FiniteSets, TLC, Json, IOUtils, TLCExt
VARIABLES l, reg, cur, dead
TraceLog == ndJsonDeserialize(IOEnv.TRACE_FILE)
Init == l = 1 /\ reg = <<>> /\ cur = -1 /\ dead = -1
Step ==
    /\ l <= Len(TraceLog)
    /\ LET e  == TraceLog[l]
           r0 == IF e.tid = cur THEN reg ELSE <<>>
       IN  IF e.tid = dead THEN UNCHANGED <<reg, cur, dead>>
           ELSE LET r1 == CASE e.ev = "init" -> e.rd
                            [] e.ev = "set" /\ r0 # <<>> /\ e.d \in 1..Len(r0) -> [r0 EXCEPT ![e.d] = e.v]
                            [] OTHER -> r0
                    why == CASE e.ev = "init" /\ r0 # <<>> -> "second-init"
                             [] e.ev = "init" /\ e.rd # e.cfg -> "ConstructorHonoured"
                             [] e.ev # "init" /\ r0 = <<>> -> "no-init"
                             [] e.ev = "set" /\ ~(e.d \in 1..Len(r0)) -> "bad-index"
                             [] e.ev = "set" /\ e.rd[e.d] # e.v -> "ReadYourWrite"
                             [] e.ev = "set" /\ e.rd # r1 -> "FrameRule"
                             [] e.ev = "set" /\ e.oth # 1 -> "FrameRule-other"
                             [] e.ev = "set" /\ e.dflt # 1 -> "FrameRule-other-object"
                             [] e.ev = "eval" /\ (e.rd # r0 \/ e.oth # 1) -> "RunIsPure"
                             [] e.ev = "eval" /\ e.dig # e.fresh -> "EqualsFresh"
                             [] OTHER -> "ok"
                IN  IF why = "ok"
                    THEN reg' = r1 /\ cur' = e.tid /\ UNCHANGED dead
                    ELSE /\ PrintT(<<"BAD", ToJson([l |-> l, tid |-> e.tid, ev |-> e.ev, why |-> why, reg |-> r0])>>)
                         /\ dead' = e.tid /\ cur' = e.tid /\ reg' = r0
    /\ l' = l + 1
Spec == Init /\ [][Step]_<<l, reg, cur, dead>>
Accepted == TLCGet("stats").diameter - 1 = Len(TraceLog)
=============================================================================
