------------------------------ MODULE Binning ------------------------------
(***************************************************************************)
(* C05 -- spectral binning.                                                *)
(*                                                                         *)
(* A bin is an interval <<lo, hi>>, lo < hi, on an integer lattice (the    *)
(* harness owns the map lattice -> cm-1; every lattice it uses is dyadic,  *)
(* so centres (lo+hi)/2 and widths hi-lo are exact floats).                *)
(*                                                                         *)
(* Part 1 is the DEFINITION the property states: the binned value of a     *)
(* target bin is the mean of the native values weighted by the length of   *)
(* overlap.  Part 2 is the ALGORITHM of FluxBinner (sort, searchsorted     *)
(* window, weights, normalisation) with the realistic slips as variants;   *)
(* MC_Binning checks that variant "ok" refines the definition for every    *)
(* order of the native and target points and that the slips do not.        *)
(* Part 3: the histogram binner (SimpleBinner) and the identity binner.    *)
(***************************************************************************)
EXTENDS Integers, Sequences, FiniteSets, TLC, Json, Rat

IMin(a, b) == IF a <= b THEN a ELSE b
IMax(a, b) == IF a <= b THEN b ELSE a
RECURSIVE ISum(_)
ISum(s) == IF s = <<>> THEN 0 ELSE Head(s) + ISum(Tail(s))
SeqMinI(s) == CHOOSE v \in {s[i] : i \in DOMAIN s} : \A j \in DOMAIN s : v <= s[j]
SeqMaxI(s) == CHOOSE v \in {s[i] : i \in DOMAIN s} : \A j \in DOMAIN s : v >= s[j]

\* ------------------------------------------------------------ 1. definition
\* native bins: ordered, non-overlapping (touching and gaps allowed)
OrderedDisjoint(N) == \A i \in 1..Len(N) :
                         /\ N[i][1] < N[i][2]
                         /\ (i < Len(N) => N[i][2] <= N[i + 1][1])
OvLen(nb, tb) == LET d == IMin(nb[2], tb[2]) - IMax(nb[1], tb[1]) IN IF d > 0 THEN d ELSE 0
WVec(N, tb)   == [i \in 1..Len(N) |-> OvLen(N[i], tb)]
WSum(N, tb)   == ISum(WVec(N, tb))
OverlapIdx(N, tb) == {i \in 1..Len(N) : OvLen(N[i], tb) > 0}
Overlaps(N, tb)   == WSum(N, tb) > 0
\* zero-length contact only (a measure-zero case the statement does not decide)
Touches(N, tb)    == /\ ~Overlaps(N, tb)
                     /\ \E i \in 1..Len(N) : N[i][2] >= tb[1] /\ N[i][1] <= tb[2]
\* overlap-weighted mean and the squared uncertainty (weights in quadrature)
Binned(N, tb, f)     == Norm(ISum([i \in 1..Len(N) |-> OvLen(N[i], tb) * f[i]]), WSum(N, tb))
BinnedErr2(N, tb, e) == Norm(ISum([i \in 1..Len(N) |-> OvLen(N[i], tb) * OvLen(N[i], tb) * e[i] * e[i]]),
                             WSum(N, tb) * WSum(N, tb))
\* normalised weights
NWeight(N, tb, i) == Norm(OvLen(N[i], tb), WSum(N, tb))
OverlapVals(N, tb, f) == {f[i] : i \in OverlapIdx(N, tb)}
SetMinI(S) == CHOOSE v \in S : \A u \in S : v <= u
SetMaxI(S) == CHOOSE v \in S : \A u \in S : v >= u

\* ------------------------------------------------------------- 2. algorithm
\* All coordinates doubled (c2 = lo + hi = 2*centre, so min2 = c2 - w, max2 = c2 + w are integers).
\* np.argsort on distinct keys: the permutation p with keys[p[1]] < keys[p[2]] < ...
RECURSIVE EagerR(_, _)
EagerR(s, k) == IF k = 0 THEN <<>> ELSE Append(EagerR(s, k - 1), s[k])
Eager(s) == EagerR(s, Len(s))
SortPerm(keys) == [i \in 1..Len(keys) |->
                     CHOOSE j \in 1..Len(keys) : Cardinality({k \in 1..Len(keys) : keys[k] < keys[j]}) = i - 1]
Permute(s, p)  == [i \in 1..Len(s) |-> s[p[i]]]
\* np.searchsorted(a, x, side): number of leading elements that are <= x ('right') / < x ('left');
\* on a sorted array that is the count of such elements
CountLe(a, x) == Cardinality({i \in 1..Len(a) : a[i] <= x})
CountLt(a, x) == Cardinality({i \in 1..Len(a) : a[i] <  x})
Search(a, x, side) == IF side = "right" THEN CountLe(a, x) ELSE CountLt(a, x)

\* variants: "ok" | "left" (side='left') | "minfull" (min instead of min[1:]) | "nonorm" (weights not
\* normalised) | "stopexcl" (window save_start:save_stop) | "nowperm" (native widths stay in caller order)
\* result: [k |-> "num", v |-> value, e2 |-> squared error] | [k |-> "zero"] (bin left at its initial 0)
\*         | [k |-> "nan"] (0/0)
\* (Eager: TLC keeps [i \in S |-> e] unevaluated and re-evaluates e on every access; a tuple is evaluated once)
AlgBin(c2in, win, fin, ein, tb2, tw, v) ==
    LET n    == Len(c2in)
        p    == Eager(SortPerm(c2in))
        c2   == Eager(Permute(c2in, p))
        w    == Eager(IF v = "nowperm" THEN win ELSE Permute(win, p))
        f    == Eager(Permute(fin, p))
        e    == Eager(Permute(ein, p))
        mn   == Eager([i \in 1..n |-> c2[i] - w[i]])
        mx   == Eager([i \in 1..n |-> c2[i] + w[i]])
        tmin == tb2 - tw
        tmax == tb2 + tw
        side == IF v = "left" THEN "left" ELSE "right"
        s0   == Search(mx, tmin, side)                                       \* 0-based
        e0   == IF v = "minfull" THEN Search(mn, tmax, side) ELSE Search(Tail(mn), tmax, side)
        st   == IMin(s0, n - 1)
        en   == IMin(e0, n - 1)
        last == IF v = "stopexcl" THEN en - 1 ELSE en                        \* 0-based inclusive
        idx  == {i \in 1..n : i >= st + 1 /\ i <= last + 1}
        wt   == Eager([i \in 1..n |-> IF i \in idx THEN IMin(tmax, mx[i]) - IMax(mn[i], tmin) ELSE 0])
        sw   == ISum(wt)
        tot  == tmax - tmin
    IN  IF ~(tmin <= mx[st + 1]) \/ ~(mn[en + 1] <= tmax) THEN [k |-> "zero"]
        ELSE IF idx = {} THEN [k |-> "zero"]
        ELSE IF sw = 0 THEN [k |-> "nan"]
        ELSE IF v = "nonorm"
             THEN [k |-> "num", v |-> Norm(ISum([i \in 1..n |-> wt[i] * f[i]]), tot),
                   e2 |-> Norm(ISum([i \in 1..n |-> wt[i] * wt[i] * e[i] * e[i]]), tot * tot)]
             ELSE [k |-> "num", v |-> Norm(ISum([i \in 1..n |-> wt[i] * f[i]]), sw),
                   e2 |-> Norm(ISum([i \in 1..n |-> wt[i] * wt[i] * e[i] * e[i]]), sw * sw)]

\* FluxBinner.__init__ sorts the target centres and permutes the widths with them;
\* bindown returns one entry per *sorted* target bin
AlgFlux(c2in, win, fin, ein, tc2in, twin, v) ==
    LET q == SortPerm(tc2in)
    IN  [k \in 1..Len(tc2in) |-> AlgBin(c2in, win, fin, ein, tc2in[q[k]], twin[q[k]], v)]

\* what the definition requires of the entry for target bin tb
DefBin(N, tb, f, e) ==
    IF Overlaps(N, tb) THEN [k |-> "num", v |-> Binned(N, tb, f), e2 |-> BinnedErr2(N, tb, e)]
    ELSE [k |-> "zero"]
Agrees(alg, N, tb, f, e) ==
    IF Overlaps(N, tb) THEN alg = DefBin(N, tb, f, e)
    ELSE IF Touches(N, tb) THEN alg.k \in {"zero", "nan"}      \* undecided by the statement
    ELSE alg.k = "zero"                                        \* untouched

\* ------------------------------------------------- 3. histogram / identity
\* SimpleBinner: target centres tc (ascending, >= 2), edges at mid-points, end edges mirrored.
\* Doubled coordinates: 2*edge[0] = 3 tc[1] - tc[2], 2*edge[k] = tc[k] + tc[k+1], 2*edge[n] = 3 tc[n] - tc[n-1]
\* deterministic enumeration of a finite set of integers
RECURSIVE SetToSeqR(_)
SetToSeqR(S) == IF S = {} THEN <<>> ELSE LET m == SetMinI(S) IN <<m>> \o SetToSeqR(S \ {m})
SetToSeqI(S) == SetToSeqR(S)
HistEdge2(tc, k) == LET n == Len(tc) IN
                    IF k = 0 THEN 3 * tc[1] - tc[2]
                    ELSE IF k = n THEN 3 * tc[n] - tc[n - 1]
                    ELSE tc[k] + tc[k + 1]
OnHistEdge(tc, x) == \E k \in 0..Len(tc) : 2 * x = HistEdge2(tc, k)
HistMembers(tc, xs, k) == {i \in 1..Len(xs) : HistEdge2(tc, k - 1) < 2 * xs[i] /\ 2 * xs[i] < HistEdge2(tc, k)}
HistMean(tc, xs, f, k) == LET M == HistMembers(tc, xs, k)
                              idx == SetToSeqI(M)
                          IN  Norm(ISum([j \in 1..Len(idx) |-> f[idx[j]]]), Cardinality(M))

\* ---------------------------------------------------------- 4. presentation
\* The statement quantifies over BINS, not over the way a caller happens to hand them over.  The same
\* bins can be presented with every array in floating or in integer storage (legal when every value is a
\* whole number of storage units; UU lattice points per unit), with the widths as one array, as ONE scalar
\* (legal when all widths are equal) or omitted (legal here when the bins tile an interval with equal widths:
\* the widths derived from the mid-points then ARE the widths).  The binned values are the same for every
\* legal presentation (MC_BinPres: PresRefinesDef).  A presentation of one side (native or target):
\*    ck  storage of the centres,  wf  form of the widths,  wk  storage of the widths (array or scalar);
\* the native side also has  fk / ek  storage of the spectrum / of the uncertainties.
\* Realistic slips (variants): "widthlike" -- a scalar width is expanded into an array of the storage type
\* of the CENTRES (np.full_like(centres, width)): truncated towards zero when the centres are integers;
\* "outlike" -- the result arrays take the storage type of the spectrum / of the uncertainties.
BinC2(b) == b[1] + b[2]
BinWd(b) == b[2] - b[1]
PKinds == {"float", "int"}
PForms == {"array", "scalar", "omitted"}
SidePres  == {p \in [ck : PKinds, wf : PForms, wk : PKinds] : p.wf = "omitted" => p.wk = "float"}
PlainSide == [ck |-> "float", wf |-> "array", wk |-> "float"]
EqualWidths(N) == \A i, j \in 1..Len(N) : BinWd(N[i]) = BinWd(N[j])
UniformTiling(N) == /\ Len(N) >= 2 /\ EqualWidths(N)
                    /\ LET q == SortPerm([i \in 1..Len(N) |-> BinC2(N[i])])
                       IN  \A i \in 1..(Len(N) - 1) : N[q[i]][2] = N[q[i + 1]][1]
SideLegal(p, N, UU) ==
    /\ (p.ck = "int") => \A i \in 1..Len(N) : (BinC2(N[i]) % (2 * UU)) = 0
    /\ (p.wf = "scalar") => EqualWidths(N)
    /\ (p.wf = "omitted") => UniformTiling(N)
    /\ (p.wf # "omitted" /\ p.wk = "int") => \A i \in 1..Len(N) : (BinWd(N[i]) % UU) = 0
LegalSides(N, UU) == {p \in SidePres : SideLegal(p, N, UU)}
\* the widths the algorithm ends up with
PresW(p, N, UU, v) == [i \in 1..Len(N) |->
    IF v = "widthlike" /\ p.wf = "scalar" /\ p.ck = "int" THEN (BinWd(N[i]) \div UU) * UU ELSE BinWd(N[i])]
\* a non-negative rational stored in an integer cell; the square of an uncertainty stored in an integer cell
ISqrtFloor(n) == CHOOSE r \in 0..n : r * r <= n /\ n < (r + 1) * (r + 1)
RFloorQ(a)    == Q(a[1] \div a[2])
RFloorSq(a)   == LET r == ISqrtFloor(a[1] \div a[2]) IN Q(r * r)
PresOut(entry, fk, ek, v) ==
    IF v = "outlike" /\ entry.k = "num"
    THEN [k |-> "num", v |-> IF fk = "int" THEN RFloorQ(entry.v) ELSE entry.v,
          e2 |-> IF ek = "int" THEN RFloorSq(entry.e2) ELSE entry.e2]
    ELSE entry
=============================================================================
