SPECIFICATION Spec
CONSTANTS
  Rule = "max"
  Families = {"over"}
  Starts = {7, 30}
  Lens = {3, 5}
  ASet = {3}
  ARef = 2
  Search = "each"
  OvlN = 2
  Licensed = FALSE
  Export = FALSE
INVARIANT LikelihoodOfFullGrid
CHECK_DEADLOCK FALSE
