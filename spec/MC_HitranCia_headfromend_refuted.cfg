SPECIFICATION HSpec
CONSTANTS
  NB = 2
  TempK <- MCTemp2
  SortBeforeFill = TRUE
  OutsideRule = "zero"
  BoundsRule = "given"
  Layouts = {"k", "ref:k"}
  KField = "second"
  HeadFrom = "end"
  QTemps = {200, 250, 400}
  Export = FALSE
INVARIANT ReaderMatchesTable
CHECK_DEADLOCK FALSE
