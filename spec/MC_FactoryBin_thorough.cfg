SPECIFICATION Spec
CONSTANTS
  NTriples = 3
  Accurates = {"", "True", "False", "yes", "no", "Yeah", "nope"}
  Spells = {"lower", "cap", "upper"}
  ObsOverridesNative = FALSE
  WlGridLinearInWn = FALSE
INVARIANT WrittenBinTypeWins
INVARIANT DefaultBinning
INVARIANT ObservedNeedsObservation
INVARIANT GridAsDocumented
INVARIANT AccurateSelectsBinner
INVARIANT InstrumentGridDocumented
INVARIANT GridFits
CONSTRAINT Emit
CHECK_DEADLOCK FALSE
