SPECIFICATION ESpec
CONSTANTS
  WlNm <- MCWl6
  Reorder = "argsort"
  Export = TRUE
INVARIANT ETypeOK
INVARIANT ReaderMatchesTable
INVARIANT GridAscending
INVARIANT ColumnsArePermutation
INVARIANT OrderIrrelevant
CONSTRAINT EEmit
CHECK_DEADLOCK FALSE
