SPECIFICATION Spec
CONSTANTS
  WLS = {4,5,10,20,25}
  NMin = 2
  NMax = 4
  NCols = {4}
  NMax3 = 0
  Wids = {1,7}
  H = 100
  U = 1
  AlgVariant = "ok"
  Cuts = {"none", "low"}
  Export = FALSE
INVARIANT ModelCovered
INVARIANT AllNumWhenCovered
INVARIANT ModelWithItsRow
INVARIANT ModelPermutationInvariant
INVARIANT ModelBetween
INVARIANT OnLattice
INVARIANT AlgRefinesObs
INVARIANT WinIsBinning
INVARIANT FitsInv
CONSTRAINT Emit
CHECK_DEADLOCK FALSE
