SPECIFICATION Spec
CONSTANTS
  WLS = {4,5,10,20,25}
  NMin = 2
  NMax = 4
  NCol = 4
  Wids = {1,3,7}
  H = 50
  U = 25
  AlgVariant = "ok"
  Export = FALSE
INVARIANT ModelCovered
INVARIANT ModelWithItsRow
INVARIANT ModelPermutationInvariant
INVARIANT ModelBetween
INVARIANT OnLattice
INVARIANT AlgRefinesObs
INVARIANT FitsInv
CONSTRAINT Emit
CHECK_DEADLOCK FALSE
