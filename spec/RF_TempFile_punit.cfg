SPECIFICATION Spec
CONSTANTS
  NMin = 2
  NMax = 3
  TVals = {1,2,4}
  MaxLen = 2
  PUnits = {0,5}
  TUnits = {1}
  Lays = {1}
  Skips = {0}
  Delims = {"ws"}
  Orders = {"boa"}
  Rule = "file_punit_on_both"
  Export = FALSE
INVARIANT WithinControlRange
CONSTRAINT Emit

CHECK_DEADLOCK FALSE
