---------------------------- MODULE MC_GasProfile ----------------------------
(* Exhaustive / export model for the built-in abundance profiles of C10 in the *)
(* log10-abundance domain, on the integer log-pressure grid LP = n-1, .., 0    *)
(* (decades): constant, two-point, two-layer (with the window arithmetic) and  *)
(* array profiles for every layer count 2..NMax.                               *)
EXTENDS Chemistry, SequencesExt
CONSTANTS NMin, NMax,    \* layer counts
          SVals, SShift, \* log10 abundances in {v - SShift : v \in SVals}
          SWs,           \* smoothing windows (percent, integers)
          ArrLens,       \* lengths of array profiles
          Rule,          \* "spec" | "twolayer_asbuilt"
          Export
VARIABLES phase, kind, n, s, t, pl0, sw, arr, out
vars == <<phase, kind, n, s, t, pl0, sw, arr, out>>

Logs == {v - SShift : v \in SVals}
LPOf(k) == [l \in 1..k |-> k - l]
ArrSeqs == UNION {[1..m -> Logs] : m \in ArrLens}
Nil == [st |-> "none", prof |-> <<>>]

Init == /\ phase = "in" /\ out = Nil
        /\ n \in NMin..NMax
        /\ kind \in {"constant", "twopoint", "twolayer", "array"}
        /\ s \in Logs
        /\ t \in (IF kind \in {"twopoint", "twolayer"} THEN Logs ELSE {0})
        /\ pl0 \in (IF kind = "twolayer" THEN 0..(n - 1) ELSE {0})
        /\ sw \in (IF kind = "twolayer" THEN SWs ELSE {0})
        /\ arr \in (IF kind = "array" THEN ArrSeqs ELSE {<<>>})
        /\ (kind = "array" => s = arr[1])
Profile == CASE kind = "constant" -> ConstProfile(Q(s), n)
             [] kind = "twopoint" -> TwoPointLog(s, t, LPOf(n))
             [] kind = "twolayer" -> TwoLayerLog(s, t, LPOf(n), pl0, sw, Rule)
             [] kind = "array"    -> ArrayLin([i \in 1..Len(arr) |-> Q(arr[i])], n)
Eval == /\ phase = "in"
        /\ out' = LET p == Profile IN IF p = Fail THEN [st |-> "fail", prof |-> <<>>]
                                      ELSE [st |-> "ok", prof |-> p]
        /\ phase' = "done"
        /\ UNCHANGED <<kind, n, s, t, pl0, sw, arr>>
Next == Eval
Spec == Init /\ [][Next]_vars

Done == phase = "done"
Controls == CASE kind = "constant" -> {s}
              [] kind \in {"twopoint", "twolayer"} -> {s, t}
              [] kind = "array" -> {arr[i] : i \in 1..Len(arr)}
CLo == CHOOSE v \in Controls : \A u \in Controls : v <= u
CHi == CHOOSE v \in Controls : \A u \in Controls : v >= u

OneValuePerLayer == Done => out.st = "ok" /\ Len(out.prof) = n
WithinControlRange == (Done /\ out.st = "ok") => SeqWithin(out.prof, Q(CLo), Q(CHi))
ConstantWhenEqual == (Done /\ out.st = "ok" /\ CLo = CHi) => SeqConst(out.prof, Q(CLo))
EndValues == (Done /\ out.st = "ok" /\ kind = "twopoint") => out.prof[1] = Q(s) /\ out.prof[n] = Q(t)
FitsInv == (Done /\ out.st = "ok") => SeqFits(out.prof)

Emit == (Export /\ Done) =>
    PrintT(<<"VEC", ToJson([kind |-> kind, n |-> n, s |-> s, t |-> t, pl0 |-> pl0, sw |-> sw, arr |-> arr,
                            lp |-> LPOf(n), prof |-> out.prof, lo |-> CLo, hi |-> CHi,
                            exact |-> (kind # "twolayer" \/ TwoLayerUnambiguous(pl0, sw, n))])>>)
=============================================================================
