------------------------------ MODULE BinRoutes ------------------------------
(***************************************************************************************************)
(* C05 -- the ROUTE dimension of the quantifier.                                                   *)
(*                                                                                                 *)
(* "Binning a spectrum onto an observation grid returns ... the overlap-weighted mean" is a         *)
(* statement about WHAT IS RETURNED FOR THE SPECTRUM, whichever public entry point carries the      *)
(* spectrum to the mechanism.  The entry points of a binner are                                     *)
(*     bindown      bindown(wn, flux, error=e)                 native widths not given               *)
(*     bindown_w    bindown(wn, flux, grid_width=w, error=e)   w worked out by the caller with       *)
(*                                                              compute_bin_edges (the documented     *)
(*                                                              recipe)                               *)
(*     bindown_2d   bindown(wn, tau)                           2-D input, one row per layer          *)
(*     bin_model    bin_model((wn, flux, tau, extra))          the forward model's result            *)
(*     out_spectrum generate_spectrum_output(...)['binned_spectrum']   what is written to the output *)
(*     out_tau      generate_spectrum_output(...)['binned_tau']        file (2-D), for every size    *)
(* Only the first two let the caller say what the native bins are; on all others the native bins    *)
(* are DERIVED from the native points: edges at the mid-points between neighbouring points, the end *)
(* edges mirrored (compute_bin_edges).  Two readings of "the native bin of point i" exist on a      *)
(* non-uniform grid -- "half": centre -/+ half the mid-point width, "edges": from mid-point to      *)
(* mid-point; they coincide on uniform grids.  FluxBinner uses "half"; the statement admits both.   *)
(*                                                                                                 *)
(* All bins of this module are in 4x lattice coordinates (centres cs are lattice integers).         *)
(*                                                                                                 *)
(* Realistic slips of ONE route (variants, expected counterexamples):                               *)
(*   "otherunit"     the route hands the binner the mid-point widths of the same points in the      *)
(*                   OTHER spectral unit (the reciprocal grid K/nu) as grid_width                    *)
(*   "firstwidth"    the route hands over ONE width (that of the first point) for all points         *)
(*   "fluxfortau"    the 2-D route bins the 1-D spectrum (broadcast) instead of the optical depths   *)
(*   "unsortedwidth" the widths are derived from the points in the caller's order, before sorting    *)
(***************************************************************************************************)
EXTENDS Binning

Routes   == {"bindown", "bindown_w", "bindown_2d", "bin_model", "out_spectrum", "out_tau"}
TwoD(rt) == rt \in {"bindown_2d", "out_tau"}
WithErr(rt) == rt \in {"bindown", "bindown_w"}
Slips    == {"otherunit", "firstwidth", "fluxfortau", "unsortedwidth"}
Readings == {"half", "edges"}

\* ------------------------------------------------------------------ derived native bins
NbL(cs, i)   == IF i = 1 THEN 2 * cs[1] - cs[2] ELSE cs[i - 1]
NbR(cs, i)   == IF i = Len(cs) THEN 2 * cs[Len(cs)] - cs[Len(cs) - 1] ELSE cs[i + 1]
\* half of the mid-point width of point i, 4x (np.abs(np.diff(edges)): absolute value)
HalfW(cs, i) == Abs(NbR(cs, i) - NbL(cs, i))
DerivedHW(cs) == [i \in 1..Len(cs) |-> HalfW(cs, i)]
BinHalf(cs, i) == <<4 * cs[i] - HalfW(cs, i), 4 * cs[i] + HalfW(cs, i)>>
BinEdge(cs, i) == <<2 * (NbL(cs, i) + cs[i]), 2 * (cs[i] + NbR(cs, i))>>
DerivedBins(cs, rd) == [i \in 1..Len(cs) |-> IF rd = "half" THEN BinHalf(cs, i) ELSE BinEdge(cs, i)]
UniformPts(cs) == \A i \in 1..(Len(cs) - 1) : cs[i + 1] - cs[i] = cs[2] - cs[1]
\* the quantifier's "ordered bins": lower and upper edges ascend with the points (true of constant-R, linear and
\* logarithmic grids; the derived bins of neighbouring points may overlap by the second difference of the spacing)
OrderedBins(N) == \A i \in 1..Len(N) :
                     /\ N[i][1] < N[i][2]
                     /\ (i < Len(N) => N[i][1] < N[i + 1][1] /\ N[i][2] < N[i + 1][2])
Tgt4(tb) == <<4 * tb[1], 4 * tb[2]>>

\* ------------------------------------------------------------------ the other spectral unit
\* nu_i = X0 + cs[i];  lambda_i = K / nu_i with K the product of all nu_j (so that every lambda_i is an integer)
NuZero == 8
RECURSIVE IProd(_)
IProd(s) == IF s = <<>> THEN 1 ELSE Head(s) * IProd(Tail(s))
Recip(cs, X0) == LET nu == Eager([i \in 1..Len(cs) |-> X0 + cs[i]])  K == IProd(nu) IN Eager([i \in 1..Len(cs) |-> K \div nu[i]])
RecipHW(cs, X0) == DerivedHW(Recip(cs, X0))

\* ------------------------------------------------------------------ one route of the flux binner
\* mo: the model output [flux |-> f, tau |-> <<g1, g2, ..>>, e |-> uncertainties], all in the order of ascending points;
\* p: the order in which the caller hands the points over; slip applies on the routes in `on` only.
\* Result: one row per binned array, one entry (AlgBin result) per SORTED target bin.
RouteRows(rt, mo, slip, on) ==
    IF TwoD(rt) THEN (IF slip = "fluxfortau" /\ rt \in on THEN [r \in 1..Len(mo.tau) |-> mo.flux] ELSE mo.tau)
    ELSE <<mo.flux>>
RouteRun(rt, cs, p, tgt, mo, slip, on) ==
    LET n    == Len(cs)
        cp   == Eager(Permute(cs, p))                \* as handed over
        q    == Eager(SortPerm(cp))                  \* bindown sorts the points ...
        sc   == Eager(Permute(cp, q))
        bad  == rt \in on
        hw   == Eager(IF bad /\ slip = "otherunit" THEN RecipHW(sc, NuZero)
                      ELSE IF bad /\ slip = "firstwidth" THEN [i \in 1..n |-> HalfW(sc, 1)]
                      ELSE IF bad /\ slip = "unsortedwidth" THEN Permute(DerivedHW(cp), q)
                      ELSE DerivedHW(sc))            \* ... and derives the widths from the sorted points
        rows == RouteRows(rt, mo, slip, on)
        tc   == Eager([k \in 1..Len(tgt) |-> 2 * (tgt[k][1] + tgt[k][2])])
        tw   == Eager([k \in 1..Len(tgt) |-> 2 * (tgt[k][2] - tgt[k][1])])
    IN  [r \in 1..Len(rows) |->
            IF rt = "bindown_w"
            THEN \* the caller derived the widths from the ascending points and hands points, widths, values over in
                 \* the order p: the binner's own sort carries the widths along (Binning!AlgBin)
                 AlgFlux(Eager([i \in 1..n |-> 4 * cp[i]]), Eager(Permute(hw, p)), Eager(Permute(rows[r], p)),
                         Eager(Permute(mo.e, p)), tc, tw, "ok")
            ELSE AlgFlux(Eager([i \in 1..n |-> 4 * sc[i]]), hw, Eager(Permute(Eager(Permute(rows[r], p)), q)),
                         Eager(Permute(Eager(Permute(mo.e, p)), q)), tc, tw, "ok")]

\* what the statement requires of the route under reading rd: every row, every sorted target bin
RouteWants(rt, mo) == IF TwoD(rt) THEN mo.tau ELSE <<mo.flux>>
SortedT(tgt) == LET q == SortPerm([k \in 1..Len(tgt) |-> tgt[k][1] + tgt[k][2]]) IN [k \in 1..Len(tgt) |-> tgt[q[k]]]
AgreesV(alg, N, tb, f, e, err) ==            \* as Binning!Agrees; the uncertainty only where the route takes one
    IF Overlaps(N, tb) THEN alg.k = "num" /\ alg.v = Binned(N, tb, f) /\ (err => alg.e2 = BinnedErr2(N, tb, e))
    ELSE IF Touches(N, tb) THEN alg.k \in {"zero", "nan"}
    ELSE alg.k = "zero"
RouteAgrees(res, rt, cs, tgt, mo, rd) ==
    LET N == DerivedBins(cs, rd)  st == SortedT(tgt)  want == RouteWants(rt, mo) IN
    /\ Len(res) = Len(want)
    /\ \A r \in 1..Len(want) : \A k \in 1..Len(tgt) : AgreesV(res[r][k], N, Tgt4(st[k]), want[r], mo.e, WithErr(rt))
=============================================================================
