SPECIFICATION SSpec
CONSTANTS
  TB <- MCTB
  Grids <- MCGrids
  NGrids = 3
  Kinds = {"flux", "simple", "native"}
  Muts = {"none"}
  Ords = {"asc", "desc", "mixed"}
  Depth = 5
  Export = "walks"
INVARIANT HoldArgs
INVARIANT HoldResult
INVARIANT HoldEarlier
INVARIANT FitsInv
CONSTRAINT Bound
CONSTRAINT EmitWalk
CHECK_DEADLOCK FALSE
