------------------------------ MODULE ObsBin ------------------------------
(***************************************************************************)
(* C17, last sentence: "The binner created from the observation bins onto  *)
(* exactly those centres and widths, so a model binned to the observation  *)
(* is aligned element by element with the observed values."                *)
(*                                                                         *)
(* Element i of the loaded observation stands for the interval             *)
(*        [wn_i - w_i/2, wn_i + w_i/2]     (exact rationals of Load).      *)
(* A native model is a sequence N of ordered, disjoint cells <<lo, hi>>    *)
(* with integer edges (unit 1/Dn cm-1) and integer values f.  The model    *)
(* binned to the observation is, element i, the overlap-weighted mean      *)
(* Binning!Binned of the native cells over exactly that interval -- for    *)
(* observations whose bins overlap, leave gaps, differ strongly in width   *)
(* or whose lower / upper edges do not ascend with the centres, as much as *)
(* for contiguous ones, and whatever the row order of the source.          *)
(*                                                                         *)
(* Binning.tla works on an integer lattice.  The interval of element i     *)
(* has rational ends lo = a/b, hi = c/d; on the lattice of unit            *)
(* 1/(lcm(b,d) Dn) cm-1 both ends and every native edge are integers, and  *)
(* the weighted mean does not depend on the unit: every element is         *)
(* evaluated on its own lattice (no common denominator, 32-bit safe).      *)
(*                                                                         *)
(* Second part: the window algorithm of FluxBinner.bindown on sorted       *)
(* native cells, with the slips that assume ascending target edges         *)
(* ("resumestart", "resumestop", "resume": the searchsorted of a bin is    *)
(* resumed from the previous bin's window).  MC_ObsBin checks that the     *)
(* algorithm as built, fed BinnerOf(Load(rows)) for every row order,       *)
(* returns the definition for every element, and that the slips do not.    *)
(***************************************************************************)
EXTENDS Observation
B == INSTANCE Binning

LCMi(a, b) == (a \div GCD(a, b)) * b
BinLo(c, w) == RSub(c, RHalf(w))
BinHi(c, w) == RAdd(c, RHalf(w))
LatMul(lo, hi) == LCMi(lo[2], hi[2])
TgtOn(lo, hi, Dn) == LET m == LatMul(lo, hi) IN <<lo[1] * (m \div lo[2]) * Dn, hi[1] * (m \div hi[2]) * Dn>>
NatOn(N, lo, hi)  == LET m == LatMul(lo, hi) IN [k \in 1..Len(N) |-> <<N[k][1] * m, N[k][2] * m>>]
\* the native cells tile an interval that contains the bin (a model grid covers the observation)
Tiling(N) == /\ B!OrderedDisjoint(N)
             /\ \A k \in 1..(Len(N) - 1) : N[k][2] = N[k + 1][1]
Within(N, Dn, c, w) == /\ RLe(Q(N[1][1]), RMul(Q(Dn), BinLo(c, w)))
                       /\ RLe(RMul(Q(Dn), BinHi(c, w)), Q(N[Len(N)][2]))
CoversBin(N, Dn, c, w) == Tiling(N) /\ Within(N, Dn, c, w)
ModelOnBin(N, f, Dn, c, w) ==
    LET lo == BinLo(c, w)  hi == BinHi(c, w) IN B!Binned(NatOn(N, lo, hi), TgtOn(lo, hi, Dn), f)
\* the model binned to the observation: element i <-> centre wn[i], width w[i] (and value val[i])
ModelOnObs(wn, w, N, f, Dn) == [i \in 1..Len(wn) |-> ModelOnBin(N, f, Dn, wn[i], w[i])]

\* ---------------------------------------------------- coverage of the bins by the model
\* The model's native cells N (ordered, disjoint, given with their widths) need NOT reach over every bin of
\* the observation: an instrument point beyond either end of the model grid, or in a gap of it.  Element i
\* stays the model over the bin of element i wherever that bin overlaps the native cells (the mean over the
\* covered part: C05 "for every target bin that overlaps the native grid"); a bin the model does not reach
\* carries no model flux ("outside") and must not move the others; zero-length contact is not decided.
CovOf(N, Dn, c, w) ==
    LET lo == BinLo(c, w)  hi == BinHi(c, w)  Nn == NatOn(N, lo, hi)  tb == TgtOn(lo, hi, Dn)  ws == B!WSum(Nn, tb)
    IN  IF ws = tb[2] - tb[1] THEN "full" ELSE IF ws > 0 THEN "partial" ELSE IF B!Touches(Nn, tb) THEN "touch" ELSE "outside"
CovBin(N, f, Dn, c, w) == LET k == CovOf(N, Dn, c, w) IN
    IF k \in {"full", "partial"} THEN [k |-> "num", v |-> ModelOnBin(N, f, Dn, c, w)] ELSE [k |-> k]
ModelOnObsCov(wn, w, N, f, Dn) == [i \in 1..Len(wn) |-> CovBin(N, f, Dn, wn[i], w[i])]
\* where the bins without model sit in the (ascending) order of the elements: before the first covered one,
\* after the last, between two covered ones; whether a bin is covered in part only
CovPattern(wn, w, N, Dn) ==
    LET kind == [i \in 1..Len(wn) |-> CovOf(N, Dn, wn[i], w[i])]
        cov  == {i \in 1..Len(wn) : kind[i] \in {"full", "partial"}}
        out  == {i \in 1..Len(wn) : kind[i] = "outside"}
    IN  [low     |-> cov # {} /\ \E i \in out : \A j \in cov : i < j,
         high    |-> cov # {} /\ \E i \in out : \A j \in cov : i > j,
         mid     |-> \E i \in out : \E j, m \in cov : j < i /\ i < m,
         partial |-> \E i \in 1..Len(wn) : kind[i] = "partial",
         touch   |-> \E i \in 1..Len(wn) : kind[i] = "touch",
         nout    |-> Cardinality(out), ncov |-> Cardinality(cov)]

\* ---------------------------------------------------- geometry of the bins
\* (wn ascending as loaded; classes of the input space the clause must hold on)
GLo(wn, w, i) == BinLo(wn[i], w[i])
GHi(wn, w, i) == BinHi(wn[i], w[i])
BinsOverlap(wn, w) == \E i, j \in 1..Len(wn) : i < j /\ RLt(GLo(wn, w, j), GHi(wn, w, i)) /\ RLt(GLo(wn, w, i), GHi(wn, w, j))
BinsNested(wn, w)  == \E i, j \in 1..Len(wn) : i # j /\ RLe(GLo(wn, w, i), GLo(wn, w, j)) /\ RLe(GHi(wn, w, j), GHi(wn, w, i))
BinsGap(wn, w)     == \E i \in 1..(Len(wn) - 1) : \A j \in 1..i : \A m \in (i + 1)..Len(wn) : RLt(GHi(wn, w, j), GLo(wn, w, m))
LowerNotAscending(wn, w) == \E i \in 1..(Len(wn) - 1) : RLt(GLo(wn, w, i + 1), GLo(wn, w, i))
UpperNotAscending(wn, w) == \E i \in 1..(Len(wn) - 1) : RLt(GHi(wn, w, i + 1), GHi(wn, w, i))
WidthsDiffer(wn, w)      == \E i, j \in 1..Len(wn) : RLe(RMul(Q(4), w[i]), w[j])
Geo(wn, w) == [overlap |-> BinsOverlap(wn, w), nested |-> BinsNested(wn, w), gap |-> BinsGap(wn, w),
               lownonasc |-> LowerNotAscending(wn, w), upnonasc |-> UpperNotAscending(wn, w),
               widthsdiffer |-> WidthsDiffer(wn, w)]

\* ------------------------------------------- a native model for an observation
\* contiguous cells of widths H, 2H, 3H, H, ... (integer cm-1, Dn = 1) from below the lowest bin edge to
\* above the highest; values generic: not constant, not monotone, not linear
RFloor(r) == r[1] \div r[2]
RECURSIVE NatCells(_, _, _, _)
NatCells(a, b, H, m) == IF a >= b THEN <<>>
                        ELSE LET e == a + H * (1 + (m % 3)) IN <<<<a, e>>>> \o NatCells(e, b, H, m + 1)
NatFor(wn, w, H) ==
    LET los == [i \in 1..Len(wn) |-> GLo(wn, w, i)]
        his == [i \in 1..Len(wn) |-> GHi(wn, w, i)]
        a   == (RFloor(RMinSeq(los)) \div H) * H - H
        b   == RFloor(RMaxSeq(his)) + 1 + H
    IN  NatCells(a, b, H, 1)
NatVals(n) == [m \in 1..n |-> 1 + ((m * m * 3 + m * 5) % 17)]

\* ------------------------------------------------ FluxBinner window algorithm
\* Doubled lattice coordinates as in Binning!AlgBin.  mn / mx: lower / upper edges of the native cells,
\* already ascending; tb2, tw: doubled centre and width of one target bin; sp / ep: index the two
\* searches may not fall below (0 = a fresh np.searchsorted over the whole array, FluxBinner as built).
WinBin(mn, mx, f, tb2, tw, sp, ep) ==
    LET n    == Len(mn)
        tmin == tb2 - tw
        tmax == tb2 + tw
        s0   == B!IMax(sp, B!CountLe(mx, tmin))
        e0   == B!IMax(ep, B!CountLe(Tail(mn), tmax))
        st   == B!IMin(s0, n - 1)
        en   == B!IMin(e0, n - 1)
        idx  == {i \in 1..n : i >= st + 1 /\ i <= en + 1}
        wt   == [i \in 1..n |-> IF i \in idx THEN B!IMin(tmax, mx[i]) - B!IMax(mn[i], tmin) ELSE 0]
        sw   == B!ISum(wt)
        skip == ~(tmin <= mx[st + 1]) \/ ~(mn[en + 1] <= tmax)      \* the loop's "continue": nothing is written
    IN  [st |-> st, en |-> en, skip |-> skip,
         r  |-> IF ~(tmin <= mx[st + 1]) \/ ~(mn[en + 1] <= tmax) THEN [k |-> "zero"]
                ELSE IF idx = {} THEN [k |-> "zero"]
                ELSE IF sw = 0 THEN [k |-> "nan"]
                ELSE [k |-> "num", v |-> Norm(B!ISum([i \in 1..n |-> wt[i] * f[i]]), sw)]]
\* variants: "ok" | "resumestart" | "resumestop" | "resume" (both) |
\*           "compact": the result of a bin is written at a running counter of the bins written so far, not at the
\*                      bin's own index (equal as long as no bin is skipped: every bin reached by the model)
RECURSIVE WinFluxFrom(_, _, _, _, _, _, _, _, _)
WinFluxFrom(mn, mx, f, tc2, tw, k, sp, ep, v) ==
    IF k > Len(tc2) THEN <<>>
    ELSE LET b == WinBin(mn, mx, f, tc2[k], tw[k],
                         IF v \in {"resumestart", "resume"} THEN sp ELSE 0,
                         IF v \in {"resumestop", "resume"} THEN ep ELSE 0)
         IN  <<b>> \o WinFluxFrom(mn, mx, f, tc2, tw, k + 1, b.st, b.en, v)
\* targets tc2 / tw in the binner's (ascending) order
WinFlux(mn, mx, f, tc2, tw, v) ==
    LET raw  == WinFluxFrom(mn, mx, f, tc2, tw, 1, 0, 0, v)
        kept == SelectSeq(raw, LAMBDA b : ~b.skip)
    IN  [i \in 1..Len(raw) |-> IF v # "compact" THEN raw[i].r ELSE IF i <= Len(kept) THEN kept[i].r ELSE [k |-> "zero"]]
=============================================================================
