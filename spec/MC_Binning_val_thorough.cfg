SPECIFICATION Spec
CONSTANTS
  E = 5
  KMin = 1
  KMax = 4
  TES = {0,1,2,3,4,5,6,7,8,9}
  TShift = 2
  NTgtMin = 1
  NTgtMax = 1
  Vals = {0,1,3}
  FMode = "all"
  Kinds = {"flux"}
  Variant = "ok"
  Export = FALSE
INVARIANT WellFormed
INVARIANT OutIsSortedOrder
INVARIANT DefPermutationInvariant
INVARIANT ConstantPreserved
INVARIANT BetweenMinMaxOfOverlapping
INVARIANT Linear
INVARIANT WeightsSumToOne
INVARIANT ErrQuadrature
INVARIANT FitsInv
CONSTRAINT Emit
CHECK_DEADLOCK FALSE
