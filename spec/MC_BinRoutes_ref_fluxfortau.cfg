SPECIFICATION Spec
CONSTANTS
  CMax = 4
  KMin = 2
  KMax = 3
  TES = {0,1,2,3,4,5,6,7}
  TShift = 1
  TESp = {0,2,5}
  FModes = {"gen2"}
  EvalRoutes = {"out_tau"}
  AllOrders = FALSE
  Slip = "fluxfortau"
  SlipOn = {"out_tau"}
  Export = FALSE
INVARIANT RouteRefinesDef
CONSTRAINT EmitR
CHECK_DEADLOCK FALSE
