------------------------ MODULE Trace_ParallelStats ------------------------
(***************************************************************************)
(* C18, binding B.  The log holds, for each simulated MPI run (tid), the   *)
(* events recorded inside the worker processes (one real process per rank) *)
(*   U  OnlineVariance.update      rank, sample index i, value v, weight w *)
(*                                 + projected accumulator after the call  *)
(*   G  the rank's contribution to the allgathers of parallelVariance      *)
(*      (variance / mean as sent: number, or the np.nan OBJECT)            *)
(*   C  combine: what the rank received (kinds) and what it returned       *)
(* each with the per-process sequence number `seq`.  The harness merges    *)
(* the per-rank logs (U.., G.., C..), which is a linearisation of the real *)
(* run because Combine only follows the completed collective.              *)
(* TLC replays the events against the operators of ParallelStatsOps with   *)
(* exact rationals recomputed from the logged (v, w); logged floats are    *)
(* scaled integers compared with Close().  The combined result of every    *)
(* rank must be the weighted mean / two-pass variance of all samples; at   *)
(* the C events the processed sample indices must be exactly 0..n-1, each  *)
(* once.                                                                   *)
(* Zero weights.  A logged weight may be exactly 0 (the harness logs a      *)
(* weight below 1e-200 as 0: Optimizer.sample_parameters hands a zero      *)
(* weight over as 1e-300, which no logged quantity can tell from 0).  A    *)
(* zero-weight update is counted and leaves no other mark (UpdAcc, guarded *)
(* branch): while a rank has weighed nothing its mean and M2 are           *)
(* placeholders that are not compared (nobody reads them: the combine      *)
(* skips ranks of zero weight, and the first positive weight w is folded   *)
(* in with w/w = 1); so are the variance / mean such a rank posts.         *)
(* The combined result is compared whenever one logged weight is positive. *)
(* wx = 1 flags a weight that is none of the weights the harness feeds     *)
(* (k/4): the accumulator was not given the sample's weight ("weight").    *)
(* Unit of the weights.  A run may hand every weight over times a common   *)
(* factor 2^e (ParallelStats: WScale).  The harness writes the log in      *)
(* units of that factor (w, wc and m2 divided by 2^e -- exact for a power  *)
(* of two; mean and variance as they are), so the checks below are the     *)
(* statement "wcount and M2 carry the unit of the weights, mean and         *)
(* variance do not" (WeightScaleLemma, verified by TLC in the design-level *)
(* configs for the factors 1/1024 and 1024).                               *)
(* Runs are independent: a rejected event prints BAD and skips its tid.    *)
(***************************************************************************)
EXTENDS ParallelStatsOps, Json, IOUtils, TLCExt
VARIABLES l, st, skip
TraceLog == ndJsonDeserialize(IOEnv.TRACE_FILE)

RanksOf(e) == 0..(e.nr - 1)
Fresh(e) == [tid |-> e.tid, nr |-> e.nr, n |-> e.n,
             acc |-> [r \in RanksOf(e) |-> Acc0],
             seen |-> <<>>,
             smp |-> <<>>,
             nproc |-> [r \in RanksOf(e) |-> 0],
             lastseq |-> [r \in RanksOf(e) |-> -1],
             sent |-> [r \in RanksOf(e) |-> <<>>],
             comb |-> {}]

KindOK(kind, m, S, tol, x) ==      \* logged (kind, scaled m) against the exact extended value x
    /\ kind = x[1]
    /\ IsNum(x) => Close(m, S, x[2], tol)

NewAcc(s, e) == UpdAcc(s.acc[e.rank], e.v, e.w)
\* the property itself: weighted mean and two-pass weighted variance of ALL logged samples (moment form,
\* DirectVarLemma), which is also the single-process result (AccIsTwoPass, ScheduleIndependent)
Expected(s)  == [mean |-> Num(WMean(s.smp)), var |-> Num(DirectVar(s.smp))]

\* each check is named: the first failing one is reported
ChkRank(s, e) == e.rank \in 0..(s.nr - 1) /\ e.nr = s.nr /\ e.n = s.n
ChkSeq(s, e)  == e.seq > s.lastseq[e.rank]
ChkU(s, e) ==
    /\ s.sent[e.rank] = <<>>
    /\ e.i \in 0..(s.n - 1)
    /\ RLe(RZero, e.w)
    /\ LET a == NewAcc(s, e) IN
         /\ e.cnt = a.count
         /\ Close(e.wc, e.S, a.wcount, e.tol)
         /\ a.wcount # RZero => /\ Close(e.mean, e.S, a.mean, e.tol)
                                /\ Close(e.m2, e.S, a.M2, e.tol)
ChkG(s, e) ==
    /\ s.sent[e.rank] = <<>>
    /\ LET c == Contribution(s.acc[e.rank]) IN
         /\ e.cnt = c.count
         /\ Close(e.wc, e.S, c.wcount, e.tol)
         /\ IF c.wcount # RZero
            THEN /\ KindOK(e.vk, e.var, e.S, e.tol, c.var)
                 /\ KindOK(e.mk, e.mean, e.S, e.tol, c.mean)
            ELSE /\ c.count < 2 => e.vk = "nanobj"      \* `variance` of fewer than two samples
                 /\ c.count = 0 => e.mk = "nanobj"      \* the placeholder of a rank that never updated
AllSent(s) == \A q \in 0..(s.nr - 1) : s.sent[q] # <<>>
\* every exchanged value went through serialisation: the np.nan object never arrives as that object
ChkSer(s, e) == /\ AllSent(s)
                /\ Len(e.rk) = s.nr
                /\ \A q \in 0..(s.nr - 1) :
                      IF s.sent[q][1].wcount = RZero /\ s.sent[q][1].count >= 2
                      THEN e.rk[q + 1] # "nanobj"       \* 0/0 or a number (shifted weights): skipped by the combine
                      ELSE e.rk[q + 1] = s.sent[q][1].var[1]
ChkOnce(s, e) == /\ Len(s.seen) = s.n
                 /\ \A i \in 0..(s.n - 1) : Cardinality({k \in 1..Len(s.seen) : s.seen[k] = i}) = 1
\* round-robin split of a list of n entries over nr ranks: rank r holds ceil((n - r) / nr) of them
ChkBalance(s, e) == e.rr = 1 => \A q \in 0..(s.nr - 1) : s.nproc[q] = Len(Slice(q, s.nr, s.n))
\* (n >= 2 and no positive weight: 0/0, nothing is stated)
ChkMean(s, e) == LET x == Expected(s) IN
                 IF s.n < 2 THEN e.mk = "none"
                 ELSE Defined(s.smp) => KindOK(e.mk, e.mean, e.S, e.tol, x.mean)
ChkVar(s, e)  == LET x == Expected(s) IN
                 IF s.n < 2 THEN e.vk \in {"nan", "nanobj"}
                 ELSE Defined(s.smp) => KindOK(e.vk, e.var, e.S, e.tol, x.var)

Why(s, e) ==
    IF ~ChkRank(s, e) THEN "rank"
    ELSE IF ~ChkSeq(s, e) THEN "seq"
    ELSE IF e.ev = "U" THEN (IF e.wx # 0 THEN "weight" ELSE IF ChkU(s, e) THEN "" ELSE "update")
    ELSE IF e.ev = "G" THEN (IF ChkG(s, e) THEN "" ELSE "gather")
    ELSE IF e.ev = "C" THEN
         (IF e.rank \in s.comb THEN "combine_twice"
          ELSE IF ~ChkSer(s, e) THEN "serialisation"
          ELSE IF ~ChkOnce(s, e) THEN "each_sample_once"
          ELSE IF ~ChkBalance(s, e) THEN "round_robin"
          ELSE IF ~ChkMean(s, e) THEN "mean"
          ELSE IF ~ChkVar(s, e) THEN "variance"
          ELSE "")
    ELSE "event"

Apply(s, e) ==
    LET s1 == [s EXCEPT !.lastseq[e.rank] = e.seq] IN
    IF e.ev = "U" THEN [s1 EXCEPT !.acc[e.rank] = NewAcc(s, e), !.seen = Append(s.seen, e.i),
                                  !.smp = Append(s.smp, [v |-> e.v, w |-> e.w]),
                                  !.nproc[e.rank] = s.nproc[e.rank] + 1]
    ELSE IF e.ev = "G" THEN [s1 EXCEPT !.sent[e.rank] = <<SerC(Contribution(s.acc[e.rank]))>>]
    ELSE [s1 EXCEPT !.comb = s.comb \cup {e.rank}]

Init == l = 1 /\ st = [tid |-> -1] /\ skip = -1
Step == /\ l <= Len(TraceLog)
        /\ LET e  == TraceLog[l]
               s0 == IF st.tid = e.tid THEN st ELSE Fresh(e)
           IN  IF e.tid = skip THEN UNCHANGED <<st, skip>>
               ELSE LET why == Why(s0, e) IN
                    IF why = ""
                    THEN /\ st' = Apply(s0, e)
                         /\ UNCHANGED skip
                         /\ IF e.ev = "C" /\ Cardinality(s0.comb) + 1 = s0.nr
                            THEN PrintT(<<"OK", ToJson([tid |-> e.tid])>>) ELSE TRUE
                    ELSE /\ PrintT(<<"BAD", ToJson([tid |-> e.tid, l |-> l, ev |-> e.ev, rank |-> e.rank, why |-> why])>>)
                         /\ skip' = e.tid
                         /\ st' = st
        /\ l' = l + 1
Spec == Init /\ [][Step]_<<l, st, skip>>
Accepted == TLCGet("stats").diameter - 1 = Len(TraceLog)
=============================================================================
