SPECIFICATION Spec
CONSTANTS
  Pos = {0,1,2,3,4}
  Mode = "filtered"
  Export = FALSE
INVARIANT PointwiseIndependentDefined
CONSTRAINT Emit
CHECK_DEADLOCK FALSE
