------------------------------ MODULE BinCalls ------------------------------
(***************************************************************************)
(* C05 over HISTORIES OF CALLS: the caller's arrays are long-lived too.    *)
(*                                                                         *)
(* The statement says what binning RETURNS for the native values and bins  *)
(* it is given -- for every call, not only for the first one on freshly    *)
(* made arrays.  A program holds ONE native grid, spectrum, optical-depth  *)
(* rows, widths and noise array and ONE pair of observation arrays, builds *)
(* a binner from the latter and bins the former several times (for the fit *)
(* and again for the output, with and without the noise, sorted first and  *)
(* shuffled later, with a second binner made from the same observation     *)
(* arrays).  Hence, after ANY sequence of calls,                           *)
(*   ArgsUntouched  every array the caller handed over still holds the     *)
(*                  values the caller put there (native arrays of every    *)
(*                  grid, the constructor's arrays),                       *)
(*   ResultRight    the call returns the overlap-weighted mean / the       *)
(*                  weights in quadrature / the histogram mean / the input *)
(*                  (Binning.tla) of the values the caller SUPPLIED,       *)
(*   EarlierKept    what an earlier call returned is still what it was.    *)
(*                                                                         *)
(* The caller's native arrays of grid g are stored in one of three orders  *)
(* (ascending, descending, mixed).  A call hands over the arrays           *)
(* THEMSELVES ("asis") or a re-arranged copy made from them at that moment *)
(* ("copy"), to the long-lived binner ("old") or to one built at that      *)
(* moment from the caller's constructor arrays ("new"); widths passed or   *)
(* derived (uniform tilings only: one reading), noise passed or not, one   *)
(* spectrum or two rows of optical depths, bindown or bin_model.           *)
(*                                                                         *)
(* Design mutants (one per behaviour; each must be refuted, and the        *)
(* exported walks say which of them they expose):                          *)
(*   "sqinplace"  the variances are formed in place in the noise array     *)
(*                when the re-ordering copy is skipped (ascending input)   *)
(*   "sortargs"   the native grid and the spectrum of the call are sorted  *)
(*                in place when they are not ascending (the other arrays   *)
(*                of the caller keep their order)                          *)
(*   "sortctor"   the constructor sorts the caller's centres in place      *)
(*   "outbuffer"  the long-lived binner returns a view of one buffer per   *)
(*                output shape                                             *)
(***************************************************************************)
EXTENDS Integers, Sequences, FiniteSets, TLC, Rat
B == INSTANCE Binning

CONSTANTS TB,        \* target bins <<lo, hi>> in the order handed to the constructor (distinct centres)
          Grids,     \* native grids: sequences of bins <<lo, hi>>, ascending, disjoint
          Kinds,     \* subset of {"flux", "simple", "native"}
          Muts,      \* subset of {"none", "sqinplace", "sortargs", "sortctor", "outbuffer"}
          Ords       \* subset of {"asc", "desc", "mixed"}

\* V = [kind, mut, ord] is chosen at Init and never changes
VARIABLES V, st, lastop, started
vars == <<V, st, lastop, started>>

NG      == Len(Grids)
NP(g)   == Len(Grids[g])
NT      == Len(TB)
FVal(g, k)    == 1 + ((3 * k * k + 5 * k + 7 * g) % 17)
RVal(g, r, k) == ((r + 2) * k + 3 * g + r) % 11
EVal(g, k)    == 1 + ((k + g) % 3)
FSeq(g)    == [k \in 1..NP(g) |-> FVal(g, k)]
RSeq(g, r) == [k \in 1..NP(g) |-> RVal(g, r, k)]
ESeq(g)    == [k \in 1..NP(g) |-> EVal(g, k)]
Uniform(g) == B!UniformTiling(Grids[g])
Ascending(x) == \A k \in 1..(Len(x) - 1) : x[k] < x[k + 1]
Perm(s, p)   == [i \in 1..Len(s) |-> s[p[i]]]

\* ------------------------------------------------------------ the caller's arrays
\* stored position j holds the point of ascending index SP(ord, n)[j]
SP(ord, n) == CASE ord = "asc"  -> [j \in 1..n |-> j]
                [] ord = "desc" -> [j \in 1..n |-> n + 1 - j]
                [] OTHER        -> [j \in 1..n |-> IF j <= n \div 2 THEN 2 * j ELSE 2 * (j - (n \div 2)) - 1]
\* the re-arranged copy of a call takes stored position CP(n)[j] as its j-th element
CP(n) == [j \in 1..n |-> ((n - j + (n \div 2)) % n) + 1]
OrigA(ord, g) == LET sp == SP(ord, NP(g)) IN
    [c2 |-> [j \in 1..NP(g) |-> B!BinC2(Grids[g][sp[j]])], w |-> [j \in 1..NP(g) |-> B!BinWd(Grids[g][sp[j]])],
     f  |-> Perm(FSeq(g), sp), r1 |-> Perm(RSeq(g, 1), sp), r2 |-> Perm(RSeq(g, 2), sp), e |-> Perm(ESeq(g), sp)]
\* the constructor's arrays: FluxBinner is handed the bins in the order of TB, SimpleBinner needs ascending centres
TC2raw == [i \in 1..NT |-> B!BinC2(TB[i])]
TQ     == B!SortPerm(TC2raw)
SortedTB == [i \in 1..NT |-> TB[TQ[i]]]
TBof(kind) == IF kind = "simple" THEN SortedTB ELSE TB
OrigT(kind) == [c2 |-> [i \in 1..NT |-> B!BinC2(TBof(kind)[i])], w |-> [i \in 1..NT |-> B!BinWd(TBof(kind)[i])]]
\* a binner built from constructor arrays t: centres sorted, widths travelling with them
Build(t) == LET q == B!SortPerm(t.c2) IN [c2 |-> Perm(t.c2, q), w |-> Perm(t.w, q)]

\* ------------------------------------------------------------ operations
AllOps == [b : {"old", "new"}, g : 1..NG, how : {"asis", "copy"}, wm : {"explicit", "derived"}, err : BOOLEAN,
           dim : {1, 2}, api : {"bindown", "bin_model"}]
OpOk(kind, op) ==
    CASE kind = "flux"   -> /\ (op.wm = "derived") => Uniform(op.g)
                            /\ (op.dim = 2) => ~op.err
                            /\ (op.api = "bin_model") => op.wm = "derived" /\ ~op.err /\ op.dim = 1
      [] kind = "simple" -> op.wm = "derived" /\ ~op.err /\ op.api = "bindown"     \* the histogram binner ignores widths and noise
      [] OTHER           -> op.b = "old" /\ op.api = "bindown" /\ ((op.dim = 2) => ~op.err)
Ops(kind) == {op \in AllOps : OpOk(kind, op)}
NullOp == [b |-> "old", g |-> 0, how |-> "asis", wm |-> "derived", err |-> FALSE, dim |-> 1, api |-> "none"]
Hand(a, how) == IF how = "asis" THEN a
                ELSE LET cp == CP(Len(a.c2)) IN
                     [c2 |-> Perm(a.c2, cp), w |-> Perm(a.w, cp), f |-> Perm(a.f, cp), r1 |-> Perm(a.r1, cp),
                      r2 |-> Perm(a.r2, cp), e |-> Perm(a.e, cp)]
RowsOf(h, op) == IF op.dim = 1 THEN <<h.f>> ELSE <<h.r1, h.r2>>

\* ------------------------------------------------------------ what a call returns, computed from the arrays it is handed
UW(g) == B!BinWd(Grids[g][1])
\* FluxBinner on the handed arrays: the overlap-weighted mean of the handed cells (doubled coordinates: cell j is
\* <<c2 - w, c2 + w>>; sums are independent of the order, ratios of the scale).  That FluxBinner's sort / window
\* algorithm computes exactly this for every order of the points is MC_Binning's AlgRefinesDef.
FluxRes(bn, h, op) ==
    LET n  == Len(h.c2)
        W  == IF op.wm = "explicit" THEN h.w ELSE [j \in 1..n |-> UW(op.g)]
        N2 == TLCEval([j \in 1..n |-> <<h.c2[j] - W[j], h.c2[j] + W[j]>>])
        T2 == TLCEval([i \in 1..NT |-> <<bn.c2[i] - bn.w[i], bn.c2[i] + bn.w[i]>>])
        wv == TLCEval([i \in 1..NT |-> TLCEval(B!WVec(N2, T2[i]))])          \* (TLCEval: evaluate once, not at every use)
        sw == TLCEval([i \in 1..NT |-> B!ISum(wv[i])])
        rows == RowsOf(h, op)
    IN  [grid |-> bn.c2, widths |-> bn.w,
         val  |-> [r \in 1..Len(rows) |-> [i \in 1..NT |->
                     IF sw[i] > 0 THEN [k |-> "num", v |-> Norm(B!ISum([j \in 1..n |-> wv[i][j] * rows[r][j]]), sw[i])]
                     ELSE [k |-> "zero"]]],
         err2 |-> IF op.err
                  THEN [i \in 1..NT |-> IF sw[i] > 0
                          THEN Norm(B!ISum([j \in 1..n |-> wv[i][j] * wv[i][j] * h.e[j] * h.e[j]]), sw[i] * sw[i])
                          ELSE <<0, 1>>]
                  ELSE <<>>]
SimpleRes(t, h, op) ==
    LET rows == RowsOf(h, op) IN
    [grid |-> t.c2, widths |-> t.w,
     val  |-> [r \in 1..Len(rows) |-> [i \in 1..NT |->
                 IF B!HistMembers(t.c2, h.c2, i) = {} THEN [k |-> "empty"]
                 ELSE [k |-> "num", v |-> B!HistMean(t.c2, h.c2, rows[r], i)]]],
     err2 |-> <<>>]
NativeRes(h, op) ==
    LET rows == RowsOf(h, op) IN
    [grid |-> h.c2, widths |-> IF op.wm = "explicit" THEN h.w ELSE <<>>,
     val  |-> [r \in 1..Len(rows) |-> [j \in 1..Len(h.c2) |-> [k |-> "num", v |-> Q(rows[r][j])]]],
     err2 |-> IF op.err THEN [j \in 1..Len(h.c2) |-> Q(h.e[j] * h.e[j])] ELSE <<>>]
ResOf(kind, t, h, op) == CASE kind = "flux"   -> FluxRes(TLCEval(Build(t)), h, op)
                           [] kind = "simple" -> SimpleRes(t, h, op)
                           [] OTHER           -> NativeRes(h, op)

\* ------------------------------------------------------------ what the statement requires (from the values SUPPLIED)
DefEntry(N, tb, fs) == IF B!Overlaps(N, tb) THEN [k |-> "num", v |-> B!Binned(N, tb, fs)] ELSE [k |-> "zero"]
SuppliedRows(g, op) == IF op.dim = 1 THEN <<FSeq(g)>> ELSE <<RSeq(g, 1), RSeq(g, 2)>>
Fresh(kind, ord, op) ==
    LET g == op.g  N == Grids[g]  rows == SuppliedRows(g, op) IN
    CASE kind = "flux" ->
           [grid |-> [i \in 1..NT |-> B!BinC2(SortedTB[i])], widths |-> [i \in 1..NT |-> B!BinWd(SortedTB[i])],
            val  |-> [r \in 1..Len(rows) |-> [i \in 1..NT |-> DefEntry(N, SortedTB[i], rows[r])]],
            err2 |-> IF op.err THEN [i \in 1..NT |-> IF B!Overlaps(N, SortedTB[i]) THEN B!BinnedErr2(N, SortedTB[i], ESeq(g)) ELSE <<0, 1>>]
                     ELSE <<>>]
      [] kind = "simple" -> SimpleRes(OrigT("simple"), Hand(OrigA("asc", g), "asis"), op)     \* the histogram of the supplied points
      [] OTHER -> NativeRes(Hand(OrigA(ord, g), op.how), op)                                  \* the supplied arrays themselves
FreshTab == TLCEval([kind \in {"flux", "simple", "native"} |-> TLCEval([ord \in {"asc", "desc", "mixed"} |-> TLCEval([op \in Ops(kind) |-> TLCEval(Fresh(kind, ord, op))])])])

\* ------------------------------------------------------------ one call
\* st = [A: the caller's native arrays per grid, T: the caller's constructor arrays, last: what the call returned,
\*       prevNow / prevAt: what the previous call returned as it reads now / as it read when returned, prevTag]
AllOrds  == {"asc", "desc", "mixed"}
AllKinds == {"flux", "simple", "native"}
\* (constant tables, evaluated once: TLC would otherwise re-evaluate a definition at every use)
OrigAllTab == TLCEval([ord \in AllOrds |-> TLCEval([g \in 1..NG |-> TLCEval(OrigA(ord, g))])])
OrigTTab   == TLCEval([kind \in AllKinds |-> TLCEval(OrigT(kind))])
OpsTab     == TLCEval([kind \in AllKinds |-> TLCEval(Ops(kind))])
OrigAll(ord) == OrigAllTab[ord]
CtorEffect(v, t) == IF v.mut = "sortctor" /\ v.kind = "flux" THEN [t EXCEPT !.c2 = Perm(t.c2, B!SortPerm(t.c2))] ELSE t
NoRes == [grid |-> <<>>, widths |-> <<>>, val |-> <<>>, err2 |-> <<>>]
St0(v) == [A |-> OrigAll(v.ord), T |-> CtorEffect(v, OrigTTab[v.kind]),      \* the long-lived binner has been built
           last |-> NoRes, prevNow |-> <<>>, prevAt |-> <<>>, prevTag |-> <<"-", 0>>]
OldBinnerT(v) == OrigTTab[v.kind]            \* the arrays the long-lived binner was built from (it keeps its own sorted copies)
\* the arrays / the binner a call reads, what it returns (computed from what it is handed), what it leaves behind
ResHonest(v, s, op) == ResOf(v.kind, IF op.b = "old" THEN OldBinnerT(v) ELSE s.T, Hand(s.A[op.g], op.how), op)
After(v, s, op, res) ==
    LET g   == op.g
        a   == s.A[g]
        T1  == IF op.b = "new" THEN CtorEffect(v, s.T) ELSE s.T
        q   == B!SortPerm(a.c2)
        a1  == IF v.mut = "sqinplace" /\ v.kind = "flux" /\ op.err /\ op.how = "asis" /\ Ascending(a.c2)
               THEN [a EXCEPT !.e = [j \in 1..Len(a.e) |-> a.e[j] * a.e[j]]]
               ELSE IF v.mut = "sortargs" /\ v.kind # "native" /\ op.how = "asis" /\ ~Ascending(a.c2)
               THEN IF op.dim = 1 THEN [a EXCEPT !.c2 = Perm(a.c2, q), !.f = Perm(a.f, q)]
                    ELSE [a EXCEPT !.c2 = Perm(a.c2, q), !.r1 = Perm(a.r1, q), !.r2 = Perm(a.r2, q)]
               ELSE a
        tag == <<op.b, op.dim>>
        shared == v.mut = "outbuffer" /\ v.kind = "flux" /\ op.b = "old" /\ s.prevTag = tag
    IN  [A |-> [s.A EXCEPT ![g] = a1], T |-> T1, last |-> res,
         prevNow |-> IF shared THEN res.val ELSE s.last.val,
         prevAt  |-> s.last.val, prevTag |-> tag]
Apply(v, s, op) == After(v, s, op, ResHonest(v, s, op))

Variants == {v \in [kind : Kinds, mut : Muts, ord : Ords] :
               /\ (v.kind = "native") => v.mut = "none"
               /\ (v.kind = "simple") => v.mut \in {"none", "sortargs"}}
Init == /\ V \in Variants /\ st = St0(V) /\ lastop = NullOp /\ started = FALSE
Do(op) == /\ st' = Apply(V, st, op)
          /\ lastop' = op /\ started' = TRUE /\ UNCHANGED V
Next == \E op \in OpsTab[V.kind] : Do(op)
Spec == Init /\ [][Next]_vars

\* ------------------------------------------------------------ clauses
ArgsUntouchedS(v, s) == s.A = OrigAll(v.ord) /\ s.T = OrigTTab[v.kind]
ResultRightS(v, s, op) == s.last = FreshTab[v.kind][v.ord][op]
EarlierKeptS(s) == s.prevNow = s.prevAt
\* While a variant has not touched the arrays a call reads, the call returns what the sound variant returns, which is
\* FreshTab (HoldResult, checked in every state of the sound variant): only calls on touched arrays need re-evaluation.
Untouched(v, s, op) == s.A[op.g] = OrigAll(v.ord)[op.g] /\ (op.b = "old" \/ s.T = OrigTTab[v.kind])
ApplyFast(v, s, op) == After(v, s, op, IF Untouched(v, s, op) THEN FreshTab[v.kind][v.ord][op] ELSE ResHonest(v, s, op))
ArgsUntouched == ArgsUntouchedS(V, st)
ResultRight   == started => ResultRightS(V, st, lastop)
EarlierKept   == started => EarlierKeptS(st)
Sound(v) == v.mut = "none"
HoldArgs    == Sound(V) => ArgsUntouched
HoldResult  == Sound(V) => ResultRight
HoldEarlier == Sound(V) => EarlierKept
AllClauses  == ArgsUntouched /\ ResultRight /\ EarlierKept
RefuteSqInPlace == V.mut = "sqinplace" => AllClauses
RefuteSortArgs  == V.mut = "sortargs"  => AllClauses
RefuteSortCtor  == V.mut = "sortctor"  => AllClauses
RefuteOutBuffer == V.mut = "outbuffer" => AllClauses

\* ------------------------------------------------------------ the alphabet is regular (checked once)
AlphabetOk ==
    /\ NT >= 2 /\ \A i, j \in 1..NT : i # j => TC2raw[i] # TC2raw[j]
    /\ \A i \in 1..NT : TB[i][1] < TB[i][2]
    /\ TC2raw # [i \in 1..NT |-> B!BinC2(SortedTB[i])]                      \* handed over unsorted
    /\ \A g \in 1..NG : B!OrderedDisjoint(Grids[g]) /\ NP(g) >= 3
    /\ \A g \in 1..NG : \A i \in 1..NT : ~B!Touches(Grids[g], TB[i])          \* no undecided contact
    /\ \E g \in 1..NG : Uniform(g)
    /\ \E g \in 1..NG : ~Uniform(g)
    /\ \E i \in 1..NT : \E g \in 1..NG : ~B!Overlaps(Grids[g], TB[i])          \* a bin outside / in a gap
    /\ \E i, j \in 1..NT : i # j /\ TB[i][1] < TB[j][2] /\ TB[j][1] < TB[i][2] \* overlapping target bins
    \* the histogram binner: no native point on an edge
    /\ \A g \in 1..NG : \A k \in 1..NP(g) :
          ~B!OnHistEdge([i \in 1..NT |-> B!BinC2(SortedTB[i])], B!BinC2(Grids[g][k]))
    \* the noise values are not all 0 / 1 (squaring them shows)
    /\ \A g \in 1..NG : \E k \in 1..NP(g) : EVal(g, k) > 1
AlphabetInv == (~started /\ V.mut = "none" /\ V.ord = "asc") => AlphabetOk
FitsInv == started => \A r \in 1..Len(st.last.val) : \A i \in 1..Len(st.last.val[r]) :
              st.last.val[r][i].k = "num" => Fits(st.last.val[r][i].v)
=============================================================================
