SPECIFICATION Spec
CONSTANTS
  UN = 16
  Ordering = "minmax"
  ZS = 100
  Z <- MCZ
  TK = {5,30,53,1074}
  HiMax = 53
  ZTS = 100
  TD = {3,12,300}
  HiDecMax = 12
  ZTCode = {10000,20067,30115,40153,50186,300601,530821,10743847}
  ZDCode = {30309,120703,3003705}
  Delivery = "by_prior"
  Passes = "user_table"
  QNum = {8,14}
  QShift = 12
  QDen = {4}
  SNum = {3}
  SDen = {10}
  EShift = 12
  ENum = {10,12,15}
  UserIdx = {1,2,3,4,5}
  Conts = {"tuple","list","ndarray","ndarray_readonly"}
  OConts = {"list","ndarray"}
  Spells = {1,2,3}
  FocusOwners = {"model","observation"}
  CompOwners = {"model","observation"}
  MaxCompiles = 2
  ModeWeight = 3
  AgainWeight = 12
  Depth = 8
  Export = TRUE
  Defaults = "from_settings"
  ModeText = "normalised"
  Args = "read_only"
INVARIANT HistoryInv
INVARIANT ModeSpellingInv
INVARIANT ArgsFrameInv
INVARIANT RecompileInv
INVARIANT DefaultSupportInv
CONSTRAINT Bound
CONSTRAINT Emit
CHECK_DEADLOCK FALSE
