SPECIFICATION Spec
CONSTANTS
  TNS = {300,500,700}
  PNS = {0,2}
  Vals = {1,2,5}
  TabMode = "all"
  Mode = "exp"
  QX = {100,200,300,400,500,600,700,800}
  QYS = {0,1,2,3,4,5}
  YShift = 2
  Export = FALSE
INVARIANT NonNegative
INVARIANT BracketBounded
INVARIANT NodeExact
INVARIANT NeverExtrapolated
INVARIANT ZeroBelowBothMinima
INVARIANT FitsInv
CONSTRAINT Emit
CHECK_DEADLOCK FALSE
