SPECIFICATION Spec
CONSTANTS
  Starts = {0,1,2,3,4,5,6}
  Gaps = {1,2,3,4,5,6,7}
  PMax = 60
  MaxLen = 60
  ObsPos = {9,10,12,16,19,20,22,30}
  ObsCard = {2,3,4}
  ObsW2 = {7,12}
  Cond = "uniform"
  Export = FALSE
INVARIANT BinningCommutes
INVARIANT NeededRetained
INVARIANT ClipContiguous
INVARIANT FitsInv
CONSTRAINT Prune
CONSTRAINT Emit
CHECK_DEADLOCK FALSE
