SPECIFICATION Spec
CONSTANTS
  Starts = {0,1,2,3}
  Gaps = {1,2,3,4,5}
  PMax = 44
  MaxLen = 45
  ObsPos = {9,10,12,16,20,22}
  ObsCard = {2,3}
  ObsW2 = {7,12}
  Cond = "uniform"
  Export = FALSE
INVARIANT BinningCommutes
INVARIANT NeededRetained
INVARIANT ClipContiguous
INVARIANT FitsInv
CONSTRAINT Prune
CONSTRAINT Emit
CHECK_DEADLOCK FALSE
