------------------------------ MODULE Pipeline ------------------------------
(***************************************************************************)
(* The forward-model evaluation pipeline of SimpleForwardModel as a        *)
(* protocol over its components (growth of the specification beyond the    *)
(* listed properties, DESIGN section 5).                                   *)
(*                                                                         *)
(*   initialize_profiles : pressure -> temperature -> [first time only:    *)
(*        initial-mu chemistry -> altitude(given mu)] -> chemistry ->      *)
(*        altitude(from chemistry)                                         *)
(*   model()/model_contrib()/model_full_contrib():                         *)
(*        initialize_profiles ; star.initialize(grid) ;                    *)
(*        prepare(c, grid) [or the prepare_each generator] ;               *)
(*        path_integral(grid) over the current contribution list           *)
(*                                                                         *)
(* Parameters are abstracted to a version counter: every write through the *)
(* public setters bumps `ver`.  The safety properties are *guards* on the  *)
(* events: a step that the implementation takes is accepted only if the    *)
(* data it consumes was computed for the current version (and grid).       *)
(* Pipeline.tla gives the state and the guarded actions; MC_Pipeline checks*)
(* that the as-designed call order satisfies the guards for every          *)
(* interleaving of public calls; Trace_Pipeline validates recorded runs.   *)
(***************************************************************************)
EXTENDS Integers, Sequences, FiniteSets, TLC

\* pipeline state of one model object
PInit == [ver    |-> 1,        \* parameter version
          pdone  |-> FALSE,    \* pressure computed in the current initialize_profiles round
          tv     |-> 0,        \* version the temperature profile was computed for
          imu    |-> FALSE,    \* initial-mu chemistry evaluated (first initialisation only)
          inited |-> FALSE,    \* an altitude profile exists
          cv     |-> 0,        \* version the chemistry was computed for
          av     |-> 0,        \* version the altitude/gravity/scale height were computed for
          asrc   |-> "none",   \* "given" (initial mu) | "chem"
          star   |-> 0,        \* grid id the star SED is initialised on
          prep   |-> {},       \* {[c, g, v]} : contribution c prepared on grid g at version v
          depth  |-> 0]        \* nesting of public model calls

\* ---- guards: what each step needs
GTemperature(s)  == s.pdone
GChemInit(s)     == s.tv = s.ver /\ ~s.inited
GAltGiven(s)     == s.imu
GChem(s)         == s.tv = s.ver /\ s.inited
GAltChem(s)      == s.cv = s.ver
GPrepare(s)      == s.av = s.ver /\ s.asrc = "chem"
GPath(s, g, lst) == /\ s.av = s.ver /\ s.asrc = "chem"
                    /\ s.star = g
                    /\ \A i \in 1..Len(lst) : [c |-> lst[i], g |-> g, v |-> s.ver] \in s.prep

\* ---- effects
ASetParam(s)     == [s EXCEPT !.ver = @ + 1]
AInitBegin(s)    == [s EXCEPT !.pdone = FALSE]
APressure(s)     == [s EXCEPT !.pdone = TRUE]
ATemperature(s)  == [s EXCEPT !.tv = s.ver]
AChemInit(s)     == [s EXCEPT !.imu = TRUE]
AAltGiven(s)     == [s EXCEPT !.av = s.ver, !.asrc = "given", !.inited = TRUE]
AChem(s)         == [s EXCEPT !.cv = s.ver]
AAltChem(s)      == [s EXCEPT !.av = s.ver, !.asrc = "chem"]
AStar(s, g)      == [s EXCEPT !.star = g]
APrepare(s, c, g) == [s EXCEPT !.prep = {x \in @ : x.c # c} \cup {[c |-> c, g |-> g, v |-> s.ver]}]

\* ---- events (records [ev, c, g, lst]) : guard and effect by name
Guard(e, s) ==
    CASE e.ev = "temperature" -> GTemperature(s)
      [] e.ev = "chem_init"   -> GChemInit(s)
      [] e.ev = "alt_given"   -> GAltGiven(s)
      [] e.ev = "chem"        -> GChem(s)
      [] e.ev = "alt_chem"    -> GAltChem(s)
      [] e.ev = "prepare"     -> GPrepare(s)
      [] e.ev = "yielded"     -> GPrepare(s)
      [] e.ev = "path"        -> GPath(s, e.g, e.lst)
      \* EvaluationReadsOnly: a public evaluation (model / model_contrib / model_full_contrib) ends with every
      \* exposed profile array (pressure levels and layers, temperature, altitude grid, layer thickness, density,
      \* gravity, scale height, mixing ratios, mu) exactly as initialize_profiles left it, and with the stellar
      \* spectrum exactly as star.initialize left it; the recorder puts the names of arrays that changed into c
      [] e.ev \in {"model_end", "model_contrib_end", "model_full_contrib_end"} -> e.c = ""
      [] OTHER                -> TRUE
Apply(e, s) ==
    CASE e.ev = "setparam"    -> ASetParam(s)
      [] e.ev = "init_begin"  -> AInitBegin(s)
      [] e.ev = "pressure"    -> APressure(s)
      [] e.ev = "temperature" -> ATemperature(s)
      [] e.ev = "chem_init"   -> AChemInit(s)
      [] e.ev = "alt_given"   -> AAltGiven(s)
      [] e.ev = "chem"        -> AChem(s)
      [] e.ev = "alt_chem"    -> AAltChem(s)
      [] e.ev = "star"        -> AStar(s, e.g)
      [] e.ev = "prepare"     -> APrepare(s, e.c, e.g)
      [] e.ev = "yielded"     -> APrepare(s, e.c, e.g)
      [] OTHER                -> s
=============================================================================
