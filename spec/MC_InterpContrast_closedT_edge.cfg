SPECIFICATION Spec
CONSTANTS
  TNS = {200,300,700,800}
  PNS = {3,6,7}
  Mode = "linear"
  QX = {800}
  QYS = {5,6,7}
  YShift = 2
  NLev = 3
  UpperT = "closed"
  Kernel = "cancelling"
  Export = FALSE
INVARIANT NodeExactG
INVARIANT NonNegativeG
INVARIANT ZeroBelowBothMinimaG
CHECK_DEADLOCK FALSE
