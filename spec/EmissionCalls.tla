---------------------------- MODULE EmissionCalls ----------------------------
(***************************************************************************)
(* C02 -- the public entry points of ONE long-lived emission / direct-     *)
(* image model, with the arrays they share.                                *)
(*                                                                         *)
(* The statement quantifies over "all ... compositions": the model offers  *)
(* several entry points that evaluate the layered thermal integral of      *)
(* Emission.tla for the whole composition or for parts of it, and several  *)
(* of these integrals share ONE initialisation of the star and ONE set of  *)
(* profile / opacity arrays (taurex/model/simplemodel.py):                 *)
(*   model()              star.initialize ; prepare all ; 1 path integral  *)
(*   partial_model()      star.initialize ; prepare all ; intensities only *)
(*   model_contrib()      star.initialize ; per contribution: the list is  *)
(*                        reduced to it, path integral                     *)
(*   model_full_contrib() star.initialize ; per component of every         *)
(*                        contribution (molecule by molecule): integral    *)
(*   path_integral(grid)  NO initialisation: the integral over whatever    *)
(*                        the last model() / partial_model() prepared      *)
(* Every one of those integrals is the spectrum of an atmosphere (the      *)
(* sub-composition S of opacity sources it was evaluated for), so every    *)
(* one must be the documented integral for the optical depths of S,        *)
(* normalised by the STELLAR BLACKBODY -- for the first integral after an  *)
(* initialisation exactly as for the k-th, after any sequence of calls.    *)
(* That holds iff an integral only READS what it shares with the next one: *)
(* the star's stored spectrum sed, the per-source opacity arrays, the      *)
(* temperature profile.  The state keeps those shared arrays explicitly:   *)
(*   sedf   the star's stored spectrum as a rational multiple of Bstar[w]  *)
(*          (<<0,1>> = never initialised; star.initialize makes it 1)      *)
(*   src    the per-source optical depths the integrals read (e[l][w] per  *)
(*          source, ln 2 units); SrcTable[sid] is what the user supplied   *)
(* CVariant = "code" reads only.  The other values are deliberately wrong  *)
(* readings (expected-counterexample configs):                             *)
(*   "sed_scaled_in_place"      compute_final_flux folds (Rs/Rp)^2 into    *)
(*                              the star's array:  sed *= (Rs/Rp)^2 ;      *)
(*                              out = flux / sed                            *)
(*   "opacity_scaled_in_place"  an integral doubles, in place, the arrays  *)
(*                              of the sources it has just evaluated       *)
(* Both give the right FIRST integral of a fresh object: they are          *)
(* invisible to any check that evaluates each object once.                 *)
(***************************************************************************)
EXTENDS Emission

CONSTANTS NS,          \* number of opacity sources 1..NS
          SrcTable,    \* SrcTable[i][s][l][w]: depth of layer l at wavenumber w due to source s
          SrcIds,      \* subset of DOMAIN SrcTable
          Groups,      \* the contributions: a sequence of sets of sources (model_contrib order)
          Comps,       \* the components: a sequence of singleton sets (model_full_contrib order)
          Kinds,       \* subset of {"eclipse", "direct"}: the class of the model object
          MaxCalls,    \* public calls per walk
          CVariant
VARIABLES sid, src, sedf, cur, pend, prep, calls, log
cvars == <<sid, src, sedf, cur, pend, prep, calls, log>>
allvars == <<vars, cvars>>

AllSrc == 1..NS
Entries == {"model", "partial", "contrib", "fullc", "path"}

RECURSIVE SrcSumUpTo(_, _, _, _, _)
SrcSumUpTo(a, S, l, w, s) ==
    IF s = 0 THEN 0 ELSE (IF s \in S THEN a[s][l][w] ELSE 0) + SrcSumUpTo(a, S, l, w, s - 1)
\* optical depths of the atmosphere made of the sources in S
ESub(a, S) == [l \in 1..NL |-> [w \in 1..NW |-> SrcSumUpTo(a, S, l, w, NS)]]

IntenOf(ee) == [a \in 1..NA |-> [w \in 1..NW |-> Intensity(ee, tp, w, QInvMu(Quad, a), ClampE, Variant)]]
FluxOf(ee)  == LET I == IntenOf(ee) IN [w \in 1..NW |-> FluxUpTo(Quad, [a \in 1..NA |-> I[a][w]], NA)]
\* compute_final_flux: 2 pi F / (pi sed[w]) (Rp/Rs)^2 with the star's STORED spectrum sed[w] = sf * Bstar[w]
EclipseFactor(w, sf) == Norm(2 * Rp * Rp * sf[2], Rs * Rs * Bstar[w] * sf[1])
\* the slip: sed has already been multiplied by (Rs/Rp)^2 (sf includes it), out = 2 pi F / (pi sed)
FoldedFactor(w, sf)  == Norm(2 * sf[2], Bstar[w] * sf[1])
OutOf(ee, sf, folded) ==
    LET F == FluxOf(ee)
    IN  [w \in 1..NW |-> BScale(IF kind = "direct" THEN NormFactor("direct", w)
                                ELSE IF folded THEN FoldedFactor(w, sf) ELSE EclipseFactor(w, sf), F[w])]

\* ------------------------------------------------------------- state machine
PendOf(en) == CASE en = "contrib" -> Groups
                [] en = "fullc"   -> Comps
                [] OTHER          -> << AllSrc >>
NotInit == <<0, 1>>

CInit == /\ pc = "unused" /\ lay = 0 /\ e = <<>> /\ inten = <<>> /\ flux = <<>> /\ out = <<>>
         /\ tp \in TProfiles /\ qid \in QuadIds /\ kind \in Kinds
         /\ sid \in SrcIds /\ src = SrcTable[sid]
         /\ sedf = NotInit /\ cur = "idle" /\ pend = <<>> /\ prep = "none" /\ calls = <<>> /\ log = <<>>

\* a public call begins: every entry point except path_integral initialises the star on the grid
Begin(en) == /\ cur = "idle" /\ Len(calls) < MaxCalls
             /\ (en = "path") => (prep = "all")
             /\ cur' = en /\ pend' = PendOf(en)
             /\ sedf' = IF en = "path" THEN sedf ELSE ROne
             /\ UNCHANGED <<vars, sid, src, prep, calls, log>>

\* one path integral of the running call, over the sub-composition at the head of pend
Path == /\ cur # "idle" /\ pend # <<>>
        /\ LET S   == Head(pend)
               ee  == ESub(src, S)
               fold == CVariant = "sed_scaled_in_place" /\ cur # "partial" /\ kind = "eclipse"
               sf  == IF fold THEN RMul(sedf, <<Rs * Rs, Rp * Rp>>) ELSE sedf
           IN  /\ sedf' = sf
               /\ log' = Append(log, [call |-> Len(calls) + 1, entry |-> cur, sub |-> S,
                                      sat |-> ClampedFrom(ESub(SrcTable[sid], S), 1, ClampE),
                                      res |-> IF cur = "partial" THEN IntenOf(ee) ELSE OutOf(ee, sf, fold)])
               /\ src' = IF CVariant = "opacity_scaled_in_place"
                         THEN [s \in 1..NS |-> IF s \in S
                                               THEN [l \in 1..NL |-> [w \in 1..NW |-> 2 * src[s][l][w]]]
                                               ELSE src[s]]
                         ELSE src
        /\ pend' = Tail(pend)
        /\ UNCHANGED <<vars, sid, cur, prep, calls>>

\* the call returns; what the contributions' buffers hold afterwards decides whether a bare path_integral is meaningful
End == /\ cur # "idle" /\ pend = <<>>
       /\ calls' = Append(calls, cur)
       /\ prep' = CASE cur \in {"model", "partial", "path"} -> "all"
                    [] cur = "contrib" -> "each"
                    [] OTHER -> "part"
       /\ cur' = "idle"
       /\ UNCHANGED <<vars, sid, src, sedf, pend, log>>

CNext == (\E en \in Entries : Begin(en)) \/ Path \/ End
CSpec == CInit /\ [][CNext]_allvars

\* ------------------------------------------------------------------ clauses
\* (each integral is judged in the state in which it is logged: the last entry)
LastPI == log[Len(log)]
Given(S) == ESub(SrcTable[sid], S)

\* every integral, whichever entry point ran it and whatever ran before, is the documented integral of its
\* sub-composition normalised by the stellar blackbody
EveryPathDocumented ==
    log # <<>> =>
        LET r == LastPI IN
        IF r.entry = "partial"
        THEN LET d == IntenOf(Given(r.sub))
             IN  \A a \in 1..NA : \A w \in 1..NW : DEq(BEval(r.res[a][w], Bcol(w)), BEval(d[a][w], Bcol(w)))
        ELSE LET d == OutOf(Given(r.sub), ROne, FALSE)
             IN  \A w \in 1..NW : DEq(BEval(r.res[w], Bcol(w)), BEval(d[w], Bcol(w)))

\* "whatever its composition": the isothermal ratio for every sub-composition
SubIsothermalRatio ==
    (log # <<>> /\ LastPI.entry # "partial" /\ kind = "eclipse" /\ Isothermal /\ ~LastPI.sat /\ WeightsFacts(Quad)) =>
        \A w \in 1..NW :
            DEq(BEval(LastPI.res[w], Bcol(w)), DConst(Norm(Btab[tp[1]][w] * Rp * Rp, Bstar[w] * Rs * Rs)))
SubEclipseBounds ==
    (log # <<>> /\ LastPI.entry # "partial" /\ kind = "eclipse" /\ WeightsFacts(Quad)) =>
        \A w \in 1..NW :
            LET v == BEval(LastPI.res[w], Bcol(w))
            IN  /\ DLe(DConst(Norm(Btab[TMinOf(tp)][w] * Rp * Rp, Bstar[w] * Rs * Rs)), v)
                /\ DLe(v, DScale(Norm(Btab[TMaxOf(tp)][w] * Rp * Rp, Bstar[w] * Rs * Rs), DAdd(One, DPow2(ROne, SlackE))))
SubIntensityBounds ==
    (log # <<>> /\ LastPI.entry = "partial") =>
        \A a \in 1..NA : \A w \in 1..NW :
            LET v == BEval(LastPI.res[a][w], Bcol(w))
            IN  /\ DLe(DConst(Q(Btab[TMinOf(tp)][w])), v)
                /\ DLe(v, DScale(Q(Btab[TMaxOf(tp)][w]), DAdd(One, DPow2(ROne, SlackE))))

\* what the integrals share is only read: the star keeps the stellar blackbody, the sources keep what was supplied
InputsReadOnly == /\ sedf \in {NotInit, ROne}
                  /\ src = SrcTable[sid]

CFitsInv == log # <<>> =>
    IF LastPI.entry = "partial"
    THEN \A a \in 1..NA : \A w \in 1..NW : DFits(BEval(LastPI.res[a][w], Bcol(w)))
    ELSE \A w \in 1..NW : DFits(DScale(Q(KD * Dist * Dist), BEval(LastPI.res[w], Bcol(w))))
=============================================================================
