SPECIFICATION Spec
CONSTANTS
  NMax = 2
  L0 = 12
  Spacings = {2,4}
  BStep = 4
  MaxSlabs = 2
  SKinds = {"flat","lee","deck"}
  Scratch = "copy"
  Export = FALSE
INVARIANT ExposedGridUntouched
INVARIANT EachSlabOwnRange
INVARIANT EachSlabAsAlone
INVARIANT SlabsAdd
CONSTRAINT Emit
CHECK_DEADLOCK FALSE
