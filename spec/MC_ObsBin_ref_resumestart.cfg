SPECIFICATION Spec
CONSTANTS
  WLS = {4,5,10,20}
  NMin = 2
  NMax = 3
  NCols = {4}
  NMax3 = 0
  Wids = {1,7}
  H = 200
  U = 25
  AlgVariant = "resumestart"
  Cuts = {"none"}
  Export = FALSE
INVARIANT OnLattice
INVARIANT AlgRefinesObs
CONSTRAINT Emit
CHECK_DEADLOCK FALSE
