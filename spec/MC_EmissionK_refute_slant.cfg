SPECIFICATION EKSpec
CONSTANTS
  NL = 2
  NW = 1
  NT = 3
  NG = 2
  KCodes = {0, 103, 200}
  WIds = {3}
  LMode = "ones"
  ECodes = {0}
  TCodes = {11, 12}
  QuadIds = {1}
  KVariant = "slant_outside_surface"
  ClampE = 15
  SlackE = 14
  Variant = "code"
  Btab <- MCBtab
  Bstar <- MCBstar
  TabId = 1
  Rp = 2
  Rs = 5
  Dist = 3
  KD = 2
  Export = FALSE
INVARIANT EKTelescoping
CONSTRAINT EKEmitVec
CHECK_DEADLOCK FALSE
