------------------------- MODULE Trace_Transmission -------------------------
(* C01, binding B: the early-exit protocol of path_integral on real runs.       *)
(* One event per (model run, tangent layer):                                    *)
(*   m    = <<m_0, .., m_NC>>  min over wavenumbers of the optical depth of the *)
(*          documented integral after the first i contributions (natural units  *)
(*          x 1000, capped), computed by the harness's spec-validated evaluator *)
(*   appl = the set of i such that the layer's observed optical depth equals    *)
(*          the integral over the first i contributions (what the code applied) *)
(* The licensed deviation: contributions are skipped only from the first point  *)
(* at which tau > 10 at every wavenumber, and from that point all are skipped.  *)
EXTENDS Integers, Sequences, FiniteSets, TLC, Json, IOUtils, TLCExt
VARIABLE l
TraceLog == ndJsonDeserialize(IOEnv.TRACE_FILE)
CutMilli == 10000

\* number of contributions applied when the guard is read with slack d on the logged minima
Applied(m, d) ==
    LET NC == Len(m) - 1
        fired == {i \in 0..(NC - 1) : m[i + 1] + d > CutMilli}
    IN  IF fired = {} THEN NC ELSE CHOOSE i \in fired : \A k \in fired : i <= k

Ok(e) == \E d \in {-1, 0, 1} : Applied(e.m, d) \in {e.appl[i] : i \in 1..Len(e.appl)}

Init == l = 1
Step == /\ l <= Len(TraceLog)
        /\ LET e == TraceLog[l] IN
             IF Ok(e) THEN TRUE
             ELSE PrintT(<<"BAD", ToJson([l |-> l, id |-> e.id, expected |-> Applied(e.m, 0)])>>)
        /\ l' = l + 1
Spec == Init /\ [][Step]_l
Accepted == TLCGet("stats").diameter - 1 = Len(TraceLog)
=============================================================================
