SPECIFICATION Spec
CONSTANTS
  NL = 3
  NC = 3
  NWSet = {8, 9, 10, 11, 12, 13, 15, 16, 17, 23, 24, 31, 32, 47, 64}
  HVals = {0, 3}
  ExitStride = 1
  Export = TRUE
INVARIANT ExitOnlySaturatedEverywhere
INVARIANT SameRuleAsSmallGrids
INVARIANT NoExitWhileThin
INVARIANT LicensedExitTaken
CONSTRAINT Emit
CHECK_DEADLOCK FALSE
