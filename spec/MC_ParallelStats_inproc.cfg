SPECIFICATION Spec
CONSTANTS
  NRs = {1}
  Ns = {0,1,2,3}
  Vals = {0,1,3}
  Wts = {1,2}
  WDen = 1
  SmpMode = "all"
  SampleSpace <- MCSampleSpace
  Part = "var"
  Assign = "roundrobin"
  Jump = FALSE
  Serialise = FALSE
  NaNTest = "identity"
  StrideOff = 0
  ReorderMode = "bylayout"
  ZeroGuard = "guarded"
  WSNum = 1
  WSDen = 1
  WScale <- MCWScale
  SummarySource = "gathered"
  Gens = {1,2,3}
  Ordered = FALSE
  Export = FALSE
INVARIANT EachSampleOnce
INVARIANT AccIsTwoPass
INVARIANT MeanIsWeightedMean
INVARIANT VarianceIsTwoPass
INVARIANT ScheduleIndependent
INVARIANT NoError
INVARIANT DirectVarLemma
INVARIANT ZeroWeightLemma
INVARIANT WeightScaleLemma
INVARIANT FitsInv
CONSTRAINT Emit
CHECK_DEADLOCK FALSE
