SPECIFICATION Spec
CONSTANTS
  NW = 3
  NC = 3
  TAUS = {0,1,4,11}
  Rule = "all"
  Cut = 10
INVARIANT SumOrLicensed
INVARIANT NeverMoreThanSum
CHECK_DEADLOCK FALSE
