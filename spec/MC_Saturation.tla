---------------------------- MODULE MC_Saturation ----------------------------
(* C13: every pattern of optical depths inc[c][w] (contribution c, wavenumber w) *)
(* with values from Inc, and every non-empty computed set S (every contiguous    *)
(* sub-range when Contig): the layer computed on S against the layer computed    *)
(* on the full grid 1..NW, transmission and emission, per wavenumber.            *)
EXTENDS Saturation, TLC, Json
CONSTANTS NW,        \* wavenumbers (zones of the grid)
          NC,        \* contributions, in evaluation order
          Inc,       \* optical depths a contribution may add at a wavenumber (0 = absent, small = window, large = band)
          Thr,       \* the cut-off (10 in the code)
          Mode,      \* "all" (as documented) | "any" (the slip) | "never"
          Contig,    \* only contiguous sub-ranges (what model(wngrid=..) can produce)
          Export
VARIABLES phase, inc, S
vars == <<phase, inc, S>>
W == 1..NW
Ranges == IF Contig THEN {a..b : a \in W, b \in W} \ {{}} ELSE (SUBSET W) \ {{}}
Init == /\ phase = "in"
        /\ inc \in [1..NC -> [W -> Inc]]
        /\ S \in Ranges
Eval == phase = "in" /\ phase' = "done" /\ UNCHANGED <<inc, S>>
Spec == Init /\ [][Eval]_vars
Done == phase = "done"

TxFull == SatLayer(Mode, inc, W, Thr)
TxSub  == SatLayer(Mode, inc, S, Thr)
X      == SatTotal(inc, W)
EmFull == EmTerm(Mode, X, W, Thr)
EmSub  == EmTerm(Mode, X, S, Thr)

\* the property's clause, transmission and emission
TxPointwiseLicensed == Done => \A w \in S : SatLicensed(TxFull[w], TxSub[w], Thr)
EmPointwiseLicensed == Done => \A w \in S : EmLicensed(EmFull[w], EmSub[w], X[w], Thr)
\* lemma: computing fewer wavenumbers can only exit earlier
TxSubNotDarker == Done => \A w \in S : TxSub[w] <= TxFull[w]
\* non-vacuity (must be refuted): the licence is really used
TxNeverDiffers == Done => \A w \in S : TxSub[w] = TxFull[w]
EmNeverDiffers == Done => \A w \in S : EmSub[w] = EmFull[w]

SeqOf(f, a, b) == [k \in 1..(b - a + 1) |-> f[a + k - 1]]
Lo == SatMin([w \in W |-> w], S)
Hi == SatMax([w \in W |-> w], S)
Emit == (Export /\ Done) =>
    PrintT(<<"SAT", ToJson([inc |-> [c \in 1..NC |-> [w \in W |-> inc[c][w]]], a |-> Lo, b |-> Hi,
                            txfull |-> SeqOf(TxFull, Lo, Hi), txsub |-> SeqOf(TxSub, Lo, Hi),
                            txdiff |-> (\E w \in S : TxSub[w] # TxFull[w]),
                            emdiff |-> (\E w \in S : EmSub[w] # EmFull[w])])>>)
=============================================================================
