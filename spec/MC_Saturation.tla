---------------------------- MODULE MC_Saturation ----------------------------
(* C13: every pattern of optical depths inc[c][w] (contribution c, wavenumber w) *)
(* with values from Inc, and every computed set S: the layer computed on S       *)
(* against the layer computed on the full grid 1..NW, transmission and emission, *)
(* per wavenumber.  S arises either directly (how = "set": every non-empty       *)
(* subset, or every contiguous sub-range when Contig) or as the clip of the      *)
(* native grid to an observation (how = "obs": Grid!GClipIdx of the native       *)
(* points NatStep*w to bin centres chosen from ObsPos; proper restrictions only).*)
EXTENDS Saturation, Grid, SequencesExt
CONSTANTS NW,        \* wavenumbers (zones of the grid)
          NC,        \* contributions, in evaluation order
          Inc,       \* optical depths a contribution may add at a wavenumber (0 = absent, small = window, large = band)
          Thr,       \* the cut-off (10 in the code)
          Mode,      \* "all" (as documented) | "any" (the slip) | "never"
          Contig,    \* only contiguous sub-ranges (what model(wngrid=..) can produce)
          Hows,      \* subset of {"set", "obs"}
          NatStep,   \* native point w sits at NatStep * w
          ObsPos,    \* candidate observation bin centres
          Export
VARIABLES phase, inc, S, how, oc
vars == <<phase, inc, S, how, oc>>
W == 1..NW
Ranges == IF Contig THEN {a..b : a \in W, b \in W} \ {{}} ELSE (SUBSET W) \ {{}}
NatGrid == [w \in W |-> NatStep * w]
ObsSeqs == {SetToSortSeq(P, LAMBDA a, b : a < b) : P \in {OS \in SUBSET ObsPos : Cardinality(OS) >= 2}}
Init == /\ phase = "in"
        /\ inc \in [1..NC -> [W -> Inc]]
        /\ how \in Hows
        /\ \/ how = "set" /\ S \in Ranges /\ oc = <<>>
           \/ how = "obs" /\ oc \in ObsSeqs /\ S = GClipIdx(NatGrid, oc) /\ S # {} /\ S # W
Eval == phase = "in" /\ phase' = "done" /\ UNCHANGED <<inc, S, how, oc>>
Spec == Init /\ [][Eval]_vars
Done == phase = "done"

TxFull == SatLayer(Mode, inc, W, Thr)
TxSub  == SatLayer(Mode, inc, S, Thr)
X      == SatTotal(inc, W)
EmFull == EmTerm(Mode, X, W, Thr)
EmSub  == EmTerm(Mode, X, S, Thr)

\* the property's clause, transmission and emission: two computations, per wavenumber
TxPointwiseLicensed == Done => \A w \in S : SatLicensed(TxFull[w], TxSub[w], Thr)
EmPointwiseLicensed == Done => \A w \in S : EmLicensed(EmFull[w], EmSub[w], X[w], Thr)
\* one computation against the complete sum: a contribution is skipped only where the layer is dark THERE
TxRunLicensed == Done => /\ \A w \in W : SatRunLicensed(TxFull[w], X[w], Thr)
                         /\ \A w \in S : SatRunLicensed(TxSub[w], X[w], Thr)
EmRunLicensed == Done => /\ \A w \in W : EmTermLicensed(EmFull[w], X[w], Thr)
                         /\ \A w \in S : EmTermLicensed(EmSub[w], X[w], Thr)
\* lemma: computing fewer wavenumbers can only exit earlier
TxSubNotDarker == Done => \A w \in S : TxSub[w] <= TxFull[w]
\* an observation's clip is a contiguous range of native points
ObsContiguous == (Done /\ how = "obs") => \E a \in W, b \in W : S = a..b
\* non-vacuity (must be refuted): the licence is really used; restrictions by observation occur
TxNeverDiffers == Done => \A w \in S : TxSub[w] = TxFull[w]
EmNeverDiffers == Done => \A w \in S : EmSub[w] = EmFull[w]
NoObsRestriction == Done => how # "obs"

\* ---- export: input classes for the bindings
SatSeqOf(f, a, b) == [k \in 1..(b - a + 1) |-> f[a + k - 1]]
Lo == SatMin([w \in W |-> w], S)
Hi == SatMax([w \in W |-> w], S)
\* would the any()-style coupling be rejected on this input (by the pair clause or by the single-run clause)?
AnyFull == SatLayer("any", inc, W, Thr)
AnySub  == SatLayer("any", inc, S, Thr)
AnyRejected == \/ \E w \in S : ~SatLicensed(AnyFull[w], AnySub[w], Thr)
               \/ \E w \in W : ~SatRunLicensed(AnyFull[w], X[w], Thr)
               \/ \E w \in S : ~SatRunLicensed(AnySub[w], X[w], Thr)
AnyEmRejected == \E w \in S : ~EmLicensed(EmTerm("any", X, W, Thr)[w], EmTerm("any", X, S, Thr)[w], X[w], Thr)
Emit == (Export /\ Done) =>
    PrintT(<<"SAT", ToJson([inc |-> [c \in 1..NC |-> [w \in W |-> inc[c][w]]], a |-> Lo, b |-> Hi,
                            how |-> how, oc |-> oc, nat |-> NatGrid,
                            tot |-> [w \in W |-> X[w]],
                            lic |-> [w \in W |-> X[w] > Thr],
                            txfull |-> SatSeqOf(TxFull, Lo, Hi), txsub |-> SatSeqOf(TxSub, Lo, Hi),
                            txdiff |-> (\E w \in S : TxSub[w] # TxFull[w]),
                            emdiff |-> (\E w \in S : EmSub[w] # EmFull[w]),
                            exits |-> (\E w \in W : TxFull[w] # X[w]) \/ (\E w \in S : TxSub[w] # X[w]),
                            disc |-> AnyRejected, emdisc |-> AnyEmRejected])>>)
=============================================================================
