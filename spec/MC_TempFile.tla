----------------------------- MODULE MC_TempFile -----------------------------
(* Exhaustive / export model for the file-based temperature profile of C12:      *)
(* choose the control temperatures, whether the file has a pressure column, and  *)
(* the layout of the text table over every documented option (units of both      *)
(* columns, column positions, header lines, delimiter, row order); write the     *)
(* table, read it back, evaluate the array profile on the layer grid             *)
(* LP[l] = 2(n-l)+2 (decades).  The clauses of C12 for array profiles must hold  *)
(* for every layout, and the layout must be transparent (same profile as the     *)
(* array profile of the controls).                                               *)
EXTENDS Temperature, SequencesExt
CONSTANTS NMin, NMax, TVals, MaxLen,
          PUnits,      \* decades per pressure unit
          TUnits,      \* Kelvin per temperature unit
          Lays,        \* indices into FileLayouts
          Skips, Delims, Orders,
          Rule, Export
VARIABLES phase, n, arr, pmode, fmt, out
vars == <<phase, n, arr, pmode, fmt, out>>

LPOf(k) == [l \in 1..k |-> 2 * (k - l) + 2]
PpOf(m, k) == [i \in 1..m |-> 2 * k + 1 - 2 * i]
SeqsOf(S, lo, hi) == UNION {[1..k -> S] : k \in lo..hi}
Fmts == [pu : PUnits, tu : TUnits, lay : Lays, skip : Skips, delim : Delims, order : Orders]
HasPp == pmode = "pp"
Pp == IF HasPp THEN PpOf(Len(arr), n) ELSE <<>>
Table == FileTable(arr, Pp, fmt)

Init == /\ phase = "in" /\ out = [st |-> "none", prof |-> <<>>]
        /\ n \in NMin..NMax
        /\ arr \in SeqsOf(TVals, 1, MaxLen) /\ pmode \in {"none", "pp"}
        /\ (pmode = "pp" => Len(arr) >= 2 /\ Len(arr) <= n)
        /\ fmt \in Fmts
        /\ (pmode = "none" => fmt.pu = 0)          \* no pressure column: its unit is irrelevant
Eval == /\ phase = "in"
        /\ out' = [st |-> "ok", prof |-> FileProfile(Table, fmt, HasPp, LPOf(n), Rule)]
        /\ phase' = "done"
        /\ UNCHANGED <<n, arr, pmode, fmt>>
Next == Eval
Spec == Init /\ [][Next]_vars

Done == phase = "done"
Controls == {arr[i] : i \in 1..Len(arr)}
CLo == CHOOSE v \in Controls : \A u \in Controls : v <= u
CHi == CHOOSE v \in Controls : \A u \in Controls : v >= u
Reference == IF HasPp THEN ArrayByPressure(arr, Pp, LPOf(n)) ELSE ArrayByFraction(arr, n)

OnePerLayer == Done => Len(out.prof) = n
PositiveFinite == Done => \A l \in 1..Len(out.prof) : RLt(RZero, out.prof[l])
WithinControlRange == Done => SeqWithin(out.prof, Q(CLo), Q(CHi))
ConstantWhenControlsEqual == (Done /\ CLo = CHi) => SeqConst(out.prof, Q(CLo))
FileTransparent == Done => /\ Len(out.prof) = Len(Reference)
                           /\ \A l \in 1..Len(out.prof) : REq(out.prof[l], Reference[l])
FitsInv == Done => SeqFits(out.prof)

\* export: one deterministic layout / delimiter / order / header per (controls, units) keeps the vector count down
Hash == n + Len(arr) + fmt.pu + (fmt.tu % 7) + RSumSeq([i \in 1..Len(arr) |-> Q(arr[i] * i)])[1]
Pick(S, h) == SetToSortSeq(S, LAMBDA a, b : a < b)[(h % Cardinality(S)) + 1]
PickS(S, h) == SetToSeq(S)[(h % Cardinality(S)) + 1]
ExportPick == Export => /\ fmt.lay = Pick(Lays, Hash)
                        /\ fmt.skip = Pick(Skips, Hash \div 2)
                        /\ fmt.delim = PickS(Delims, Hash \div 3)
                        /\ fmt.order = PickS(Orders, Hash \div 5)
Emit == (Export /\ Done) =>
    PrintT(<<"VEC", ToJson([kind |-> "file", n |-> n, lp |-> LPOf(n), arr |-> arr, pmode |-> pmode, pp |-> Pp,
                            fmt |-> fmt, layout |-> FileLayouts[fmt.lay], table |-> Table,
                            prof |-> out.prof, lo |-> CLo, hi |-> CHi])>>)
=============================================================================
