----------------------------- MODULE MC_TransK -----------------------------
(* C01, opacity family "correlated-k" (opacity_method = ktables): the molecular absorber has one        *)
(* coefficient per quadrature point and the layer transmittance is the weighted sum over the quadrature *)
(* points (Transmission.tla: KTransLo / KTransHi).  The quantifier of C01 says "opacity tables (any      *)
(* magnitude, including fully transparent and fully saturated)": the value sets below therefore contain *)
(* 0, moderate values, values beyond the exactly representable range (KMid) and values at which 2^-tau   *)
(* is exactly zero in floating point at EVERY quadrature point (KBig >= Underflow).                      *)
(*                                                                                                       *)
(* inp.mut selects how the sum over quadrature points treats points that underflow:                      *)
(*   "none"    the documented sum (a term that underflows is a zero term)                                *)
(*   "guard"   a cell in which every term underflows adds nothing to the optical depth (log(0) avoided)   *)
(*   "renorm"  terms that underflow are dropped and the remaining weights renormalised                   *)
(* The clauses of the statement hold for "none" (Sound.. invariants) and TLC must refute them for the   *)
(* other two (Refute.. invariants); GuardBlind says why "guard" is invisible to every input without a   *)
(* fully underflowing cell.                                                                             *)
EXTENDS Transmission, Json
CONSTANTS NL, NW, NG,
          KVals,            \* exhaustive inputs: values of kk[g][k][w]
          LVals,            \* exhaustive inputs: chord segments
          Basis,            \* TRUE = one-hot + generic + saturating patterns (exported), FALSE = all tables over KVals
          Export
VARIABLES phase, inp, out
vars == <<phase, inp, out>>

WD == 4
Weights == CASE NG = 1 -> {<<4>>}
             [] NG = 2 -> {<<1, 3>>, <<2, 2>>}
             [] NG = 3 -> {<<1, 1, 2>>, <<2, 1, 1>>}
KMid == 300               \* 2^-(3*300) is representable, far beyond KCap; doubled or tripled it underflows
KBig == 1100              \* >= Underflow: 2^-1100 is exactly 0 in binary64
Muts == {"none", "guard", "renorm"}
Layers == 1..NL
GP == 1..NG

\* ------------------------------------------------------------------ inputs
KTabs == [GP -> [Layers -> [1..NW -> KVals]]]
LTabs == [Layers -> [1..NL -> LVals]]
LCanon(L) == \A j \in Layers : \A i \in 1..NL : (i > NL - j + 1) => L[j][i] = 1
GenL(m) == [j \in Layers |-> [i \in 1..NL |-> IF i > NL - j + 1 THEN 1 ELSE 1 + ((i * m + j) % 3)]]

OneHotK(gg, kq, ww, h) == [g \in GP |-> [k \in Layers |-> [w \in 1..NW |->
                              IF g = gg /\ k = kq /\ w = ww THEN h ELSE 0]]]
GenK(m)     == [g \in GP |-> [k \in Layers |-> [w \in 1..NW |-> ((g * 7 + k * 3 + w * 5) * m) % 4]]]
\* every quadrature point of every layer >= s carries v at every wavenumber (fully saturated from s upwards)
SatK(s, v)  == [g \in GP |-> [k \in Layers |-> [w \in 1..NW |-> IF k >= s THEN v ELSE 0]]]
\* one quadrature point stays translucent: the cell is NOT opaque
HalfSatK(v) == [g \in GP |-> [k \in Layers |-> [w \in 1..NW |-> IF g = 1 THEN v ELSE (k + w) % 3]]]
\* saturated at one wavenumber only
OneWnSatK(v) == [g \in GP |-> [k \in Layers |-> [w \in 1..NW |-> IF w = 1 THEN v ELSE (g + k) % 3]]]
\* the same coefficient at every quadrature point: the cross-section formula
DegK(m)     == [g \in GP |-> [k \in Layers |-> [w \in 1..NW |-> ((k * 3 + w * 5) * m) % 4]]]
BasisK == {OneHotK(gg, kq, ww, h) : gg \in GP, kq \in Layers, ww \in 1..NW, h \in {1, KBig}}
          \cup {GenK(1), GenK(3), DegK(1), DegK(3), HalfSatK(KBig), HalfSatK(KMid), OneWnSatK(KBig)}
          \cup {SatK(s, v) : s \in Layers, v \in {KMid, KBig}}

InitInp == IF Basis
           THEN {[k |-> kk, wts |-> ws, L |-> L, mut |-> mu] : kk \in BasisK, ws \in Weights, L \in {GenL(1), GenL(2)}, mu \in Muts}
           ELSE {[k |-> kk, wts |-> ws, L |-> L, mut |-> mu] : kk \in KTabs, ws \in Weights, L \in {L \in LTabs : LCanon(L)}, mu \in Muts}

\* -------------------------------------------------------------- evaluation
Under(i, g, j, w) == KTauG(i.k, i.L, g, j, w) >= Underflow
AllUnder(i, j, w) == \A g \in GP : Under(i, g, j, w)
RECURSIVE SumW(_, _)
SumW(ws, g) == IF g = 0 THEN 0 ELSE ws[g] + SumW(ws, g - 1)
Cell(i, j, w) ==     \* <<lower bound, upper bound>> of the transmittance the variant returns
    LET doc == <<KTransLo(i.k, i.L, i.wts, WD, NG, j, w), KTransHi(i.k, i.L, i.wts, WD, NG, j, w)>>
    IN  CASE i.mut = "none"   -> doc
          [] i.mut = "guard"  -> IF AllUnder(i, j, w) THEN <<ROne, ROne>> ELSE doc
          [] i.mut = "renorm" -> LET ws == [g \in GP |-> IF Under(i, g, j, w) THEN 0 ELSE i.wts[g]]
                                     wd == SumW(ws, NG)
                                 IN  IF wd = 0 THEN <<RZero, RZero>>
                                     ELSE <<KTransLo(i.k, i.L, ws, wd, NG, j, w), KTransHi(i.k, i.L, ws, wd, NG, j, w)>>
Eval(i) == [lo |-> [j \in Layers |-> [w \in 1..NW |-> Cell(i, j, w)[1]]],
            hi |-> [j \in Layers |-> [w \in 1..NW |-> Cell(i, j, w)[2]]]]

Init == phase = "in" /\ inp \in InitInp /\ out = <<>>
Evaluate == phase = "in" /\ out' = Eval(inp) /\ phase' = "done" /\ UNCHANGED inp
Next == Evaluate
Spec == Init /\ [][Next]_vars
Done == phase = "done"

\* ----------------------------------------------------------------- clauses
Cells == Layers \X (1..NW)
TauSet(j, w) == {KTauG(inp.k, inp.L, g, j, w) : g \in GP}
MinT(j, w) == CHOOSE t \in TauSet(j, w) : \A u \in TauSet(j, w) : t <= u
MaxT(j, w) == CHOOSE t \in TauSet(j, w) : \A u \in TauSet(j, w) : t >= u

InUnit == \A c \in Cells : /\ RLe(RZero, out.lo[c[1]][c[2]])
                           /\ RLe(out.lo[c[1]][c[2]], out.hi[c[1]][c[2]])
                           /\ RLe(out.hi[c[1]][c[2]], ROne)
\* "any magnitude, including fully saturated": a cell whose every quadrature point is beyond KCap is opaque
SaturatedOpaque == \A c \in Cells : (MinT(c[1], c[2]) > KCap) => RLe(out.hi[c[1]][c[2]], Pow2Neg(KCap))
\* the transmittance lies between those of the most and of the least opaque quadrature point
BetweenExtremes == \A c \in Cells : /\ RLe(TrLo(MaxT(c[1], c[2])), out.hi[c[1]][c[2]])
                                    /\ RLe(out.lo[c[1]][c[2]], TrHi(MinT(c[1], c[2])))
\* equal coefficients at every quadrature point: the cross-section formula 2^-tau
Degenerate == \A c \in Cells : (MinT(c[1], c[2]) = MaxT(c[1], c[2])) =>
                  /\ RLe(out.lo[c[1]][c[2]], TrHi(MinT(c[1], c[2])))
                  /\ RLe(TrLo(MinT(c[1], c[2])), out.hi[c[1]][c[2]])
                  /\ (MinT(c[1], c[2]) <= KCap => out.lo[c[1]][c[2]] = Pow2Neg(MinT(c[1], c[2])) /\ out.hi[c[1]][c[2]] = out.lo[c[1]][c[2]])
\* "never decreases when every cross-section is scaled up": no transmittance rises
ScaleK(kk, m) == [g \in GP |-> [k \in Layers |-> [w \in 1..NW |-> m * kk[g][k][w]]]]
Monotone == \A m \in {2, 3} : LET o2 == Eval([inp EXCEPT !.k = ScaleK(inp.k, m)])
                              IN  \A c \in Cells : /\ RLe(o2.hi[c[1]][c[2]], out.hi[c[1]][c[2]])
                                                   /\ RLe(o2.lo[c[1]][c[2]], out.lo[c[1]][c[2]])
\* the value is the documented sum
Documented == \A c \in Cells : /\ RLe(KTransLo(inp.k, inp.L, inp.wts, WD, NG, c[1], c[2]), out.lo[c[1]][c[2]])
                               /\ RLe(out.hi[c[1]][c[2]], KTransHi(inp.k, inp.L, inp.wts, WD, NG, c[1], c[2]))
FitsK == \A c \in Cells : Fits(out.lo[c[1]][c[2]]) /\ Fits(out.hi[c[1]][c[2]])

Is(mu) == Done /\ inp.mut = mu
SoundInUnit          == Is("none") => InUnit
SoundSaturatedOpaque == Is("none") => SaturatedOpaque
SoundBetweenExtremes == Is("none") => BetweenExtremes
SoundDegenerate      == Is("none") => Degenerate
SoundMonotone        == Is("none") => Monotone
SoundFits            == Done => FitsK
\* expected counterexamples (non-vacuity): TLC must refute each of these
RefuteGuardSaturated == Is("guard") => SaturatedOpaque
RefuteGuardMonotone  == Is("guard") => Monotone
RefuteRenorm         == Is("renorm") => Documented
\* why the guard is invisible without a cell that underflows at every quadrature point
GuardBlind == (Is("guard") /\ \A c \in Cells : ~AllUnder(inp, c[1], c[2])) => out = Eval([inp EXCEPT !.mut = "none"])

Emit == (Export /\ Is("none")) =>
           PrintT(<<"VEC", ToJson([fam |-> "kd", inp |-> [k |-> inp.k, wts |-> inp.wts, wd |-> WD, L |-> inp.L], out |-> out])>>)
=============================================================================
