SPECIFICATION Spec
CONSTANTS
  NMax = 3
  L0S = {8}
  LShift = 4
  CS = {1}
  LMinAll = 0
  TS = {1}
  ChemPool = 3
  ChemLayout = "transposed_if_square"
  UnitAt = "return"
  ULoop = 1
  EvalEffect = "readonly"
  ShareEffect = "readonly"
  RADS = {8}
  GMS = {64}
  TableEnds = "nearest"
  ElemType = "float64"
  WorkArrays = "float"
  Slicing = "layer"
  Export = FALSE
INVARIANT MixAlignedWithLayers
CONSTRAINT Emit
CHECK_DEADLOCK FALSE
