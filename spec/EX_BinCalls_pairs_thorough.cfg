SPECIFICATION HSpec
CONSTANTS
  TB <- MCTB
  Grids <- MCGrids
  NGrids = 2
  Kinds = {"flux", "simple", "native"}
  Muts = {"none"}
  Ords = {"asc", "desc", "mixed"}
  Depth = 2
  Export = "pairs"
INVARIANT HoldArgs
INVARIANT HoldResult
INVARIANT HoldEarlier
INVARIANT AlphabetInv
INVARIANT FitsInv
CONSTRAINT Bound
CONSTRAINT EmitOps
CONSTRAINT EmitWalk
CHECK_DEADLOCK FALSE
