SPECIFICATION Spec
CONSTANTS
  NComp <- MCNComp
  WSize <- MCWSize
  Depth = 2
  Export = TRUE
CONSTRAINT Bound
CONSTRAINT Emit
CHECK_DEADLOCK FALSE
INVARIANT Sound
INVARIANT StaleBlind
INVARIANT RefuteStaleSize
INVARIANT RefuteAccumulate
INVARIANT RefuteKeepSingle
INVARIANT IdentityBlind
INVARIANT RefuteIdentity
