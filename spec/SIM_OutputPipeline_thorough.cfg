SPECIFICATION SSpec
CONSTANTS
  Models = {1, 2}
  Cfgs = {0, 1}
  Kinds = {"model", "contrib", "full"}
  Shapes = {"native", "cut"}
  Sizes = {"heavy", "light", "lighter"}
  Variants = {"sound"}
  MaxCalls = 6
  MaxDicts = 4
  MaxFiles = 4
  Depth = 10
  Export = "walks"
CONSTRAINT Bound
CONSTRAINT EmitProgram
CONSTRAINT EmitWalk
CHECK_DEADLOCK FALSE
