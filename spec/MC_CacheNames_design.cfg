SPECIFICATION Spec
CONSTANTS
  Paths = {"p1","p2"}
  Mols = {"A","B","C"}
  Disk <- MCDisk
  Sub <- MCSub
  SubstringFilter = FALSE
  Depth = 14
  Hist = FALSE
CONSTRAINT Cons
CHECK_DEADLOCK FALSE
VIEW View
INVARIANT TypeOK
INVARIANT NothingElseEnters
INVARIANT ServedFromFirstRequestPath
PROPERTY OnlyTheRequestedChanges
