SPECIFICATION Spec
CONSTANTS
  NL = 2
  MaxFill = 2
  MaxTrace = 2
  RatioNums = {1,3}
  RatioDen = 4
  AbNums = {0,3,8,9}
  AbDen = 8
  Variant = "mu_layer_mean"
  Export = FALSE
INVARIANT ScalarMuAtSurface
CHECK_DEADLOCK FALSE
