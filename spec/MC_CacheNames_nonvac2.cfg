SPECIFICATION Spec
CONSTANTS
  Paths = {"p1","p2"}
  Mols = {"A","B","C"}
  Disk <- MCDisk
  Sub <- MCSub
  SubstringFilter = FALSE
  Depth = 5
  Hist = TRUE
CONSTRAINT Cons
CHECK_DEADLOCK FALSE
INVARIANT NeverSubAfterSuper
