SPECIFICATION Spec
CONSTANTS
  Kind = "ktable"
  Paths = {"p1","p2"}
  Mols = {"A","B"}
  Modes = {"linear","exp"}
  Disk <- MCDisk
  ClearOnModeChange = TRUE
  DiscoverPassesMode = TRUE
  StoreOnLoad = TRUE
  Depth = 16
  Hist = FALSE
CONSTRAINT Cons
CHECK_DEADLOCK FALSE
VIEW View
INVARIANT TypeOK
INVARIANT LoadedOncePerEpoch
INVARIANT ObjectsDistinct
INVARIANT ModeTakesEffect
INVARIANT TableFromItsPath
PROPERTY SameObjectServed
PROPERTY LoadFromConfiguredPath
