SPECIFICATION Spec
CONSTANTS
  Kind = "xsec"
  Paths = {"p1","p2"}
  Mols = {"A","B"}
  Modes = {"linear","exp"}
  Disk <- MCDisk
  ClearOnModeChange = TRUE
  DiscoverPassesMode = TRUE
  StoreOnLoad = TRUE
  Depth = 6
  Hist = FALSE
CONSTRAINT Cons
CHECK_DEADLOCK FALSE
INVARIANT NeverTwoObjects
