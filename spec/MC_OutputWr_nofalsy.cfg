SPECIFICATION Spec
CONSTANTS
  Keys = {"a","b","c"}
  NVals = 4
  InputClasses = {"distinct", "single"}
INVARIANT Exposes
INVARIANT Faithful
INVARIANT SweepExposes
CHECK_DEADLOCK FALSE
