SPECIFICATION Spec
CONSTANTS
  NMax = 1
  L0S = {6}
  LShift = 4
  CS = {1}
  LMinAll = 0
  TS = {1}
  ChemPool = 3
  ChemLayout = "rows_are_layers"
  UnitAt = "return"
  ULoop = 1
  EvalEffect = "readonly"
  ShareEffect = "temperature_scales_pressure"
  RADS = {8}
  GMS = {64}
  TableEnds = "nearest"
  ElemType = "float64"
  WorkArrays = "float"
  Slicing = "layer"
  Export = FALSE
INVARIANT LayerIsGeometricMean
CONSTRAINT Emit
CHECK_DEADLOCK FALSE
