SPECIFICATION NSpec
CONSTANTS
  Kind = "xsec"
  Paths = {"p1"}
  Mols = {"A"}
  Modes = {"linear"}
  Disk <- NDisk
  ClearOnModeChange = TRUE
  DiscoverPassesMode = TRUE
  StoreOnLoad = TRUE
  Upper = {"H","C"}
  Lower = {"e","o"}
  Digit = {"1","2"}
  Other = {"-","_"}
  MaxLen = 4
INVARIANT Idempotent
INVARIANT OnlyDrops
INVARIANT StartsUpper
CONSTRAINT NEmit
CONSTRAINT UEmit
CHECK_DEADLOCK FALSE
