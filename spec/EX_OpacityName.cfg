SPECIFICATION NSpec
CONSTANTS
  Upper = {"H","C"}
  Lower = {"e","o"}
  Digit = {"1","2"}
  Other = {"-","_"}
  MaxLen = 4
INVARIANT Idempotent
INVARIANT OnlyDrops
INVARIANT StartsUpper
CONSTRAINT NEmit
CONSTRAINT UEmit
CHECK_DEADLOCK FALSE
