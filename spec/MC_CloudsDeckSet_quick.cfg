SPECIFICATION Spec
CONSTANTS
  NMax = 2
  L0s = {0,12,14,16}
  Spacings = {2,4}
  BStep = 1
  Below = 4
  Writers = {"setter","param"}
  Design = "spec"
  CapPos = 12
  MaxWrites = 2
  Export = FALSE
INVARIANT OpaqueSetIsDeclared
INVARIANT BelowBottomIsNoCloud
VIEW ViewNoHist
CHECK_DEADLOCK FALSE
