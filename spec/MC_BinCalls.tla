---------------------------- MODULE MC_BinCalls ----------------------------
(* Model-checking / export instance of BinCalls.                                                          *)
(*   refute   MSpec: one config per design mutant (MC_BinCalls_ref_*.cfg); TLC must refute its invariant.        *)
(*   pairs    HSpec bounded to Depth calls: EVERY ordered sequence of Depth calls for every kind of binner *)
(*            and every stored order; prints the table of operations with what the statement requires      *)
(*            (exact) and every sequence with the design mutants it exposes.                               *)
(*   walks    SSpec in simulation mode: longer random sequences.                                           *)
(* Target bins (lattice) [23,33] [10,20] [50,68] [30,40] [86,94] handed over unsorted: overlapping bins,    *)
(* gaps, unequal widths, one bin outside every grid.  Native grids: 1 a uniform tiling, 2 irregular widths *)
(* with gaps, 3 (random sequences of the thorough tier) a second uniform tiling of the same length as 1.    *)
EXTENDS BinCalls, Json
CONSTANTS NGrids, Depth, Export
VARIABLE hist
MCTB == << <<23, 33>>, <<10, 20>>, <<50, 68>>, <<30, 40>>, <<86, 94>> >>
AllGrids == << << <<8, 20>>, <<20, 32>>, <<32, 44>>, <<44, 56>>, <<56, 68>>, <<68, 80>> >>,
               << <<6, 12>>, <<12, 26>>, <<28, 36>>, <<36, 38>>, <<44, 62>> >>,
               << <<14, 24>>, <<24, 34>>, <<34, 44>>, <<44, 54>>, <<54, 64>>, <<64, 74>> >> >>
MCGrids == SubSeq(AllGrids, 1, NGrids)

Alive == Sound(V) \/ AllClauses
MSpec == Init /\ hist = <<>> /\ [][Alive /\ Next /\ UNCHANGED hist]_<<vars, hist>>
HInit == Init /\ hist = <<>>
HNext == Len(hist) < Depth /\ \E op \in OpsTab[V.kind] : Do(op) /\ hist' = Append(hist, op)
HSpec == HInit /\ [][HNext]_<<vars, hist>>
SNext == Len(hist) < Depth /\ LET op == RandomElement(OpsTab[V.kind]) IN Do(op) /\ hist' = Append(hist, op)
SSpec == HInit /\ [][SNext]_<<vars, hist>>
Bound == Len(hist) <= Depth
\* quick tier: consecutive calls that share an object -- the same native grid (the arrays a call can have touched are
\* read again) or the long-lived binner; the identity binner with one stored order; bindown only (bin_model is
\* bindown with derived widths).  The thorough tier lifts the restrictions and adds longer random sequences.
QuickCut == /\ (V.kind = "native") => V.ord = "mixed"
            /\ \A i \in 1..Len(hist) : hist[i].api = "bindown"
            /\ \A i \in 1..(Len(hist) - 1) : (hist[i].g = hist[i + 1].g) \/ (V.kind # "native" /\ hist[i].b = "old" /\ hist[i + 1].b = "old")

\* which design mutants a sequence of calls exposes: some clause fails after some call (or before the first)
RECURSIVE ExposedFrom(_, _, _, _)
ExposedFrom(v, s, ops, i) ==
    IF i > Len(ops) THEN FALSE
    ELSE LET s1 == ApplyFast(v, s, ops[i]) IN
         ~(ArgsUntouchedS(v, s1) /\ ResultRightS(v, s1, ops[i]) /\ EarlierKeptS(s1)) \/ ExposedFrom(v, s1, ops, i + 1)
Exposed(v, ops) == ~ArgsUntouchedS(v, St0(v)) \/ ExposedFrom(v, St0(v), ops, 1)
MutantsOf(kind) == {m \in {"sqinplace", "sortargs", "sortctor", "outbuffer"} : [kind |-> kind, mut |-> m, ord |-> "asc"] \in
                      {v \in [kind : {kind}, mut : {m}, ord : {"asc"}] : (kind = "native" => FALSE) /\ (kind = "simple" => m = "sortargs")}}
KillsOf(kind, ord, ops) == {m \in MutantsOf(kind) : Exposed([kind |-> kind, mut |-> m, ord |-> ord], ops)}

OpTable(kind, ord) == {[op |-> op, res |-> FreshTab[kind][ord][op]] : op \in Ops(kind)}
EmitOps == (Export # "none" /\ Sound(V) /\ ~started) =>
    PrintT(<<"COPS", ToJson([kind |-> V.kind, ord |-> V.ord, tb |-> TBof(V.kind), sorted |-> SortedTB,
                             grids |-> [g \in 1..NG |-> [bins |-> Grids[g], f |-> FSeq(g), r1 |-> RSeq(g, 1), r2 |-> RSeq(g, 2),
                                                         e |-> ESeq(g), sp |-> SP(V.ord, NP(g)), cp |-> CP(NP(g)), uniform |-> Uniform(g)]],
                             table |-> OpTable(V.kind, V.ord)])>>)
EmitWalk == (Export # "none" /\ Sound(V) /\ Len(hist) = Depth) =>
    PrintT(<<"CWALK", ToJson([kind |-> V.kind, ord |-> V.ord, ops |-> hist, kills |-> KillsOf(V.kind, V.ord, hist)])>>)
=============================================================================
