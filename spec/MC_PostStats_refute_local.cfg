SPECIFICATION Spec
CONSTANTS
  NRs = {1,2}
  Ns = {2,3}
  SmpMode = "all"
  Vals = {0,3}
  Wts = {1,2}
  WDen = 1
  Gens = {1,2,3}
  SampleSpace <- MCSampleSpace
  Required = {"temp","active","inactive","native","binned"}
  Optional = {"cond"}
  LocalQs = {"cond"}
  Ordered = FALSE
  Export = FALSE
INVARIANT EveryStatisticIsCombined
CONSTRAINT Emit
CHECK_DEADLOCK FALSE
