----------------------------- MODULE MC_GridSel -----------------------------
(* C13, opacity selection: a molecule tabulated on its own grid g is requested *)
(* on the full native grid n and on the sub-range r = n[a..b] (what a clip or a *)
(* user-supplied sub-range produces).  SelAlg transcribes Opacity.opacity /     *)
(* KTable.opacity; Mode = "filtered" is the algorithm as built (interpolation   *)
(* within the filtered points), Mode = "widened" the repaired one.              *)
EXTENDS Grid, SequencesExt
CONSTANTS Pos,       \* candidate wavenumbers
          Mode,      \* "filtered" | "widened"
          Export
VARIABLES phase, g, n, a, b
vars == <<phase, g, n, a, b>>

SortedSeqs == {SetToSortSeq(S, LAMBDA x, y : x < y) : S \in {T \in SUBSET Pos : Cardinality(T) >= 2}}

Init == /\ phase = "in"
        /\ g \in SortedSeqs
        /\ n \in SortedSeqs
        /\ a \in 1..Len(n) /\ b \in a..Len(n)
Eval == /\ phase = "in" /\ phase' = "done" /\ UNCHANGED <<g, n, a, b>>
Next == Eval
Spec == Init /\ [][Next]_vars

Done == phase = "done"
Req  == SubSeq(n, a, b)
OnSub  == SelAlg(Mode, g, Req)        \* result per index of Req
OnFull == SelAlg(Mode, g, n)          \* result per index of n
IdxIn(gr, x) == CHOOSE i \in 1..Len(gr) : gr[i] = x

\* the value at a wavenumber does not depend on which other wavenumbers are requested
PointwiseIndependent == Done =>
    \A k \in a..b : SelNormal(OnSub[k - a + 1]) = SelNormal(OnFull[k])
\* the same, restricted to requests the as-built algorithm can serve at all (non-empty filter)
PointwiseIndependentDefined == (Done /\ \A k \in 1..Len(Req) : OnSub[k] # SelErr) =>
    \A k \in a..b : SelNormal(OnSub[k - a + 1]) = SelNormal(OnFull[k])
\* a molecule's own points are returned unchanged
OwnPointsUnchanged == Done =>
    \A k \in 1..Len(Req) : (Req[k] \in GSetOf(g)) => SelNormal(OnSub[k]) = SelNode(IdxIn(g, Req[k]))
\* other points lie between the neighbouring native values (of the FULL molecule grid)
BetweenNeighbours == Done =>
    \A k \in 1..Len(Req) : OnSub[k] # SelErr /\ SelBetween(g, Req[k], SelNormal(OnSub[k]))
\* stronger than the statement: the repaired algorithm is interpolation on the full grid
MatchesReference == Done =>
    \A k \in 1..Len(Req) : SelNormal(OnSub[k]) = SelNormal(SelRef(g, Req[k]))
NoError == Done => \A k \in 1..Len(Req) : OnSub[k] # SelErr
FitsInv == Done => \A k \in 1..Len(Req) : Fits(OnSub[k].w)

Emit == (Export /\ Done) =>
    PrintT(<<"VEC", ToJson([g |-> g, n |-> n, a |-> a, b |-> b,
                            sub  |-> [k \in 1..Len(Req) |-> SelNormal(OnSub[k])],
                            full |-> [k \in 1..Len(n) |-> SelNormal(OnFull[k])],
                            ref  |-> [k \in 1..Len(Req) |-> SelNormal(SelRef(g, Req[k]))],
                            nb   |-> [k \in 1..Len(Req) |-> SelNeighbours(g, Req[k])],
                            ident |-> SelIdentity(g, Req)])>>)
=============================================================================
