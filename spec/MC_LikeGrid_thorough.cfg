SPECIFICATION Spec
CONSTANTS
  Rule = "max"
  Families = {"geo", "rev", "gap", "phot", "two", "ovl"}
  Starts = {7, 18, 30, 41}
  Lens = {3, 4, 5, 6}
  ASet = {0, 1, 3}
  ARef = 2
  Search = "each"
  OvlN = 4
  Licensed = TRUE
  Export = TRUE
INVARIANT LikelihoodOfFullGrid
INVARIANT ClipCoversBins
INVARIANT CoverLemma
INVARIANT Observed
INVARIANT WindowLemma
INVARIANT FitsInv
CONSTRAINT Emit
CHECK_DEADLOCK FALSE
