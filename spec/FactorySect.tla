---------------------------- MODULE FactorySect ----------------------------
(***************************************************************************)
(* C15 -- the PRESENCE of sections in an input file (operators shared by   *)
(* FactoryAsm, family C, and FactoryParser).                               *)
(*                                                                         *)
(* inputfile.rst: "Not all of these headers are required in an input file. *)
(* Some will generate default profiles when not present."  The forward     *)
(* model owns those defaults: a model constructor that receives nothing    *)
(* for a component builds its default one, the pressure profile from the   *)
(* model's OWN keys nlayers / atm_min_pressure / atm_max_pressure.  So for *)
(* a section that is not written the parser must hand the model            *)
(* constructor nothing (the keyword keeps its default: "defaults           *)
(* otherwise"); only then do the keys written under [Model] take effect.   *)
(***************************************************************************)
OptSections == {"Temperature", "Pressure", "Chemistry", "Planet", "Star"}
\* the model constructor keyword of each optional section
SlotOf == [Temperature |-> "temperature_profile", Pressure |-> "pressure_profile", Chemistry |-> "chemistry",
           Planet |-> "planet", Star |-> "star"]
\* [Model] keys that describe the model's own default pressure profile
LayerKeys == {"nlayers", "atm_min_pressure", "atm_max_pressure"}

\* What the model constructor receives for section s, whose selector names class cls when written:
\* "" = nothing (the constructor default).  prebuild = TRUE is the REFUTED reading "for an absent section
\* the parser builds the default component of the section itself".
ModelArgOf(prebuild, absent, s, cls) == IF s \in absent THEN (IF prebuild THEN cls ELSE "") ELSE cls
\* where each number of the model's pressure grid comes from, given what the constructor got for [Pressure]
LayerSrcOf(pressarg, mkeys, k) == IF pressarg # "" THEN "pressure-section"
                                  ELSE IF k \in mkeys THEN "model-key" ELSE "model-default"
=============================================================================
