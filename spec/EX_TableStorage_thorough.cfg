SPECIFICATION Spec
CONSTANTS
  NPs = 2
  NTs = 2
  NWs = 3
  NGSet = {0,2}
  OrderSet = "all"
  Flatten = "logical"
  Mags8 = {0,20,40}
  Mags4 = {0,20}
  GridDtypes = {"i8","i4","i2","f4","f8"}
  Export = TRUE
INVARIANT OffsetBijective
INVARIANT ViewFaithful
INVARIANT PlaneHandedLogical
CONSTRAINT EmitStores
CONSTRAINT EmitGridTypes
CHECK_DEADLOCK FALSE
