SPECIFICATION Spec
CONSTANTS
  NN = 8
  Wins <- MCWins
  NTP = 2
  NG = 2
  Keys = {"none", "content", "ends"}
  ModeReads = {"eval"}
INVARIANT EvalEqualsFresh
INVARIANT TwinEqualsXsec
INVARIANT OnRequestedGrid
CHECK_DEADLOCK FALSE
