SPECIFICATION Spec
CONSTANTS
  Vectors = {1, 2, 3}
  MaxLike = 3
  MaxSol = 2
  Variant = "profiles_no_model"
INVARIANT GuardsHold
CHECK_DEADLOCK FALSE
