SPECIFICATION ESpec
CONSTANTS
  WlNm <- MCWl4
  Reorder = "flip"
  Export = FALSE
INVARIANT ETypeOK
INVARIANT ReaderMatchesTable
INVARIANT GridAscending
INVARIANT ColumnsArePermutation
INVARIANT OrderIrrelevant
CHECK_DEADLOCK FALSE
