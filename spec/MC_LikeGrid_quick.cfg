SPECIFICATION Spec
CONSTANTS
  Rule = "max"
  Families = {"geo", "rev", "gap", "phot", "two", "ovl"}
  Starts = {7, 30}
  Lens = {3, 5}
  ASet = {3}
  ARef = 2
  Search = "each"
  OvlN = 2
  Licensed = TRUE
  Export = TRUE
INVARIANT LikelihoodOfFullGrid
INVARIANT ClipCoversBins
INVARIANT CoverLemma
INVARIANT Observed
INVARIANT WindowLemma
INVARIANT FitsInv
CONSTRAINT Emit
CHECK_DEADLOCK FALSE
