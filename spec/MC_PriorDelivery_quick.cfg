SPECIFICATION Spec
CONSTANTS
  UN = 16
  Ordering = "minmax"
  ZS = 100
  Z <- MCZ
  TK = {5,30,53,1074}
  HiMax = 53
  ZTS = 100
  ZT <- MCZT
  Delivery = "by_prior"
  QNum = {9,12,14}
  QShift = 12
  QDen = {1,4}
  ENum = {6,12,14}
  EShift = 12
  SNum = {3,25}
  SDen = {1,10}
  Export = TRUE
INVARIANT ZOk
INVARIANT DeliveryInv
INVARIANT RouteInv
INVARIANT DefaultSpaceInv
INVARIANT FitsInv
CONSTRAINT Emit
CHECK_DEADLOCK FALSE
