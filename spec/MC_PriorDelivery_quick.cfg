SPECIFICATION Spec
CONSTANTS
  UN = 16
  Ordering = "minmax"
  ZS = 100
  Z <- MCZ
  TK = {5,30,53,1074}
  HiMax = 53
  ZTS = 100
  TD = {3,12,300}
  HiDecMax = 12
  ZTCode = {10000,20067,30115,40153,50186,300601,530821,10743847}
  ZDCode = {30309,120703,3003705}
  Delivery = "by_prior"
  Passes = "user_table"
  QNum = {8,14}
  QShift = 12
  QDen = {4}
  ENum = {6,12,14}
  EShift = 12
  SNum = {3}
  SDen = {1,10}
  Companies = {"alone", "default", "user"}
  Samplers = {"direct", "nestle", "multinest", "polychord", "dypolychord"}
  SamplerCompanies = {"user"}
  SamplerRoutes = {"set_prior", "default"}
  Cube = "exact"
  Export = TRUE
INVARIANT ZOk
INVARIANT DeliveryInv
INVARIANT SamplerInv
INVARIANT RouteInv
INVARIANT DefaultSpaceInv
INVARIANT UserPriorInForceInv
INVARIANT DefaultOnlyWhenNoneInv
INVARIANT OwnerInv
INVARIANT FitsInv
CONSTRAINT Emit
CHECK_DEADLOCK FALSE
