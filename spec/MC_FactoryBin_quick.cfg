SPECIFICATION Spec
CONSTANTS
  NTriples = 2
  Accurates = {"", "True", "False"}
  Spells = {"lower", "cap"}
  ObsOverridesNative = FALSE
  WlGridLinearInWn = FALSE
INVARIANT WrittenBinTypeWins
INVARIANT DefaultBinning
INVARIANT ObservedNeedsObservation
INVARIANT GridAsDocumented
INVARIANT AccurateSelectsBinner
INVARIANT InstrumentGridDocumented
INVARIANT GridFits
CONSTRAINT Emit
CHECK_DEADLOCK FALSE
