SPECIFICATION TSpec
CONSTANTS
  Kind = "xsec"
  Paths = {"p1","p2"}
  Mols = {"A","B"}
  Modes = {"linear","exp"}
  Disk <- TDisk
  ClearOnModeChange = TRUE
  DiscoverPassesMode = TRUE
  StoreOnLoad = TRUE
INVARIANT LoadedOncePerEpoch
INVARIANT ModeTakesEffect
INVARIANT TableFromItsPath
POSTCONDITION Accepted
CHECK_DEADLOCK FALSE
