SPECIFICATION Spec
CONSTANTS
  UN = 16
  Ordering = "minmax"
  ZS = 100
  Z <- MCZ
  TK = {5,30,53,1074}
  HiMax = 53
  ZTS = 100
  TD = {3,12,300}
  HiDecMax = 12
  ZTCode = {10000,20067,30115,40153,50186,300601,530821,10743847}
  ZDCode = {30309,120703,3003705}
  Delivery = "by_prior"
  Passes = "user_table"
  QNum = {8,14}
  QShift = 12
  QDen = {4}
  SNum = {3}
  SDen = {10}
  EShift = 12
  ENum = {10,15}
  UserIdx = {2,4}
  Conts = {"tuple","list","ndarray","ndarray_readonly"}
  OConts = {"ndarray"}
  Spells = {1,3}
  FocusOwners = {"model"}
  CompOwners = {"observation"}
  MaxCompiles = 2
  ModeWeight = 1
  AgainWeight = 1
  Depth = 0
  Export = FALSE
  Defaults = "from_settings"
  ModeText = "as_typed"
  Args = "read_only"
INVARIANT ModeSpellingInv
CONSTRAINT Bound
CONSTRAINT Emit
CHECK_DEADLOCK FALSE
