SPECIFICATION Spec
CONSTANTS
  NL = 3
  NW = 2
  NT = 3
  ECodes = {0, 1, 100, 101, 15, 1500, 1515, 1501, 115, 103, 301, 1503}
  TCodes = {111,112,113,121,122,123,131,132,133,211,212,213,221,222,223,231,232,233,311,312,313,321,322,323,331,332,333}
  QuadIds = {2}
  ClampE = 15
  SlackE = 14
  Variant = "code"
  Btab <- MCBtab
  Bstar <- MCBstar
  TabId = 1
  Rp = 2
  Rs = 5
  Dist = 3
  KD = 2
  Export = FALSE
  InterpIds = {}
INVARIANT TelescopingPartial
INVARIANT Telescoping
INVARIANT CoefNonNeg
INVARIANT OwnTemperaturesOnly
INVARIANT PerLayerSource
INVARIANT IsothermalIdentity
INVARIANT HotColdBounds
INVARIANT FluxIdentityIffWeights
INVARIANT FluxBounds
INVARIANT EclipseIsothermalRatio
INVARIANT EclipseBounds
INVARIANT DirectProportional
INVARIANT FitsInv
INVARIANT FluxIsothermalIdentity
CONSTRAINT Emit
CHECK_DEADLOCK FALSE
