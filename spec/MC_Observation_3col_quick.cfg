SPECIFICATION Spec
CONSTANTS
  WLS = {4,6,9}
  NMin = 2
  NMax = 3
  NCol = 3
  Vals = {1,2}
  RowMode = "all"
  Variant = "ok"
  Export = FALSE
INVARIANT PermutationInvariant
INVARIANT RowsTogether
INVARIANT AscendingInv
INVARIANT EdgesInv
INVARIANT BinnerInv
INVARIANT FitsInv
INVARIANT RoutesAgree
CONSTRAINT Emit
CHECK_DEADLOCK FALSE
