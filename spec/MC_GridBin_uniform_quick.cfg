SPECIFICATION Spec
CONSTANTS
  Starts = {0,1,2}
  Gaps = {1,2,3,4}
  PMax = 36
  MaxLen = 40
  ObsPos = {10,12,16,20,22}
  ObsCard = {2,3}
  ObsW2 = {7}
  Cond = "uniform"
  Export = FALSE
INVARIANT BinningCommutes
INVARIANT NeededRetained
INVARIANT ClipContiguous
INVARIANT FitsInv
CONSTRAINT Prune
CONSTRAINT Emit
CHECK_DEADLOCK FALSE
