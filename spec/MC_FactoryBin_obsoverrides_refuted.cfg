SPECIFICATION Spec
CONSTANTS
  NTriples = 1
  Accurates = {""}
  Spells = {"lower"}
  ObsOverridesNative = TRUE
  WlGridLinearInWn = FALSE
INVARIANT WrittenBinTypeWins
CHECK_DEADLOCK FALSE
