SPECIFICATION Spec
CONSTANTS
  N = 4
  NMin = 4
  D = 1
  Vals = {0,1,2,3}
  Wts = {0,1,2}
  Totals <- MCTotalsBig
  Export = TRUE
INVARIANT QuantilesOrdered
INVARIANT QuantilesWithinRange
INVARIANT QuantilesExist
INVARIANT MapIsASample
INVARIANT MeanWithinRange
INVARIANT TraceUnchanged
INVARIANT PointMass
INVARIANT ScaleFree
INVARIANT TotalFree
INVARIANT FitsInv
INVARIANT OrderReductionSound
CONSTRAINT Emit
CHECK_DEADLOCK FALSE
