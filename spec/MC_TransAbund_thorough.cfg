SPECIFICATION Spec
CONSTANTS
  NL = 3
  AbExps = {0, 1, 2, 3, 4, 5, 6, 7, 8, 9, 10, 11, 12, 13, 14, 15, 16, 17, 18, 19}
  AbOrd = 4
  Floors = {1, 3, 6, 9, 12, 15, 18, 19}
  Xs = {1, 2, 3}
  Mant = 5
  Export = TRUE
CONSTRAINT Emit
CHECK_DEADLOCK FALSE
INVARIANT MagnitudeFree
INVARIANT FloorBlind
INVARIANT EveryLayerCounts
INVARIANT Fits
INVARIANT RefuteFloor
