-------------------------- MODULE EX_GridHistory --------------------------
(* Binding C of GridHistory: behaviours of the memo-free design (sequences of evaluations of ONE model object over  *)
(* the window alphabet of MC_GridHistory) with the grid every evaluation must return; the values it must return are *)
(* those of the full native computation at these points (EvalEqualsFull).                                            *)
EXTENDS MC_GridHistory
CONSTANTS XMax, XShape
\* ---- export of behaviours (binding C): sequences of evaluations of ONE object of the memo-free design
VARIABLE hist
XInit == HInit /\ hist = <<>>
XNext == \/ \E w \in HWinIds, e \in HEntries : evald /\ HSet(w, e) /\ UNCHANGED hist
         \/ HEval /\ hist' = Append(hist, [w |-> win, e |-> entry, grid |-> [k \in 1..Len(out') |-> out'[k].wn],
                                            parts |-> parts', refused |-> HFails(win)])
XSpec == XInit /\ [][XNext]_<<hvars, hist>>
\* (a behaviour that ends with a refused request has nothing left to judge)
\* (shape "fullmiddle", quick tier: the sequences of 3 have the full grid through model() in the middle of two requests
\* that an under-keyed memo confuses -- the ones the quick tier replays)
XCollide == XSameSize \cup XSameFirst \cup XSameEnds
XBound == /\ Len(hist) <= XMax /\ ((XShape = "fullmiddle" /\ Len(hist) = 3) => (hist[2].w = 0 /\ hist[2].e = "model"))
          /\ ((XShape = "fullmiddle" /\ Len(hist) = 2 /\ ~evald) =>
                  (hist[2].w = 0 /\ hist[2].e = "model" /\ <<hist[1].w, win>> \in XCollide))
          /\ (Len(hist) = XMax => ~hist[XMax].refused)
\* the native points inside the observation's own range (every restricted evaluation must at least compute these;
\* how much more the clip keeps is the documented margin of Grid!GClip, which the statement does not prescribe)
XInner(w) == IF ~HWins[w].cut THEN <<1, Len(HNat)>>
             ELSE LET oc == HWins[w].oc
                      I  == {i \in 1..Len(HNat) : HNat[i] >= oc[1] /\ HNat[i] <= oc[Len(oc)]}
                  IN  IF I = {} THEN <<0, 0>> ELSE <<GSetMin(I), GSetMax(I)>>
XEmit == /\ (hist = <<>> /\ win = 0 /\ entry = "model") =>
              PrintT(<<"ALPHA", ToJson([alphabet |-> Alphabet, nat |-> HNat, mol |-> HMol, wins |-> HWins,
                                        clips |-> [w \in 1..Len(HWins) |-> <<HLo(w), HHi(w)>>],
                                        inner |-> [w \in 1..Len(HWins) |-> XInner(w)],
                                        refused |-> {w \in HWinIds : HFails(w)},
                                        contribs |-> [i \in DOMAIN HContribs |-> [name |-> HContribs[i], comps |-> HComps(HContribs[i])]],
                                        parts |-> [e \in HEntries |-> HPartsOf(e, HAllContribs)],
                                        samesize |-> XSameSize, samefirst |-> XSameFirst, sameends |-> XSameEnds])>>)
         /\ (evald /\ ~hist[Len(hist)].refused /\ (Len(hist) = XMax \/ (XShape = "fullmiddle" /\ Len(hist) = 2 /\ ~(hist[2].w = 0 /\ hist[2].e = "model")))) =>
              PrintT(<<"BEH", ToJson([alphabet |-> Alphabet, evals |-> hist])>>)
=============================================================================
