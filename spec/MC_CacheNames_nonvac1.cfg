SPECIFICATION Spec
CONSTANTS
  Paths = {"p1","p2"}
  Mols = {"A","B","C"}
  Disk <- MCDisk
  Sub <- MCSub
  SubstringFilter = FALSE
  Depth = 8
  Hist = FALSE
CONSTRAINT Cons
CHECK_DEADLOCK FALSE
VIEW View
INVARIANT NeverStalePathServed
