------------------------- MODULE Trace_OpacityCache -------------------------
(* C14, binding B: seeded random walks on the REAL singleton caches, one event  *)
(* per action: [tid, act, arg, res, oid, dict] where oid / dict are the          *)
(* harness's projection of the real cache after the action (objects numbered in  *)
(* order of first appearance).  The trace spec drives the OpacityCache actions   *)
(* with the logged arguments and requires result and projected state to be the   *)
(* logged ones.  A "Reset" event starts a new trace (fresh process state).        *)
(* Stateful: validation stops at the first mismatch; the last <<"AT", l>> line    *)
(* identifies it.                                                                 *)
EXTENDS OpacityCache, IOUtils, TLCExt
VARIABLE l
TraceLog == ndJsonDeserialize(IOEnv.TRACE_FILE)

TDisk(p, m) == IF p = "p1" THEN (IF m = "A" THEN 1 ELSE 2)
               ELSE IF p = "p2" /\ m = "A" THEN 3 ELSE 0

Reset == /\ path' = NoPath /\ interp' = Unset /\ mem' = Unset
         /\ dict' = Empty /\ loads' = Zero /\ nextId' = 1 /\ hist' = <<>>

Matches(e) == LET h == hist'[Len(hist')] IN
    h.res = e.res /\ h.oid = e.oid /\ h.dict = e.dict

TInit == Init /\ l = 1
TStep == /\ l <= Len(TraceLog)
         /\ LET e == TraceLog[l] IN
              IF e.act = "Reset" THEN Reset
              ELSE /\ CASE e.act = "SetPath"          -> SetPath(e.arg)
                        [] e.act = "SetInterpolation" -> SetInterpolation(e.arg)
                        [] e.act = "SetMemoryMode"    -> SetMemoryMode(e.arg)
                        [] e.act = "Get"              -> Get(e.arg)
                        [] e.act = "AddOpacity"       -> AddOpacity(e.arg)
                        [] e.act = "Clear"            -> Clear
                   /\ Matches(e)
         /\ PrintT(<<"AT", ToJson([l |-> l])>>)
         /\ l' = l + 1
TSpec == TInit /\ [][TStep]_<<vars, l>>
Accepted == TLCGet("stats").diameter - 1 = Len(TraceLog)
=============================================================================
