SPECIFICATION MSpec
CONSTANTS
  TB <- MCTB
  Grids <- MCGrids
  NGrids = 2
  Kinds = {"flux", "simple"}
  Muts = {"outbuffer"}
  Ords = {"asc", "desc", "mixed"}
  Depth = 0
  Export = "none"
INVARIANT RefuteOutBuffer
CHECK_DEADLOCK FALSE
