SPECIFICATION Spec
CONSTANTS
  Owners = 1
  NV = 2
  NL = 2
  Skip = "same"
  Frozen = TRUE
INVARIANT TypeOK
INVARIANT ObservedIsCurrent
CHECK_DEADLOCK FALSE
