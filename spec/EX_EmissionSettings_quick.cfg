SPECIFICATION SSpec
CONSTANTS
  NV = 2
  NC = 2
  NR = 1
  Modes = {"xsec", "ktables"}
  RpRoutes = {"param", "attr"}
  Entries = {"model"}
  PhysSet = {"rp", "ts", "dist"}
  Record = TRUE
  MaxSets = 2
  SVariant = "code"
INVARIANT EvalUsesCurrent
INVARIANT RuleIsLastAskedFor
INVARIANT TypeOk
CONSTRAINT SEmit
CHECK_DEADLOCK FALSE
