-------------------------------- MODULE Dec --------------------------------
(***************************************************************************)
(* Exact non-negative decimal arithmetic of unbounded size for TLC.        *)
(*                                                                         *)
(* TLC integers are 32-bit, so a product of two 9-digit observations does  *)
(* not fit.  Trace specifications that must check *multiplicative*         *)
(* relations between observed floating-point values (hydrostatic step,     *)
(* geometric mean, ideal gas) to 1e-7 use this module instead of scaled    *)
(* 32-bit integers:                                                        *)
(*                                                                         *)
(*   Big  : little-endian sequence of limbs in base 10^4 (<<>> is zero)    *)
(*   Dec  : <<big, e>>  with value  big * 10^e   (e any integer)           *)
(*   Obs  : <<m, e>> as logged by the harness, 0 <= m < 2^30, value m*10^e *)
(*          (m < 0 encodes NaN / Inf / negative / absent: never accepted)  *)
(*                                                                         *)
(* Only +, * and <= are provided (no subtraction, no division): relations  *)
(* are stated in cross-multiplied form, tolerances as                      *)
(*   x ~ y  (ppb)  ==  x*10^9 <= y*(10^9+ppb) /\ y*10^9 <= x*(10^9+ppb).   *)
(* Limb sums stay below 2^31 for operands of up to 20 limbs (80 digits).   *)
(***************************************************************************)
EXTENDS Integers, Sequences

LB == 10000

RECURSIVE BOf(_)
BOf(n) == IF n = 0 THEN <<>> ELSE <<n % LB>> \o BOf(n \div LB)

BLimb(a, i) == IF i <= Len(a) THEN a[i] ELSE 0

\* carry propagation over limbs that may exceed LB
RECURSIVE BCarry(_, _)
BCarry(s, c) == IF s = <<>>
                THEN (IF c = 0 THEN <<>> ELSE <<c % LB>> \o BCarry(<<>>, c \div LB))
                ELSE LET v == Head(s) + c IN <<v % LB>> \o BCarry(Tail(s), v \div LB)

BMaxI(a, b) == IF a >= b THEN a ELSE b
BMinI(a, b) == IF a <= b THEN a ELSE b

BAdd(a, b) == BCarry([i \in 1..BMaxI(Len(a), Len(b)) |-> BLimb(a, i) + BLimb(b, i)], 0)

\* sum_{i = lo..hi} a[i] * b[k + 1 - i]
RECURSIVE BConv(_, _, _, _, _)
BConv(a, b, k, lo, hi) == IF lo > hi THEN 0 ELSE a[lo] * b[k + 1 - lo] + BConv(a, b, k, lo + 1, hi)

BMul(a, b) == IF a = <<>> \/ b = <<>> THEN <<>>
              ELSE BCarry([k \in 1..(Len(a) + Len(b) - 1) |->
                              BConv(a, b, k, BMaxI(1, k + 1 - Len(b)), BMinI(k, Len(a)))], 0)

RECURSIVE BCmpFrom(_, _, _)
BCmpFrom(a, b, i) == IF i = 0 THEN 0
                     ELSE IF BLimb(a, i) < BLimb(b, i) THEN -1
                     ELSE IF BLimb(a, i) > BLimb(b, i) THEN 1
                     ELSE BCmpFrom(a, b, i - 1)
BCmp(a, b) == BCmpFrom(a, b, BMaxI(Len(a), Len(b)))
BLe(a, b) == BCmp(a, b) <= 0
BLt(a, b) == BCmp(a, b) < 0
BIsZero(a) == BCmp(a, <<>>) = 0

\* a * 10^k, k >= 0
P10(r) == IF r = 0 THEN 1 ELSE IF r = 1 THEN 10 ELSE IF r = 2 THEN 100 ELSE 1000
BShift(a, k) == IF a = <<>> THEN <<>>
                ELSE LET q == k \div 4
                         r == k % 4
                         s == IF r = 0 THEN a ELSE BCarry([i \in 1..Len(a) |-> a[i] * P10(r)], 0)
                     IN  [i \in 1..q |-> 0] \o s

\* ------------------------------------------------------------------ Dec
DOf(o)      == <<BOf(o[1]), o[2]>>          \* from a logged observation <<m, e>>, m >= 0
DInt(n)     == <<BOf(n), 0>>
DMul(x, y)  == <<BMul(x[1], y[1]), x[2] + y[2]>>
DAlign(x, e) == BShift(x[1], x[2] - e)       \* requires e <= x[2]
DAdd(x, y)  == LET e == BMinI(x[2], y[2]) IN <<BAdd(DAlign(x, e), DAlign(y, e)), e>>
DLe(x, y)   == LET e == BMinI(x[2], y[2]) IN BLe(DAlign(x, e), DAlign(y, e))
DLt(x, y)   == LET e == BMinI(x[2], y[2]) IN BLt(DAlign(x, e), DAlign(y, e))
DIsZero(x)  == BIsZero(x[1])
Giga        == DInt(1000000000)
\* relative agreement within ppb parts per 10^9 (both non-negative)
DClose(x, y, ppb) == LET f == DInt(1000000000 + ppb)
                     IN  DLe(DMul(x, Giga), DMul(y, f)) /\ DLe(DMul(y, Giga), DMul(x, f))

ObsOk(o)    == o[1] >= 0                     \* a finite non-negative observation
ObsPos(o)   == o[1] > 0
\* guard against absurd exponent spreads (alignment would build huge numbers)
ObsSane(o)  == o[2] >= -60 /\ o[2] <= 60
=============================================================================
