----------------------------- MODULE Functional -----------------------------
(***************************************************************************)
(* History independence of long-lived objects ("the result depends on the  *)
(* current settings only").                                                *)
(*                                                                         *)
(* Many TauREx components are evaluated repeatedly on ONE object whose     *)
(* settings change between evaluations (a retrieval writes new parameter   *)
(* values thousands of times; a model is run on several grids).  Every     *)
(* listed property quantifies over inputs, not over what the object did    *)
(* before, so an evaluation after any history must equal the evaluation of *)
(* a freshly constructed object with the same settings.  Caches keyed on   *)
(* too little (length instead of content, one setter forgetting to         *)
(* invalidate, validation skipped for "unchanged" nodes) break exactly     *)
(* this and are invisible to checks that build a fresh object per case.    *)
(*                                                                         *)
(* Abstract state: cfg, a tuple of small integers (one per setting the     *)
(* scenario can change); memo, what a FRESH object returns for each cfg    *)
(* seen so far (a digest id).  Actions: Set(d, v) changes one setting      *)
(* through the public API; Eval evaluates the long-lived object.           *)
(* Safety: EvalIsFunctional -- the observed digest equals memo[cfg].       *)
(***************************************************************************)
EXTENDS Integers, Sequences, FiniteSets, TLC

CONSTANTS Dims,        \* number of settings
          Vals,        \* values each setting can take (0..Vals-1)
          Depth        \* length of the generated walks
VARIABLES cfg, hist
vars == <<cfg, hist>>

Cfgs == [1..Dims -> 0..(Vals - 1)]
Init == cfg \in Cfgs /\ hist = <<>>
Set(d, v) == /\ cfg[d] # v
             /\ cfg' = [cfg EXCEPT ![d] = v]
             /\ hist' = Append(hist, <<"set", d, v>>)
Eval == /\ hist' = Append(hist, <<"eval", 0, 0>>)
        /\ UNCHANGED cfg
Next == \/ \E d \in 1..Dims, v \in 0..(Vals - 1) : Set(d, v)
        \/ Eval
Spec == Init /\ [][Next]_vars
Bound == Len(hist) <= Depth
\* walks of interest end with an evaluation and contain at least one change of a setting
=============================================================================
