SPECIFICATION Spec
CONSTANTS
  KeysTop = {"a","b"}
  KeysNested = {"a"}
  Depth = 3
  Export = TRUE
  Catalogue = "strings"
  SizeTest = "order"
  Caught = {"TypeError","ValueError"}
INVARIANT RoundTrip
INVARIANT NoError
INVARIANT SizeArith
INVARIANT SizeFirm
CONSTRAINT Emit
CHECK_DEADLOCK FALSE
