SPECIFICATION Spec
CONSTANTS
  NMax = 3
  L0s = {0,12,14,15,16}
  Spacings = {2,4}
  BStep = 1
  Below = 4
  Writers = {"setter","param"}
  Design = "spec"
  CapPos = 12
  MaxWrites = 3
  Export = TRUE
INVARIANT OpaqueSetIsDeclared
INVARIANT BelowBottomIsNoCloud
CONSTRAINT Emit
CHECK_DEADLOCK FALSE
