----------------------------- MODULE Trace_Priors -----------------------------
(* C08, binding B: every event is a pair of real calls prior.sample(u1), prior.sample(u2)  *)
(* on a prior built from exactly representable arguments (dyadic rationals, u = j/UD).     *)
(*   e = [id, kind, a, b, j1, j2, UD, S, m1, m2, tol, gtol, bad]  a, b = [n, d];  m = round(sample*S) *)
(* TLC re-evaluates the specification on the logged arguments:                              *)
(*   uniform kinds : the sample is lo + u (hi - lo)   (scaled comparison, tol units)        *)
(*   gaussian kinds: the sample lies in the bracket given by the monotone table Z, is       *)
(*                   symmetric about the mean (j2 = UD - j1 pairs) and monotone in u        *)
(* e.op = "tail": the same pair of calls at two points of the tail ladder (u = 2^-k1 / 1 - 2^-k1, ...):  *)
(*   [.., s1, b1, k1, s2, b2, k2, ..] (b = base 2 or 10); gaussian kinds within gtol of the ladder table, strictly monotone,       *)
(*   binary mirror pairs sum to 2 mean; uniform kinds exact for 2^-k >= 2^-10, else in [lo, lo + w/2^10] *)
(* e.op = "deliver": one real Optimizer.update_model([prior.sample(j1/UD)]) on a parameter in e.mode   *)
(*   with that prior attached; lin = round(received*S), log = round(log10(received)*S) (has* = the      *)
(*   reading exists); the reading named by Deliver(prior, mode, .) must be the specification's sample.  *)
(*   The parameter is owned by e.owner (model / observation); e.given = FALSE: nothing was attached, a, b *)
(*   are the parameter's bounds and the prior is the default of its mode (InForce).                      *)
(*   e.mtext: the spelling in which the mode was given ("": never given, the declared mode holds), e.cont: the      *)
(*   container of the bounds object, e.pre: the number of compiles the optimizer had been through before, under      *)
(*   other settings (the opposite mode, other bounds, no prior yet) -- the prior in force is InForce of the            *)
(*   settings at the time of the last compile, whatever came before (MC_PriorHistory.tla: HistoryInv).               *)
(* Stateless stream: the step always advances, rejected events are printed as <<"BAD",..>>. *)
EXTENDS Priors, IOUtils, TLCExt
VARIABLE l
TraceLog == ndJsonDeserialize(IOEnv.TRACE_FILE)
MCZ == ndJsonDeserialize(IOEnv.PRIORS_Z_FILE)[1].z

Rq(x) == R(x[1], x[2])
\* grid cell of u = j/UD on the Z grid: floor and ceiling of u * UN
CellLo(j, UD) == (j * UN) \div UD
CellHi(j, UD) == ((j * UN) + UD - 1) \div UD
\* bracket of the gaussian sample by the table values at the two neighbouring grid points (open at the ends)
InBracket(m, S, p, j, UD, tol) ==
    /\ CellLo(j, UD) >= 1      => m * Sample(p, CellLo(j, UD))[2] >= Sample(p, CellLo(j, UD))[1] * S - tol * Sample(p, CellLo(j, UD))[2]
    /\ CellHi(j, UD) <= UN - 1 => m * Sample(p, CellHi(j, UD))[2] <= Sample(p, CellHi(j, UD))[1] * S + tol * Sample(p, CellHi(j, UD))[2]
\* m = round(x*S) is >= r - tol/S   /   <= r + tol/S     (one extra unit for the rounding of the table)
GeS(m, S, r, tol) == m * r[2] >= r[1] * S - tol * r[2]
LeS(m, S, r, tol) == m * r[2] <= r[1] * S + tol * r[2]

WhyPair(e) ==
    LET p  == [kind |-> e.kind, a |-> Rq(e.a), b |-> Rq(e.b)]
        u1 == R(e.j1, e.UD)   u2 == R(e.j2, e.UD)
    IN  IF e.bad THEN "finite_in_support"        \* NaN / infinite / far outside every support: nothing else is evaluated
        ELSE IF e.j1 < e.j2 /\ ~(e.m1 <= e.m2) THEN "monotone"
        ELSE IF e.j1 > e.j2 /\ ~(e.m1 >= e.m2) THEN "monotone"
        ELSE IF p.kind \in UniKinds THEN
             IF ~(Close(e.m1, e.S, RAdd(p.a, RMul(u1, RSub(p.b, p.a))), e.tol)
                  /\ Close(e.m2, e.S, RAdd(p.a, RMul(u2, RSub(p.b, p.a))), e.tol)) THEN "inverse_cdf_uniform"
             ELSE IF ~(GeS(e.m1, e.S, p.a, e.tol) /\ LeS(e.m1, e.S, p.b, e.tol)) THEN "onto_support"
             ELSE "ok"
        ELSE IF ~(InBracket(e.m1, e.S, p, e.j1, e.UD, e.gtol) /\ InBracket(e.m2, e.S, p, e.j2, e.UD, e.gtol))
             THEN "inverse_cdf_gaussian"
        ELSE IF e.j2 = e.UD - e.j1 /\ ~Close(e.m1 + e.m2, e.S, RMul(Q(2), p.a), 2 * e.tol) THEN "gaussian_symmetric"
        ELSE "ok"

\* ---- tail ladder
UniTailOk(m, S, p, pt, tol) ==
    LET w == RSub(p.b, p.a)
        small == IF pt.base = 2 THEN pt.k <= 10 ELSE pt.k <= 3
        eps == RDiv(w, Q(Pow(pt.base, IF small THEN pt.k ELSE IF pt.base = 2 THEN 10 ELSE 3)))
    IN  IF small THEN Close(m, S, IF pt.side = "lo" THEN RAdd(p.a, eps) ELSE RSub(p.b, eps), tol)
        ELSE IF pt.side = "lo" THEN GeS(m, S, p.a, tol) /\ LeS(m, S, RAdd(p.a, eps), tol)
        ELSE GeS(m, S, RSub(p.b, eps), tol) /\ LeS(m, S, p.b, tol)
WhyTail(e) ==
    LET p   == [kind |-> e.kind, a |-> Rq(e.a), b |-> Rq(e.b)]
        pt1 == [side |-> e.s1, base |-> e.b1, k |-> e.k1]
        pt2 == [side |-> e.s2, base |-> e.b2, k |-> e.k2]
        uni == p.kind \in UniKinds
    IN  IF ~(IsTailPt(pt1) /\ IsTailPt(pt2)) THEN "tail_unknown_point"
        ELSE IF e.bad THEN "tail_finite"
        ELSE IF PtLt(pt1, pt2) /\ ~(IF uni THEN e.m1 <= e.m2 ELSE e.m1 < e.m2) THEN "tail_monotone"
        ELSE IF PtLt(pt2, pt1) /\ ~(IF uni THEN e.m1 >= e.m2 ELSE e.m1 > e.m2) THEN "tail_monotone"
        ELSE IF uni THEN
             IF UniTailOk(e.m1, e.S, p, pt1, e.tol) /\ UniTailOk(e.m2, e.S, p, pt2, e.tol) THEN "ok"
             ELSE "tail_inverse_cdf_uniform"
        ELSE IF ~(Close(e.m1, e.S, TailSample(p, pt1), e.gtol) /\ Close(e.m2, e.S, TailSample(p, pt2), e.gtol))
             THEN "tail_inverse_cdf_gaussian"
        ELSE IF e.k1 = e.k2 /\ e.b1 = 2 /\ e.b2 = 2 /\ e.s1 # e.s2 /\ ~Close(e.m1 + e.m2, e.S, RMul(Q(2), p.a), 2 * e.tol) THEN "tail_symmetric"
        ELSE "ok"
\* ---- delivery through update_model
\* e.owner owns the parameter (e.company: what else is fitted, on the other owner); e.given: the user attached the prior
\* kind(a, b); otherwise a, b are the parameter's bounds (exponents of ten for a log-mode parameter) and nothing was
\* attached.  The prior in force is InForce(owner, ..) of Priors.tla, for either owner.
WhyDeliver(e) ==
    LET up   == IF e.given THEN [kind |-> e.kind, a |-> Rq(e.a), b |-> Rq(e.b)] ELSE NoPrior
        bd   == IF e.mode = "log" THEN <<e.a[1], e.b[1]>> ELSE <<Rq(e.a), Rq(e.b)>>      \* read only when nothing was attached
        p    == InForce(e.owner, up, e.mode, bd)
        u1   == R(e.j1, e.UD)
        want == Deliver(p, e.mode, Q(0)).sp
        has  == IF want = "pow10" THEN e.hasg ELSE e.hasl
        m    == IF want = "pow10" THEN e.log ELSE e.lin
        bad  == IF e.owner = "model" THEN "delivered_to_model" ELSE "delivered_to_observation"
    IN  IF e.owner \notin Owners \/ (~e.given /\ e.mode = "log" /\ ~(e.a[2] = 1 /\ e.b[2] = 1)) THEN "unknown_op"
        ELSE IF e.mtext # "" /\ ModeLookup(e.mtext) # e.mode THEN "unknown_op"     \* the text must name the mode of the event
        ELSE IF ~has THEN bad
        ELSE IF p.kind \in UniKinds
             THEN IF Close(m, e.S, RAdd(p.a, RMul(u1, RSub(p.b, p.a))), e.tol) THEN "ok" ELSE bad
        ELSE IF InBracket(m, e.S, p, e.j1, e.UD, e.gtol) THEN "ok" ELSE bad

Why(e) == CASE e.op = "pair" -> WhyPair(e)
            [] e.op = "tail" -> WhyTail(e)
            [] e.op = "deliver" -> WhyDeliver(e)
            [] OTHER -> "unknown_op"

Init == l = 1
Step == /\ l <= Len(TraceLog)
        /\ LET e == TraceLog[l] w == Why(e) IN
             IF w = "ok" THEN TRUE ELSE PrintT(<<"BAD", ToJson([l |-> l, id |-> e.id, why |-> w])>>)
        /\ l' = l + 1
TSpec == Init /\ [][Step]_l
Accepted == TLCGet("stats").diameter - 1 = Len(TraceLog)
=============================================================================
