------------------------- MODULE Trace_GridHistory -------------------------
(* C13 over histories, binding B.  One event = one evaluation model(wngrid = oc, cutoff_grid = cut) of a LONG-LIVED   *)
(* (or freshly built) real forward model whose native grid is `nat` (integer wavenumbers), after whatever the object  *)
(* did before.  Logged: the index range lo..hi of the returned grid within the native grid (lo = -1: not a contiguous *)
(* part of it), the number n of returned points, gdev (largest deviation of a returned wavenumber from nat[lo..hi]),  *)
(* dev / tdev (largest deviation of the returned spectrum / layer array from the FULL native computation of a freshly *)
(* built model at these points, units of 1e-13, relative / absolute), and the index range plo..phi the SAME object    *)
(* computed in its previous evaluation (0, 0: none), and the range flo..fhi a FRESHLY built model returns for the      *)
(* same request.  TLC checks                                                                                          *)
(*   clip   the computed grid is a contiguous part of the native grid covering the observation's own range (the       *)
(*          native grid when no grid is passed or cutoff_grid = False)                                                *)
(*   grid-depends-on-history   it is the grid a fresh model computes for the CURRENT request                          *)
(*   value  the values are those of the full native computation at these points -- GridHistory!EvalEqualsFull         *)
(* reports whether it is exactly the documented clip Grid!GClip of the request (GridHistory!OnClippedGrid; the        *)
(* statement does not prescribe the margin, so this is a note, not a verdict), and classifies the event by what an    *)
(* under-keyed memo of GridHistory.tla would confuse it with.                                                         *)
(* Round 3: the request goes through the entry point `entry` (model / contrib = model_contrib / full =                *)
(* model_full_contrib; `pentry` the entry point of the same object's previous evaluation, "" none); `struct` is the   *)
(* contribution list of the model as built (component sets in the numbering of GridHistory!HComps), `got` the         *)
(* component sets of the spectra returned.  dev / tdev are the worst over ALL returned spectra, each against the same  *)
(* spectrum of the full native computation.  TLC also checks                                                          *)
(*   spectra  the returned spectra are those GridHistory!HPartsOf names for the entry point and the contribution list *)
(*            AS BUILT (not as a previous per-component evaluation may have left it)                                  *)
(* and classifies the event by the change of entry point.                                                             *)
EXTENDS Grid, IOUtils, TLCExt
VARIABLE l
TraceLog == ndJsonDeserialize(IOEnv.TRACE_FILE)

Full(e)  == Len(e.oc) = 0 \/ e.cut = 0
\* the documented clip (Grid!GClip: observation range plus the widest mid-point width on either side)
ExpLo(e) == IF Full(e) THEN 1 ELSE GClipLo(e.nat, e.oc)
ExpHi(e) == IF Full(e) THEN Len(e.nat) ELSE GClipHi(e.nat, e.oc)
Exact(e) == e.lo = ExpLo(e) /\ e.hi = ExpHi(e)
\* native points inside the observation's own range
Inner(e) == {i \in 1..Len(e.nat) : e.nat[i] >= e.oc[1] /\ e.nat[i] <= e.oc[Len(e.oc)]}
\* what the statement requires of the computed grid: a contiguous part of the native grid that covers the
\* observation's range (the whole native grid when no grid is passed or cutoff_grid = False) ...
ClipOk(e) == /\ e.lo >= 1 /\ e.hi <= Len(e.nat) /\ e.lo <= e.hi /\ e.n = e.hi - e.lo + 1 /\ e.gdev = 0
             /\ IF Full(e) THEN e.lo = 1 /\ e.hi = Len(e.nat)
                ELSE \A i \in Inner(e) : e.lo <= i /\ i <= e.hi
\* ... that depends on the CURRENT request only: the grid a freshly built model returns for it
GridOk(e) == e.lo = e.flo /\ e.hi = e.fhi
ValueOk(e) == e.dev >= 0 /\ e.dev <= e.tol /\ e.tdev >= 0 /\ e.tdev <= e.tol
\* GridHistory!HPartsOf over the contribution list as built
SeqSet(q) == {q[i] : i \in DOMAIN q}
Struct(e) == {SeqSet(e.struct[i]) : i \in DOMAIN e.struct}
WantParts(e) == CASE e.entry = "model"   -> {UNION Struct(e)}
                  [] e.entry = "contrib" -> Struct(e)
                  [] OTHER                -> {{k} : k \in UNION Struct(e)}
PartsOk(e) == {SeqSet(e.got[i]) : i \in DOMAIN e.got} = WantParts(e)
EntryClass(e) == IF e.pentry = "" THEN "first"
                 ELSE IF e.pentry = e.entry THEN "same-entry-point"
                 ELSE IF e.entry = "model" THEN "model-after-per-component"
                 ELSE IF e.pentry = "model" THEN "per-component-after-model"
                 ELSE "per-component-after-other"

Class(e) == IF e.plo = 0 THEN "first-evaluation"
            ELSE IF e.plo = e.flo /\ e.phi = e.fhi THEN "same-grid-again"
            ELSE IF e.phi - e.plo = e.fhi - e.flo THEN "same-size-elsewhere"
            ELSE IF e.plo = e.flo THEN "same-start-other-length"
            ELSE IF e.plo = 1 /\ e.phi = Len(e.nat) THEN "after-full-grid"
            ELSE IF Full(e) THEN "full-after-window"
            ELSE "other-window"

Bad(e, why) == PrintT(<<"BAD", ToJson([id |-> e.id, why |-> why])>>)
Init == l = 1
Step == /\ l <= Len(TraceLog)
        /\ LET e == TraceLog[l] IN
               /\ PrintT(<<"CLS", ToJson([id |-> e.id, cls |-> Class(e), ecls |-> EntryClass(e), exact |-> Exact(e)])>>)
               /\ IF ClipOk(e) THEN TRUE ELSE Bad(e, "clip")
               /\ IF GridOk(e) THEN TRUE ELSE Bad(e, "grid-depends-on-history")
               /\ IF ValueOk(e) THEN TRUE ELSE Bad(e, "value")
               /\ IF PartsOk(e) THEN TRUE ELSE Bad(e, "spectra")
        /\ l' = l + 1
Spec == Init /\ [][Step]_l
Accepted == TLCGet("stats").diameter - 1 = Len(TraceLog)
=============================================================================
