SPECIFICATION Spec
CONSTANT Caught = {"TypeError","ValueError"}
POSTCONDITION Accepted
CHECK_DEADLOCK FALSE
