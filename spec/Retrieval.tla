------------------------------ MODULE Retrieval ------------------------------
(***************************************************************************)
(* The retrieval loop of Optimizer as a protocol (spec growth, DESIGN 5):  *)
(*   compile_params ; [ sampler callback: chisq_trans = update_model(x) ;  *)
(*   model(obs grid) ; bin ]* ; generate_solution: per solution            *)
(*   update_model(MAP) ; model ; store spectra ; update_model(median) ;    *)
(*   model ; profiles.                                                     *)
(* Parameter vectors are abstracted to identifiers p (equal vectors, equal *)
(* ids).  The guards say that what is returned or stored was computed from *)
(* the vector that was written last:                                       *)
(*   - a likelihood evaluation writes its vector before the model runs,    *)
(*     and a FINITE likelihood was modelled and binned in that evaluation; *)
(*   - spectra and profiles are stored only from a model evaluated after   *)
(*     the last write.                                                     *)
(***************************************************************************)
EXTENDS Integers, Sequences, FiniteSets, TLC

RInit == [compiled |-> FALSE, inlike |-> FALSE, wrote |-> FALSE, modelled |-> FALSE, binned |-> FALSE,
          pcur |-> 0,       \* id of the vector written last (0: none since compile)
          pmodel |-> -1,    \* id of the vector the model was last evaluated at
          nlike |-> 0]

RGuard(e, s) ==
    CASE e.ev = "update"        -> s.compiled
      [] e.ev = "like_begin"    -> s.compiled /\ ~s.inlike
      [] e.ev = "model"         -> s.inlike => s.wrote
      [] e.ev = "bin"           -> s.inlike => s.modelled
      [] e.ev = "like_end"      -> /\ s.inlike /\ s.wrote
                                   /\ (e.finite = 1) => (s.modelled /\ s.binned /\ s.pmodel = s.pcur)
      [] e.ev = "spectra_store" -> s.pcur # 0 /\ s.pmodel = s.pcur
      [] e.ev = "profiles"      -> s.pcur # 0 /\ s.pmodel = s.pcur
      [] OTHER                  -> TRUE
RApply(e, s) ==
    CASE e.ev = "compile"    -> [s EXCEPT !.compiled = TRUE]
      [] e.ev = "like_begin" -> [s EXCEPT !.inlike = TRUE, !.wrote = FALSE, !.modelled = FALSE, !.binned = FALSE,
                                          !.nlike = IF @ < 3 THEN @ + 1 ELSE @]
      [] e.ev = "update"     -> [s EXCEPT !.pcur = e.p, !.wrote = TRUE, !.modelled = FALSE, !.binned = FALSE]
      [] e.ev = "model"      -> [s EXCEPT !.pmodel = s.pcur, !.modelled = TRUE]
      [] e.ev = "bin"        -> [s EXCEPT !.binned = TRUE]
      [] e.ev = "like_end"   -> [s EXCEPT !.inlike = FALSE]
      [] OTHER               -> s
=============================================================================
