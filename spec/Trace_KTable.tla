---------------------------- MODULE Trace_KTable ----------------------------
(* C20, binding B.  Events are projections of real runs in k-table mode and in  *)
(* cross-section mode on the same numbers:                                      *)
(*   wavg   : AbsorptionContribution.contribute on a path with integer optical  *)
(*            depths taus[g] (units of ln 2) and rational weights wts[g]:       *)
(*            the observed transmittance (scaled by S) must be the exact        *)
(*            weighted average  sum_g wts[g] 2^-taus[g]   (module Dyad)         *)
(*   jensen : layer transmittances tk (k-table mode) and tx (cross-section mode *)
(*            on the weight-averaged coefficient): 0 <= tk <= 1, tk >= tx       *)
(*   degen  : degenerate table, a = k-table mode, b = cross-section mode:       *)
(*            equal (slack: licensed clamp excess, in units, 0 if none)         *)
(*   bounds : hot/cold bounds and isothermal identity in k-table mode           *)
(*   twin   : ONE evaluation inside a history walk (spec/KTableHistory.tla) of  *)
(*            a long-lived or fresh k-table object / model and of its cross-    *)
(*            section twin on the same request.  nk, nx: lengths of the two     *)
(*            returned grids (nreq: the number of requested points when the     *)
(*            result must be on exactly those, else 0), gdev: largest           *)
(*            difference of the grids (1e-9 cm-1),                              *)
(*            ng / ngw: quadrature columns returned / weights of the table;     *)
(*            rel = "equal" (degenerate table): dev = largest relative          *)
(*            difference in units of 1e-12, slack = licensed exp(-10) clamp of  *)
(*            the cross-section emission branch in the same units (0 if the     *)
(*            evaluated grid is not saturated everywhere);                      *)
(*            rel = "jensen" (generic table, twin = weight-averaged             *)
(*            coefficient): lo = min(tk - tx), tmin, tmax of tk scaled by S;    *)
(*            ck, cx: the evaluation configuration <<interp, route, extra>> of  *)
(*            spec/KTableHistory.tla the k-table twin and the cross-section     *)
(*            twin were evaluated under: the relation is claimed for twins      *)
(*            under the SAME configuration of the alphabet only;                *)
(*            lk, lx: the contribution lists (spec/KTableHistory.tla: "k" the   *)
(*            molecular absorption, "c1".."c3" continuum contributions, in the  *)
(*            order the model holds them) of the two twins: the relation is     *)
(*            claimed for twins holding the SAME list only                      *)
EXTENDS Integers, Sequences, TLC, Json, IOUtils, TLCExt, Dyad
VARIABLE l
TraceLog == ndJsonDeserialize(IOEnv.TRACE_FILE)
Tol == 2

RECURSIVE TWAvg(_, _, _)
TWAvg(wts, taus, n) == IF n = 0 THEN <<>> ELSE TWAvg(wts, taus, n - 1) \o DPow2(Norm(wts[n][1], wts[n][2]), taus[n])

WavgOk(e) ==
    LET r  == DScale(Q(e.S), TWAvg(e.wts, e.taus, Len(e.wts)))
        m  == DConst(Q(e.m))
        t  == DConst(Q(Tol))
    IN  /\ Len(e.wts) = Len(e.taus) /\ DFits(r)
        /\ DLe(DSub(r, m), t) /\ DLe(DSub(m, r), t)
JensenOk(e) == /\ Len(e.tk) = Len(e.tx)
               /\ \A i \in 1..Len(e.tk) : e.tk[i] >= 0 /\ e.tk[i] <= e.S /\ e.tk[i] >= e.tx[i] - Tol
DegenOk(e)  == /\ Len(e.a) = Len(e.b)
               /\ \A i \in 1..Len(e.a) : Abs(e.a[i] - e.b[i]) <= Tol + e.slack
BoundsOk(e) == e.lo >= e.S - Tol /\ e.hi <= e.S + Tol

TwinTol == 1000
CfgOk(c)  == /\ Len(c) = 3 /\ c[1] \in {"linear", "exp"} /\ c[2] \in {"global", "api", "ctor", "setter"}
             /\ c[3] \in {"none", "stream", "deactive"}
ListOk(L) == /\ Len(L) >= 1 /\ \A i \in 1..Len(L) : L[i] \in {"k", "c1", "c2", "c3"}
             /\ \A i, j \in 1..Len(L) : L[i] = L[j] => i = j
             /\ \E i \in 1..Len(L) : L[i] = "k"
TwinOk(e) == /\ CfgOk(e.ck) /\ e.ck = e.cx
             /\ ListOk(e.lk) /\ e.lk = e.lx
             /\ e.nk = e.nx /\ e.nk > 0 /\ e.gdev = 0 /\ e.ng = e.ngw
             /\ (e.nreq = 0 \/ e.nk = e.nreq)
             /\ CASE e.rel = "equal"  -> e.dev >= 0 /\ e.dev <= TwinTol + e.slack
                  [] e.rel = "jensen" -> e.lo >= 0 - Tol /\ e.tmin >= 0 /\ e.tmax <= e.S
                  [] OTHER -> FALSE

Ok(e) == CASE e.ev = "wavg"   -> WavgOk(e)
           [] e.ev = "jensen" -> JensenOk(e)
           [] e.ev = "degen"  -> DegenOk(e)
           [] e.ev = "bounds" -> BoundsOk(e)
           [] e.ev = "twin"   -> TwinOk(e)
           [] OTHER -> FALSE
Init == l = 1
Step == /\ l <= Len(TraceLog)
        /\ LET e == TraceLog[l] IN
             IF Ok(e) THEN TRUE ELSE PrintT(<<"BAD", ToJson([l |-> l, id |-> e.id, ev |-> e.ev])>>)
        /\ l' = l + 1
Spec == Init /\ [][Step]_l
Accepted == TLCGet("stats").diameter - 1 = Len(TraceLog)
=============================================================================
