---------------------------- MODULE OpacityFiles ----------------------------
(* C14, function-shaped part: unit tags of the opacity / CIA / k-table        *)
(* containers and the molecule-name regular expression.                       *)
EXTENDS Integers, Sequences
\* ------------------------------------------------- unit tags and file names
\* factors are mantissa * 10^exponent, as <<mantissa, exponent>> (TLC integers are 32 bit)
\* file pressure unit -> Pa
PressureFactor(u) == CASE u = "Pa" -> <<1, 0>> [] u = "bar" -> <<1, 5>> [] u = "atm" -> <<101325, 0>>
                       [] u = "mbar" -> <<1, 2>> [] u = "kPa" -> <<1, 3>>
\* stored cross-section -> cm^2 (what xsecGrid holds): pickle/HDF5 store cm^2, Exo-Transmit m^2
XsecFactor(fmt) == IF fmt = "exotransmit" THEN <<1, 4>> ELSE <<1, 0>>
\* HITRAN CIA stores cm^5 molecule^-2; SI (m^5 molecule^-2) = stored * 10^-10
CiaFactor(fmt) == IF fmt = "hitran" THEN <<1, 0 - 10>> ELSE <<1, 0>>
\* Exo-Transmit spectral axis: wavelength in metres; wavenumber (cm^-1) = 10^-2 / wavelength
ExoWavenumberNumerator == <<1, 0 - 2>>

\* a name is a sequence of records [c |-> class, s |-> character]; class in {"U","l","d","x"}
\* re.findall('([A-Z][a-z]?)([0-9]*)', name) joined: an upper-case letter, at most one lower-case letter,
\* any digits; every other character is dropped
RECURSIVE TakeDigits(_, _)
TakeDigits(nm, i) == IF i <= Len(nm) /\ nm[i].c = "d" THEN TakeDigits(nm, i + 1) ELSE i
RECURSIVE SanitiseFrom(_, _)
SanitiseFrom(nm, i) ==
    IF i > Len(nm) THEN <<>>
    ELSE IF nm[i].c = "U"
         THEN LET j == IF i + 1 <= Len(nm) /\ nm[i + 1].c = "l" THEN i + 2 ELSE i + 1
                  k == TakeDigits(nm, j)
              IN  SubSeq(nm, i, k - 1) \o SanitiseFrom(nm, k)
         ELSE SanitiseFrom(nm, i + 1)
Sanitise(nm) == SanitiseFrom(nm, 1)
=============================================================================
