---------------------------- MODULE OpacityFiles ----------------------------
(* C14, function-shaped part: unit tags of the opacity / CIA / k-table        *)
(* containers and the molecule-name regular expression.                       *)
EXTENDS Integers, Sequences
\* ------------------------------------------------- unit tags and file names
\* factors are mantissa * 10^exponent, as <<mantissa, exponent>> (TLC integers are 32 bit)
\* file pressure unit -> Pa
\* (the five tags of the first round of the check; the full table of declared units is below)
PressureFactor(u) == CASE u = "Pa" -> <<1, 0>> [] u = "bar" -> <<1, 5>> [] u = "atm" -> <<101325, 0>>
                       [] u = "mbar" -> <<1, 2>> [] u = "kPa" -> <<1, 3>>
\* stored cross-section -> cm^2 (what xsecGrid holds): pickle/HDF5 store cm^2, Exo-Transmit m^2
XsecFactor(fmt) == IF fmt = "exotransmit" THEN <<1, 4>> ELSE <<1, 0>>
\* HITRAN CIA stores cm^5 molecule^-2; SI (m^5 molecule^-2) = stored * 10^-10
CiaFactor(fmt) == IF fmt = "hitran" THEN <<1, 0 - 10>> ELSE <<1, 0>>
\* Exo-Transmit spectral axis: wavelength in metres; wavenumber (cm^-1) = 10^-2 / wavelength
ExoWavenumberNumerator == <<1, 0 - 2>>

\* ------------------------------------------------- declared pressure units (HDF5 cross-sections and HDF5 k-tables)
\* A container that declares its pressure unit may use any SI prefix on any base unit.  The unit table is a
\* constant map: base unit -> exact rational factor to Pa, <<num, den, exp10>> = num/den * 10^exp10, and
\* prefix -> power of ten.  (The conventional mmHg, 133.322387415 Pa, does not fit 32-bit integers and is left out.)
BaseUnits == {"Pa", "N/m2", "bar", "atm", "Torr", "torr", "Ba", "barye", "dyn/cm2"}
BaseFactor == [b \in BaseUnits |->
                 CASE b \in {"Pa", "N/m2"} -> <<1, 1, 0>>
                   [] b = "bar" -> <<1, 1, 5>>
                   [] b = "atm" -> <<101325, 1, 0>>
                   [] b \in {"Torr", "torr"} -> <<20265, 152, 0>>            \* 101325/760
                   [] b \in {"Ba", "barye", "dyn/cm2"} -> <<1, 1, 0 - 1>>]
Prefixes == {"", "da", "h", "k", "M", "G", "T", "P", "d", "c", "m", "u", "n", "p"}
PrefixExp == [p \in Prefixes |->
                CASE p = "" -> 0 [] p = "da" -> 1 [] p = "h" -> 2 [] p = "k" -> 3 [] p = "M" -> 6 [] p = "G" -> 9
                  [] p = "T" -> 12 [] p = "P" -> 15 [] p = "d" -> 0 - 1 [] p = "c" -> 0 - 2 [] p = "m" -> 0 - 3
                  [] p = "u" -> 0 - 6 [] p = "n" -> 0 - 9 [] p = "p" -> 0 - 12]
UnitName(p, b) == p \o b
UnitFactor(p, b) == <<BaseFactor[b][1], BaseFactor[b][2], BaseFactor[b][3] + PrefixExp[p]>>
\* canonical form of num/den * 10^exp10: gcd(num, den) = 1, den coprime to 10, num not a multiple of 10
RECURSIVE UGcd(_, _)
UGcd(x, y) == IF y = 0 THEN x ELSE UGcd(y, x % y)
RECURSIVE TriCanon(_)
TriCanon(a) == LET n == a[1]  d == a[2]  e == a[3]  g == UGcd(n, d) IN
    IF g > 1 THEN TriCanon(<<n \div g, d \div g, e>>)
    ELSE IF (n % 10) = 0 THEN TriCanon(<<n \div 10, d, e + 1>>)
    ELSE IF (d % 2) = 0 THEN TriCanon(<<n * 5, d \div 2, e - 1>>)
    ELSE IF (d % 5) = 0 THEN TriCanon(<<n * 2, d \div 5, e - 1>>)
    ELSE a
TriMul(a, b) == LET x == TriCanon(a)  y == TriCanon(b)
                    \* cross-reduce before multiplying (32-bit integers)
                    g1 == UGcd(x[1], y[2])  g2 == UGcd(y[1], x[2])
                IN  TriCanon(<<(x[1] \div g1) * (y[1] \div g2), (x[2] \div g2) * (y[2] \div g1), x[3] + y[3]>>)
TriInv(a) == <<a[2], a[1], 0 - a[3]>>
TriEq(a, b) == TriCanon(a) = TriCanon(b)
\* value * factor and value / factor for a value <<mantissa, exp10>> (positive)
ToSI(v, f) == TriMul(<<v[1], 1, v[2]>>, f)
ToFile(v, f) == TriMul(<<v[1], 1, v[2]>>, TriInv(f))

\* a name is a sequence of records [c |-> class, s |-> character]; class in {"U","l","d","x"}
\* re.findall('([A-Z][a-z]?)([0-9]*)', name) joined: an upper-case letter, at most one lower-case letter,
\* any digits; every other character is dropped
RECURSIVE TakeDigits(_, _)
TakeDigits(nm, i) == IF i <= Len(nm) /\ nm[i].c = "d" THEN TakeDigits(nm, i + 1) ELSE i
RECURSIVE SanitiseFrom(_, _)
SanitiseFrom(nm, i) ==
    IF i > Len(nm) THEN <<>>
    ELSE IF nm[i].c = "U"
         THEN LET j == IF i + 1 <= Len(nm) /\ nm[i + 1].c = "l" THEN i + 2 ELSE i + 1
                  k == TakeDigits(nm, j)
              IN  SubSeq(nm, i, k - 1) \o SanitiseFrom(nm, k)
         ELSE SanitiseFrom(nm, i + 1)
Sanitise(nm) == SanitiseFrom(nm, 1)
=============================================================================
