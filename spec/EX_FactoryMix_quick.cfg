SPECIFICATION Spec
CONSTANTS
  MaxMix = 3
  MixKeys = "few"
  MaxSubs = 2
  MaxSubMix = 1
  SubErrLen = 1
  Export = TRUE
INVARIANT OrderedBases
INVARIANT FirstAppliedLast
INVARIANT ReverseInit
INVARIANT KeysReachOwner
INVARIANT InvalidCompositeIsError
INVARIANT UnknownKeyIsErrorMix
INVARIANT PlainBuilds
INVARIANT SubsectionsReachComponent
INVARIANT SubsFormIndependent
INVARIANT UnknownInSubsectionIsError
INVARIANT CoefFits
CONSTRAINT Emit
CHECK_DEADLOCK FALSE
