SPECIFICATION Spec
CONSTANTS
  NW = 3
  NC = 2
  Inc = {0,1,6,12}
  Thr = 10
  Mode = "all"
  Contig = TRUE
  Export = TRUE
INVARIANT TxPointwiseLicensed
INVARIANT EmPointwiseLicensed
CONSTRAINT Emit
CHECK_DEADLOCK FALSE
