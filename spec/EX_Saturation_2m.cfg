SPECIFICATION Spec
CONSTANTS
  NW = 3
  NC = 2
  Inc = {1,6,12}
  Thr = 10
  Mode = "all"
  Contig = TRUE
  Hows = {"set","obs"}
  NatStep = 10
  ObsPos = {9,11,19,21,31}
  Export = TRUE
INVARIANT TxPointwiseLicensed
INVARIANT EmPointwiseLicensed
INVARIANT TxRunLicensed
INVARIANT EmRunLicensed
CONSTRAINT Emit
CHECK_DEADLOCK FALSE
