SPECIFICATION Spec
CONSTANTS
  N = 150
  Step = 4
  Starts = {5, 301, 590}
  RStarts = {1, 40}
  DMax = 200
  KMax = 150
  Mode = "requests"
  Export = TRUE
INVARIANT LengthIndependent
INVARIANT ClipIsRange
INVARIANT ClipCoversInner
CONSTRAINT Emit
CHECK_DEADLOCK FALSE
