--------------------------- MODULE Trace_Functional ---------------------------
(* Validation of recorded walks against Functional.tla.  Events (one trace per   *)
(* tid):  [ev |-> "init", cfg]   the long-lived object is constructed at cfg     *)
(*        [ev |-> "set", d, v]   one setting changed through the public API      *)
(*        [ev |-> "eval", dig, fresh]  digest id of the long-lived object's      *)
(*                               result and of a fresh object built at cfg       *)
(* A trace is rejected at the first step that is not a step of the spec, or at   *)
(* an Eval whose digest differs from the fresh one, or at two evaluations of the *)
(* same cfg with different fresh digests (the reference itself must be           *)
(* functional).                                                                  *)
EXTENDS Integers, Sequences, FiniteSets, TLC, Json, IOUtils, TLCExt
VARIABLES l, cfg, memo, cur, dead
TraceLog == ndJsonDeserialize(IOEnv.TRACE_FILE)
Init == l = 1 /\ cfg = <<>> /\ memo = {} /\ cur = -1 /\ dead = -1
Known(m, c) == {x \in m : x.c = c}
Step ==
    /\ l <= Len(TraceLog)
    /\ LET e  == TraceLog[l]
           c0 == IF e.tid = cur THEN cfg ELSE <<>>
           m0 == IF e.tid = cur THEN memo ELSE {}
       IN  IF e.tid = dead THEN UNCHANGED <<cfg, memo, cur, dead>>
           ELSE LET ok == CASE e.ev = "init" -> c0 = <<>>
                            [] e.ev = "set"  -> c0 # <<>> /\ e.d \in 1..Len(c0) /\ c0[e.d] # e.v
                            [] e.ev = "eval" -> /\ c0 # <<>>
                                                /\ e.dig = e.fresh
                                                /\ \A x \in Known(m0, c0) : x.f = e.fresh
                            [] OTHER -> FALSE
                IN  IF ok
                    THEN /\ cfg' = CASE e.ev = "init" -> e.cfg
                                     [] e.ev = "set"  -> [c0 EXCEPT ![e.d] = e.v]
                                     [] OTHER -> c0
                         /\ memo' = IF e.ev = "eval" THEN m0 \cup {[c |-> c0, f |-> e.fresh]} ELSE m0
                         /\ cur' = e.tid /\ UNCHANGED dead
                    ELSE /\ PrintT(<<"BAD", ToJson([l |-> l, tid |-> e.tid, ev |-> e.ev, cfg |-> c0])>>)
                         /\ dead' = e.tid /\ cur' = e.tid /\ cfg' = c0 /\ memo' = m0
    /\ l' = l + 1
Spec == Init /\ [][Step]_<<l, cfg, memo, cur, dead>>
Accepted == TLCGet("stats").diameter - 1 = Len(TraceLog)
=============================================================================
