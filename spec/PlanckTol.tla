----------------------------- MODULE PlanckTol -----------------------------
(***************************************************************************)
(* C02 -- what rounding the documented Planck formula can legitimately     *)
(* produce in double precision, as a function of x = h c nu / (k T).       *)
(*                                                                         *)
(*   B = prefactor / (exp(x) - 1).  Evaluated literally, exp(x) - 1 loses  *)
(* |log2 x| bits for x < 1 (relative error u/x, u = 2^-53 the unit         *)
(* round-off of exp(x) ~ 1), and the rounding of the exponent itself       *)
(* (relative u) is an absolute error x u of the exponent, i.e. a relative  *)
(* error x u of exp(x).  With a few more roundings in the prefactor:       *)
(*        |B_float / B - 1|  <=  1e-14 + 2^-52 (2/x + 4 x).                *)
(* A series or asymptotic short-cut switched on below / above some x0      *)
(* (Rayleigh-Jeans 1/x: x/2;  1/(x + x^2/2): x^2/6;  Wien exp(-x):         *)
(* exp(-x)) is orders of magnitude outside this bound next to its switch.  *)
(*                                                                         *)
(* Integer units: xu = floor(x * 10^4) (>= 1, i.e. x >= 1e-4), errors in   *)
(* units of 1e-16.                                                         *)
(***************************************************************************)
EXTENDS Integers

\* x * 10^4 for a wavenumber in cm^-1 and a temperature in K  (h c / k = 1.4388 cm K)
XUnits(wn, T) == (14388 * wn) \div T

\* 1e-14  +  2^-52 * 2 / x  +  2^-52 * 4 * x      in units of 1e-16, rounded up
PlanckTolU(xu) == 100 + ((44409 \div xu) + 1) + ((xu * 9) \div 10000 + 1)

XDomainOk(xu) == xu >= 1 /\ xu <= 5000000          \* 1e-4 <= x <= 500

\* regime classes the bindings must exercise (decades of x)
XDecade(xu) == IF xu < 10 THEN "1e-4" ELSE IF xu < 100 THEN "1e-3" ELSE IF xu < 1000 THEN "1e-2"
               ELSE IF xu < 10000 THEN "1e-1" ELSE IF xu < 100000 THEN "1e0"
               ELSE IF xu < 1000000 THEN "1e1" ELSE "1e2"
XDecades == {"1e-4", "1e-3", "1e-2", "1e-1", "1e0", "1e1", "1e2"}
=============================================================================
