-------------------------- MODULE MC_GridHistory --------------------------
(* Model-checking / export instance of GridHistory: the window alphabets the C13 driver realises on real grids *)
(* (wavenumber = offset + scale * coordinate).                                                                 *)
(* Alphabet "U": uniform native grid 2,4,..,40; second molecule on 1,7,13,21,29,35,43                          *)
(*   1: 10,12,14        clip 8..16   (5 native points)                                                         *)
(*   2: 24,26,28        clip 22..30  the SAME NUMBER of native points at another position                      *)
(*   3: 10,12,..,18     clip 8..20   the SAME START (requested and clipped), another length                    *)
(*   4: 10,14           clip 6..18   the SAME END POINTS as 1 at another density: a wider clip margin          *)
(*   5: 11,13,15        clip 10..16  centres BETWEEN native points                                             *)
(*   6: 25,27,29        clip 24..30  between native points, same length, another position                      *)
(*   7: 10,12,14 with cutoff_grid = False: the full grid although a grid is passed                             *)
(*   8: 60,62,64        no native point in reach: the evaluation is REFUSED; whatever entry point was called, the  *)
(*                      object must serve the next request as if nothing had happened                           *)
(*   0: no grid passed (the full native grid)                                                                  *)
(* Every request is evaluated through every entry point of HEntries (model, model_contrib, model_full_contrib). *)
(* Alphabet "G": the same classes on a constant-resolution-like native grid (gaps 1,1,..,2,..,3,..,6).         *)
EXTENDS GridHistory
CONSTANTS Alphabet

NatU == [i \in 1..20 |-> 2 * i]
MolU == <<1, 7, 13, 21, 29, 35, 43>>
WinsU == << [oc |-> <<10, 12, 14>>, cut |-> TRUE],
            [oc |-> <<24, 26, 28>>, cut |-> TRUE],
            [oc |-> <<10, 12, 14, 16, 18>>, cut |-> TRUE],
            [oc |-> <<10, 14>>, cut |-> TRUE],
            [oc |-> <<11, 13, 15>>, cut |-> TRUE],
            [oc |-> <<25, 27, 29>>, cut |-> TRUE],
            [oc |-> <<10, 12, 14>>, cut |-> FALSE],
            [oc |-> <<60, 62, 64>>, cut |-> TRUE] >>
NatG == <<10, 11, 12, 13, 14, 16, 18, 20, 22, 24, 27, 30, 33, 36, 40, 44, 48, 53, 58, 64>>
MolG == <<9, 15, 25, 38, 52, 70>>
WinsG == << [oc |-> <<12, 13, 14>>, cut |-> TRUE],
            [oc |-> <<22, 24, 26>>, cut |-> TRUE],
            [oc |-> <<12, 13, 14, 15, 16>>, cut |-> TRUE],
            [oc |-> <<12, 14>>, cut |-> TRUE],
            [oc |-> <<15, 17, 19>>, cut |-> TRUE],
            [oc |-> <<42, 46, 50>>, cut |-> TRUE],
            [oc |-> <<12, 13, 14>>, cut |-> FALSE],
            [oc |-> <<90, 93, 96>>, cut |-> TRUE] >>
MCNat  == IF Alphabet = "U" THEN NatU ELSE NatG
MCMol  == IF Alphabet = "U" THEN MolU ELSE MolG
MCWins == IF Alphabet = "U" THEN WinsU ELSE WinsG

\* pairs of requests an under-keyed memo cannot tell apart although they compute different points
XServed == {w \in HWinIds : ~HFails(w)}
XSameSize == {p \in XServed \X XServed : HClip(p[1]) # HClip(p[2]) /\ Len(HClip(p[1])) = Len(HClip(p[2]))}
XSameFirst == {p \in XServed \X XServed : HClip(p[1]) # HClip(p[2]) /\ HClip(p[1])[1] = HClip(p[2])[1]}
XSameEnds == {p \in XServed \X XServed : /\ p[1] # 0 /\ p[2] # 0 /\ HClip(p[1]) # HClip(p[2])
                                          /\ HReq(p[1])[1] = HReq(p[2])[1]
                                          /\ HReq(p[1])[Len(HReq(p[1]))] = HReq(p[2])[Len(HReq(p[2]))]}

=============================================================================
