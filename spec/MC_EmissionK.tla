---------------------------- MODULE MC_EmissionK ----------------------------
(* Exhaustive / export model for C02 in correlated-k mode. *)
EXTENDS EmissionK, Json
CONSTANTS Export, TabId
MCBtabs == << << <<1, 2>>, <<2, 7>>, <<5, 9>> >>,
              << <<3, 1>>, <<4, 6>>, <<5, 7>> >> >>
MCBtab  == MCBtabs[TabId]
MCBstar == <<7, 11>>
ASSUME TableOk
ASSUME \A i \in WIds : i \in DOMAIN WTable /\ Len(WTable[i]) = NG
ASSUME \A i \in QuadIds : i \in DOMAIN QuadTable

EKEmitVec == (Export /\ kpc = "done") =>
    PrintT(<<"VEC", ToJson([kk |-> kk, wts |-> Wts, wid |-> wid, c |-> e, tp |-> tp, qid |-> qid, quad |-> Quad,
                            kind |-> kind, kint |-> kint, flux |-> flux, out |-> out,
                            degenerate |-> Degenerate, visible |-> SurfaceVisible, isothermal |-> Isothermal,
                            weightsok |-> WeightsFacts(Quad),
                            rp |-> Rp, rs |-> Rs, dist |-> Dist, kd |-> KD,
                            tmin |-> TMinOf(tp), tmax |-> TMaxOf(tp), ng |-> NG])>>)
=============================================================================
