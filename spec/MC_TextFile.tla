---------------------------- MODULE MC_TextFile ----------------------------
(* C17: model-checking / export / simulation wrapper of TextFile.            *)
EXTENDS TextFile, Json
CONSTANT Export
TEmit == (Export /\ TClosed) =>
    PrintT(<<"TXT", ToJson([lines |-> lines, rows |-> DataRows, first |-> TFirstStyle, mixed |-> TMixed, extras |-> TExtraClasses])>>)
=============================================================================
