SPECIFICATION Spec
CONSTANTS
  Mols = {"He","H2O","CH4","N2"}
  MaxDir = 2
  MaxHand = 2
  Variant = "spec"
  Export = TRUE
INVARIANT SplitFollowsAvailability
INVARIANT SplitIsPartitionInOrder
CONSTRAINT Emit
CHECK_DEADLOCK FALSE
