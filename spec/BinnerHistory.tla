--------------------------- MODULE BinnerHistory ---------------------------
(***************************************************************************)
(* C16 / C17 over HISTORIES of one binner.                                 *)
(*                                                                         *)
(* A binner is a long-lived object: the program builds ONE (from the       *)
(* [Binning] section or with observation.create_binner()) and uses it for  *)
(* every spectrum it stores -- the forward model, each solution of a       *)
(* retrieval, every contribution, plots.  Both statements quantify over    *)
(* binners, grids and spectra, never over what the binner did before:      *)
(*   C16  "binned spectra equal the binner applied to the stored native    *)
(*         spectrum"                                                       *)
(*   C17  "the binner created from the observation bins onto exactly those *)
(*         centres and widths, so a model binned to the observation is     *)
(*         aligned element by element".                                    *)
(* So after ANY sequence of its public operations                          *)
(*   bindown(grid, spectrum [, grid_width] [, error]),  bin_model(result), *)
(*   generate_spectrum_output(result, size)                                *)
(* the binner is the binner it was: it exposes the centres and widths it   *)
(* was built with (OpsArePure) and every call returns what a freshly built *)
(* binner returns for the same arguments (ResultEqualsFresh) -- which is   *)
(* the overlap-weighted mean (Binning!Binned) of the native cells of THAT  *)
(* call over [centre - width/2, centre + width/2].                         *)
(*                                                                         *)
(* Lattice.  Native points are integers divisible by 4, target centres     *)
(* integers, full widths even integers (the harness owns the dyadic map    *)
(* lattice -> cm-1).  A native grid whose widths are not passed gets the   *)
(* documented default: the distance between the mid-points to its          *)
(* neighbours (end edges mirrored), centred on the point; on a non-uniform *)
(* grid these cells overlap each other / leave gaps, which the definition  *)
(* and FluxBinner's window algorithm (Binning!AlgBin) both handle          *)
(* (AlgAgrees).                                                            *)
(*                                                                         *)
(* Grid alphabet (what two consecutive models can differ in): the same     *)
(* grid again; the same number of points and the same end points with      *)
(* another spacing (constant resolution vs uniform); the same number of    *)
(* points elsewhere; another number of points.  Operations differ in       *)
(* widths passed / derived, error passed / not, one- and two-dimensional   *)
(* spectra (optical depths), the three output sizes.                       *)
(*                                                                         *)
(* Design variants (fixed per behaviour).  key: what a memo of the derived *)
(* native widths kept on the binner is keyed on -- "none" (no memo) and    *)
(* "content" (the points) are sound; "length" (number of points) and       *)
(* "ends" (first point, last point, number of points) must be refuted.     *)
(* conv: how generate_spectrum_output converts the widths to wavelength -- *)
(* "copy" is sound, "inplace" (the conversion overwrites the binner's own  *)
(* widths, which the output dictionary aliases) must be refuted.           *)
(***************************************************************************)
EXTENDS Integers, Sequences, FiniteSets, TLC, Rat
B == INSTANCE Binning

CONSTANTS TC,        \* target centres as handed to the constructor (any order, distinct)
          TW,        \* their full widths (even)
          Grids,     \* sequence of [p |-> native points (ascending, divisible by 4), xw |-> explicit full widths (even)]
          Sizes,     \* output sizes: subset of {"heavy", "light", "lighter"}
          Kinds,     \* subset of {"flux", "simple", "native"}
          Keys,      \* subset of {"none", "content", "length", "ends"}
          Convs      \* subset of {"copy", "inplace"}

\* V = [kind, key, conv] is chosen at Init and never changes
VARIABLES V, bs, last, lastop, started
vars == <<V, bs, last, lastop, started>>

NG      == Len(Grids)
Pts(g)  == Grids[g].p
NP(g)   == Len(Pts(g))
\* the native spectrum, two rows of optical depths and the uncertainties of a model on grid g:
\* generic (not constant, not monotone, not linear), different from grid to grid
FVal(g, k)    == 1 + ((3 * k * k + 5 * k + 7 * g) % 17)
TVal(g, r, k) == ((r + 2) * k + 3 * g + r) % 11
EVal(g, k)    == 1 + ((k + g) % 3)
FSeq(g)    == [k \in 1..NP(g) |-> FVal(g, k)]
TauRows(g) == [r \in 1..2 |-> [k \in 1..NP(g) |-> TVal(g, r, k)]]
ESeq(g)    == [k \in 1..NP(g) |-> EVal(g, k)]

\* ------------------------------------------------------------ native cells
\* doubled mid-point edges 0..n of the points p (compute_bin_edges), full widths between them
Edge2(p, k) == LET n == Len(p) IN
               IF k = 0 THEN 3 * p[1] - p[2] ELSE IF k = n THEN 3 * p[n] - p[n - 1] ELSE p[k] + p[k + 1]
DerivedW(p) == [k \in 1..Len(p) |-> (Edge2(p, k) - Edge2(p, k - 1)) \div 2]
CellsOf(p, W) == [k \in 1..Len(p) |-> <<p[k] - (W[k] \div 2), p[k] + (W[k] \div 2)>>]
WellFormedGrid(g) ==
    /\ NP(g) >= 2 /\ Len(Grids[g].xw) = NP(g)
    /\ \A k \in 1..NP(g) : (Pts(g)[k] % 4) = 0 /\ (Grids[g].xw[k] % 2) = 0 /\ Grids[g].xw[k] > 0
    /\ \A k \in 1..(NP(g) - 1) : Pts(g)[k] < Pts(g)[k + 1]

\* ------------------------------------------------------------ the binner
SortedC == LET q == B!SortPerm(TC) IN [i \in 1..Len(TC) |-> TC[q[i]]]
SortedW == LET q == B!SortPerm(TC) IN [i \in 1..Len(TC) |-> TW[q[i]]]
\* the memo of the derived native widths: the key it was filled under and the grid whose widths it holds
NoMemo  == [k |-> <<>>, g |-> 0]
Twos    == [i \in 1..Len(TC) |-> 2]        \* widths after an in-place conversion: numbers of another unit
\* FluxBinner sorts its centres (widths travel with them); SimpleBinner is handed the ascending grid
FreshBs == [c |-> SortedC, w |-> SortedW, memo |-> NoMemo]
NB == Len(TC)
TbOf(ww, i) == <<SortedC[i] - (ww[i] \div 2), SortedC[i] + (ww[i] \div 2)>>
Tb(s, i)    == TbOf(s.w, i)

KeyOf(key, g) == CASE key = "content" -> Pts(g)
                   [] key = "length"  -> <<NP(g)>>
                   [] key = "ends"    -> <<Pts(g)[1], Pts(g)[NP(g)], NP(g)>>
                   [] OTHER           -> <<0>>
MemoHit(v, s, g) == v.key # "none" /\ s.memo.k = KeyOf(v.key, g)
\* where the full widths of the native cells of an operation on grid g come from: 0 = passed by the caller,
\* h > 0 = derived from the points of grid h (h = g unless a memo filled on another grid is hit; every key
\* contains the number of points, so NP(h) = NP(g))
SrcOf(v, s, g, wm) == IF wm = "explicit" THEN 0 ELSE IF MemoHit(v, s, g) THEN s.memo.g ELSE g
DW == [g \in 1..NG |-> DerivedW(Pts(g))]
SrcW(g, src) == IF src = 0 THEN Grids[g].xw ELSE DW[src]
Srcs(g) == {0} \cup {h \in 1..NG : NP(h) = NP(g)}

\* overlap weights of the native cells N with the target bin tb, computed once per bin and applied to every
\* spectrum binned in the call; WMean(WVec(N, tb), f) is Binning!Binned(N, tb, f) (MeanIsBinned, checked once)
WMean(wv, f)  == Norm(B!ISum([k \in 1..Len(wv) |-> wv[k] * f[k]]), B!ISum(wv))
WErr2(wv, e)  == LET sw == B!ISum(wv) IN Norm(B!ISum([k \in 1..Len(wv) |-> wv[k] * wv[k] * e[k] * e[k]]), sw * sw)
EntryW(wv, f) == IF B!ISum(wv) > 0 THEN [k |-> "num", v |-> WMean(wv, f)] ELSE [k |-> "zero"]
FluxBinned(wts, f) == [i \in 1..NB |-> EntryW(wts[i], f)]
FluxErr2(wts, e)   == [i \in 1..NB |-> IF B!ISum(wts[i]) > 0 THEN WErr2(wts[i], e) ELSE <<0, 1>>]
\* everything FluxBinner computes in one call: the model on grid g (spectrum, optical depths, uncertainties) binned
\* with native widths from src onto the target bins of full widths ww
FluxCall(g, src, ww) ==
    LET N   == CellsOf(Pts(g), SrcW(g, src))
        wts == [i \in 1..NB |-> B!WVec(N, TbOf(ww, i))]
    IN  [val |-> FluxBinned(wts, FSeq(g)), tau |-> [r \in 1..2 |-> FluxBinned(wts, TauRows(g)[r])], err2 |-> FluxErr2(wts, ESeq(g))]
\* (a constant table: TLC evaluates each entry once, not once per state)
FluxTab == [g \in 1..NG |-> [src \in Srcs(g) |-> [ww \in {SortedW, Twos} |-> FluxCall(g, src, ww)]]]
SimpleBinned(g, f) ==
    [i \in 1..NB |-> IF B!HistMembers(SortedC, Pts(g), i) = {} THEN [k |-> "empty"]
                     ELSE [k |-> "num", v |-> B!HistMean(SortedC, Pts(g), f, i)]]
SimpleTab == [g \in 1..NG |-> [val |-> SimpleBinned(g, FSeq(g)), tau |-> [r \in 1..2 |-> SimpleBinned(g, TauRows(g)[r])], err2 |-> <<>>]]
NativeVals(f) == [k \in 1..Len(f) |-> [k |-> "num", v |-> Q(f[k])]]
NativeTab == [g \in 1..NG |-> [val |-> NativeVals(FSeq(g)), tau |-> <<>>, err2 |-> [k \in 1..NP(g) |-> Q(EVal(g, k) * EVal(g, k))]]]
\* the binned model of one call
CallOf(v, s, op) == CASE v.kind = "flux"   -> FluxTab[op.g][SrcOf(v, s, op.g, op.wm)][s.w]
                      [] v.kind = "simple" -> SimpleTab[op.g]
                      [] OTHER             -> NativeTab[op.g]
\* wavelength width of a bin, converted at the bin centre (lattice units; the harness divides by its unit)
WlW(c, w) == Norm(10000 * w, c * c)

\* ------------------------------------------------------------ operations
NoSize == "-"
Ops == [k : {"bindown"}, g : 1..NG, wm : {"derived", "explicit"}, err : BOOLEAN, size : {NoSize}]
       \cup [k : {"bin_model"}, g : 1..NG, wm : {"derived"}, err : {FALSE}, size : {NoSize}]
       \cup [k : {"output"}, g : 1..NG, wm : {"derived"}, err : {FALSE}, size : Sizes]
NullOp == [k |-> "none", g |-> 0, wm |-> "derived", err |-> FALSE, size |-> NoSize]

\* state of the binner after the operation
Step(v, s, op) ==
    [c    |-> s.c,
     w    |-> IF op.k = "output" /\ v.conv = "inplace" /\ v.kind # "native" THEN Twos ELSE s.w,
     memo |-> IF v.kind = "flux" /\ v.key # "none" /\ op.wm = "derived" /\ ~MemoHit(v, s, op.g)
              THEN [k |-> KeyOf(v.key, op.g), g |-> op.g] ELSE s.memo]
\* what the call returns / what the output dictionary holds:
\*   grid, widths : the centres and widths the binner exposes with this call (native binner: the arguments)
\*   val          : the binned spectrum;  tau : the binned optical depths, row by row (<<>>: not in the result)
\*   err2         : squared binned uncertainties (<<>>: none returned);  wlw : wavelength widths (output only)
\*   native       : the native points and spectrum the output dictionary stores next to the binned ones
Res(v, s, op) ==
    LET g   == op.g
        bin == v.kind # "native"
        s1  == Step(v, s, op)          \* the output dictionary aliases the binner's widths
        m   == CallOf(v, s, op)
    IN  IF op.k = "output"
        THEN [grid   |-> IF bin THEN s.c ELSE Pts(g),
              widths |-> IF bin THEN s1.w ELSE <<>>,
              val    |-> m.val,
              tau    |-> IF bin /\ op.size # "lighter" THEN m.tau ELSE <<>>,
              err2   |-> <<>>,
              wlw    |-> IF bin THEN [i \in 1..NB |-> WlW(s.c[i], s.w[i])] ELSE <<>>,
              native |-> <<Pts(g), FSeq(g)>>]
        ELSE [grid   |-> IF bin THEN s.c ELSE Pts(g),
              widths |-> IF bin THEN s.w ELSE IF op.wm = "explicit" THEN Grids[g].xw ELSE <<>>,
              val    |-> m.val,
              tau    |-> <<>>,
              err2   |-> IF op.err THEN m.err2 ELSE <<>>,
              wlw    |-> <<>>,
              native |-> <<>>]

SoundV(v) == v.key \in {"none", "content"} /\ v.conv = "copy"
RefV(v)   == [kind |-> v.kind, key |-> "none", conv |-> "copy"]
\* what a freshly built binner returns for the operation (a constant table: TLC evaluates it once)
AllKinds == {"flux", "simple", "native"}
FreshTab == [kind \in AllKinds |-> [op \in Ops |-> Res([kind |-> kind, key |-> "none", conv |-> "copy"], FreshBs, op)]]
Fresh(v, op) == FreshTab[v.kind][op]

\* ------------------------------------------------------------ behaviours
\* one design variant per behaviour; a memo exists in FluxBinner only, mutants one at a time
Variants == {v \in [kind : Kinds, key : Keys, conv : Convs] :
               /\ (v.kind # "flux" => v.key = "none")
               /\ (v.kind = "native" => v.conv = "copy")
               /\ (v.conv = "inplace" => v.key = "none")}
Init == /\ V \in Variants /\ bs = FreshBs
        /\ last = <<>> /\ lastop = NullOp /\ started = FALSE
Do(op) == /\ last' = Res(V, bs, op)
          /\ bs' = Step(V, bs, op)
          /\ lastop' = op /\ started' = TRUE /\ UNCHANGED V
Next == \E op \in Ops : Do(op)
Spec == Init /\ [][Next]_vars

\* ------------------------------------------------------------ clauses
\* the binner exposes the centres and widths it was built with, whatever it was used for
OpsArePure        == bs.c = FreshBs.c /\ bs.w = FreshBs.w
\* every call returns what a freshly built binner returns for the same arguments
ResultEqualsFresh == started => last = Fresh(V, lastop)
\* the output dictionary stores the native arrays it was given
NativeUntouched   == started /\ lastop.k = "output" => last.native = <<Pts(lastop.g), FSeq(lastop.g)>>
HoldPure   == SoundV(V) => OpsArePure
HoldFresh  == SoundV(V) => ResultEqualsFresh
HoldNative == SoundV(V) => NativeUntouched
\* one invariant per design mutant (expected counterexamples, reported together by TLC -continue)
RefuteLength       == V.key = "length" => ResultEqualsFresh
RefuteEnds         == V.key = "ends" => ResultEqualsFresh
RefuteInplace      == V.conv = "inplace" => OpsArePure /\ ResultEqualsFresh

\* ------------------------------------------------------------ the alphabet is regular (checked once)
\* every target bin is covered by every grid under both width modes; the cells ascend in both edges, the
\* regime in which FluxBinner's window (Binning!AlgBin, variant "ok") is the definition -- also for derived
\* cells that overlap each other or leave gaps
Ascending(x) == \A k \in 1..(Len(x) - 1) : x[k] < x[k + 1]
AlphabetOk ==
    /\ Len(TW) = Len(TC) /\ NB >= 2 /\ \A i \in 1..NB : TW[i] > 0 /\ (TW[i] % 2) = 0
    /\ \A i, j \in 1..NB : i # j => TC[i] # TC[j]
    /\ \A g \in 1..NG : WellFormedGrid(g)
    /\ \A g \in 1..NG : \A wm \in {"derived", "explicit"} :
          LET N == CellsOf(Pts(g), IF wm = "explicit" THEN Grids[g].xw ELSE DerivedW(Pts(g))) IN
          /\ Ascending([k \in 1..Len(N) |-> N[k][1]]) /\ Ascending([k \in 1..Len(N) |-> N[k][2]])
          /\ \A i \in 1..NB : B!WSum(N, Tb(FreshBs, i)) > 0
    \* histogram binner: no native point on a bin edge, no empty bin
    /\ \A g \in 1..NG : /\ \A k \in 1..NP(g) : ~B!OnHistEdge(SortedC, Pts(g)[k])
                        /\ \A i \in 1..NB : B!HistMembers(SortedC, Pts(g), i) # {}
AlgAgrees ==
    \A g \in 1..NG : \A wm \in {"derived", "explicit"} : \A i \in 1..NB :
        LET W == IF wm = "explicit" THEN Grids[g].xw ELSE DerivedW(Pts(g))
            a == B!AlgBin([k \in 1..NP(g) |-> 2 * Pts(g)[k]], W, FSeq(g), ESeq(g), 2 * SortedC[i], SortedW[i], "ok")
            N == CellsOf(Pts(g), W)
            wv == B!WVec(N, Tb(FreshBs, i))
        IN  /\ a.k = "num" /\ a.v = B!Binned(N, Tb(FreshBs, i), FSeq(g))
            /\ a.e2 = B!BinnedErr2(N, Tb(FreshBs, i), ESeq(g))
            \* MeanIsBinned: the weights-once form used above is the definition
            /\ WMean(wv, FSeq(g)) = B!Binned(N, Tb(FreshBs, i), FSeq(g))
            /\ WErr2(wv, ESeq(g)) = B!BinnedErr2(N, Tb(FreshBs, i), ESeq(g))
\* the alphabet holds what the mutants need: two grids with the same number of points and the same end
\* points whose derived widths differ, one with another number of points, derived cells that do not tile
SameEnds(g, h) == NP(g) = NP(h) /\ Pts(g)[1] = Pts(h)[1] /\ Pts(g)[NP(g)] = Pts(h)[NP(h)]
AlphabetRich ==
    /\ \E g, h \in 1..NG : g # h /\ SameEnds(g, h) /\ DerivedW(Pts(g)) # DerivedW(Pts(h))
    /\ \E g, h \in 1..NG : NP(g) = NP(h) /\ ~SameEnds(g, h)
    /\ \E g, h \in 1..NG : NP(g) # NP(h)
    /\ \E g \in 1..NG : LET N == CellsOf(Pts(g), DerivedW(Pts(g))) IN \E k \in 1..(NP(g) - 1) : N[k][2] # N[k + 1][1]
    /\ \E i, j \in 1..NB : i < j /\ Tb(FreshBs, j)[1] < Tb(FreshBs, i)[2]         \* overlapping target bins
    /\ \E i \in 1..(NB - 1) : Tb(FreshBs, i)[2] < Tb(FreshBs, i + 1)[1]           \* a gap between target bins
    /\ TC # SortedC
\* (state-independent: evaluated in one initial state only)
AlphabetInv == (~started /\ V = [kind |-> "flux", key |-> "none", conv |-> "copy"]) => AlphabetOk /\ AlgAgrees /\ AlphabetRich
FitsInv == started => /\ \A i \in 1..Len(last.val) : last.val[i].k = "num" => Fits(last.val[i].v)
                      /\ \A i \in 1..Len(last.err2) : Fits(last.err2[i])
=============================================================================
