SPECIFICATION Spec
CONSTANTS
  Keys = {"a","b","c"}
  NVals = 3
  InputClasses = {"any"}
INVARIANT Exposes
INVARIANT Faithful
CHECK_DEADLOCK FALSE
