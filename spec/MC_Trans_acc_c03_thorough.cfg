SPECIFICATION Spec
CONSTANTS
  Family = "acc"
  NL = 2
  NW = 2
  NC = 2
  AVals = {0,1,4,16}
  LVals = {1,2}
  RpSet = {1}
  IncSet = {1}
  RsSet = {1}
  TVals = {0}
  Basis = FALSE
  Export = FALSE
CONSTRAINT Emit
CHECK_DEADLOCK FALSE
INVARIANT ProductRule
INVARIANT OrderIndependentUpToCutoff
