------------------------------ MODULE Emission ------------------------------
(***************************************************************************)
(* C02 -- emission / direct-image spectrum as the layered thermal integral *)
(* (taurex/model/emission.py: evaluate_emission, path_integral,            *)
(*  compute_final_flux; taurex/model/directimage.py: compute_final_flux).  *)
(*                                                                         *)
(* Units.  Layers 1..NL, layer 1 is the bottom (code index 0).  The        *)
(* vertical optical depth of layer l at wavenumber w is e[l][w] * ln 2, so *)
(* exp(-tau/mu) = 2^-(invmu * e) for an angle with integer invmu = 1/mu.   *)
(* Temperatures are indices tp[l] into an uninterpreted Planck table       *)
(* Btab[t][w] (positive, strictly increasing in t).  An intensity is a     *)
(* B-sum (module Dyad): a formal sum of  +-2^-k * B[t]; its coefficients   *)
(* do not depend on the table, so Telescoping / CoefNonNeg hold for every  *)
(* table at once and the numeric clauses are evaluated on the tables of    *)
(* the config.  The code sets a transmittance to ZERO when the un-scaled   *)
(* optical depth is >= 10 at every wavenumber (_clamp); in these units     *)
(* that is  e >= ClampE = 15  (14 ln 2 < 10 < 15 ln 2): an explicit branch.*)
(* The surface term is never clamped.                                      *)
(***************************************************************************)
EXTENDS Integers, Sequences, FiniteSets, TLC, Dyad

\* ------------------------------------------------------------ pure operators
RECURSIVE TauFrom(_, _, _)
\* optical depth (units of ln 2) of layers l..NL   [code: contribute(layer, n)]
TauFrom(e, l, w) == IF l > Len(e) THEN 0 ELSE e[l][w] + TauFrom(e, l + 1, w)

\* dtau.min() >= clamp  <=>  every wavenumber is saturated
ClampedFrom(e, l, C) == \A w \in 1..Len(e[1]) : TauFrom(e, l, w) >= C

\* Variant = "code" is what evaluate_emission does; the others are deliberately wrong
\* readings used by the expected-counterexample configs (non-vacuity of the invariants).
TransTerm(e, l, w, m, C, sign, t) ==
    IF ClampedFrom(e, l, C) THEN <<>> ELSE BTerm(<<sign, 1>>, m * TauFrom(e, l, w), t)
TransTermNoClamp(e, l, w, m, sign, t) == BTerm(<<sign, 1>>, m * TauFrom(e, l, w), t)

SurfaceTerms(e, tp, w, m) == BTerm(<<1, 1>>, m * TauFrom(e, 1, w), tp[1])

\* "the temperature has not changed": an implementation that keeps the Planck array of the previous layer while the
\* new temperature is within its tolerance of the PREVIOUS layer's (neighbouring table indices read as a table whose
\* entries are closer than that tolerance; the reference follows the previous layer, so a stale source drifts over
\* any accumulated difference).  Used only by the expected-counterexample variant "source_reused_if_close".
CloseTIdx(a, b) == a = b \/ a = b + 1 \/ b = a + 1
RECURSIVE ReusedSrcIdx(_, _)
ReusedSrcIdx(tp, l) == IF l = 1 THEN tp[1]
                       ELSE IF CloseTIdx(tp[l], tp[l - 1]) THEN ReusedSrcIdx(tp, l - 1) ELSE tp[l]

LayerTerms(e, tp, l, w, m, C, variant) ==
    CASE variant = "code" ->
           TransTerm(e, l + 1, w, m, C, 1, tp[l]) \o TransTerm(e, l, w, m, C, -1, tp[l])
      [] variant = "clamp_lower_only" ->      \* clamp applied to one of the pair only
           TransTermNoClamp(e, l + 1, w, m, 1, tp[l]) \o TransTerm(e, l, w, m, C, -1, tp[l])
      [] variant = "range_off_by_one" ->      \* layer..n / layer..n  instead of layer+1..n / layer..n
           TransTerm(e, l + 1, w, m, C, 1, tp[l]) \o TransTerm(e, l + 1, w, m, C, -1, tp[l])
      [] variant = "source_reused_if_close" -> \* B of an earlier layer while the temperature "has not changed"
           TransTerm(e, l + 1, w, m, C, 1, ReusedSrcIdx(tp, l)) \o TransTerm(e, l, w, m, C, -1, ReusedSrcIdx(tp, l))

RECURSIVE LayersUpTo(_, _, _, _, _, _, _)
LayersUpTo(e, tp, l, w, m, C, variant) ==
    IF l = 0 THEN <<>> ELSE LayersUpTo(e, tp, l - 1, w, m, C, variant) \o LayerTerms(e, tp, l, w, m, C, variant)

\* the whole intensity at angle 1/mu = m, wavenumber w
Intensity(e, tp, w, m, C, variant) ==
    SurfaceTerms(e, tp, w, m) \o LayersUpTo(e, tp, Len(e), w, m, C, variant)

\* The documented integral read per TABLE ENTRY (written without LayerTerms): B[t] carries the surface transmittance
\* if the bottom layer is at t, plus the transmittance difference (above minus below, both clamped) of exactly the
\* layers whose own temperature is t  --  "per layer, B(T_layer) times the difference of transmittances".
RECURSIVE DocLayersAt(_, _, _, _, _, _, _)
DocLayersAt(e, tp, l, w, m, C, t) ==
    IF l = 0 THEN <<>>
    ELSE DocLayersAt(e, tp, l - 1, w, m, C, t)
         \o (IF tp[l] = t THEN TransTerm(e, l + 1, w, m, C, 1, 0) \o TransTerm(e, l, w, m, C, -1, 0) ELSE <<>>)
DocCoefOf(e, tp, w, m, C, t) ==
    BCoefAll((IF tp[1] = t THEN BTerm(<<1, 1>>, m * TauFrom(e, 1, w), 0) ELSE <<>>) \o DocLayersAt(e, tp, Len(e), w, m, C, t))

\* licensed excess of the coefficient sum: the un-clamped surface term when the column saturates
ClampExcess(e, w, m, C) == IF ClampedFrom(e, 1, C) THEN DPow2(<<1, 1>>, m * TauFrom(e, 1, w)) ELSE <<>>

\* --------------------------------------------------------------- quadratures
\* sequences of <<1/mu, weight>>;   1: Gauss-Legendre n=1;  2, 4: exact for degree <= 1;  3, 5: not
QuadTable == <<
   << <<2, <<1, 1>>>> >>,
   << <<1, <<1, 3>>>>, <<4, <<2, 3>>>> >>,
   << <<1, <<1, 2>>>>, <<2, <<1, 2>>>> >>,
   << <<1, <<1, 4>>>>, <<2, <<1, 4>>>>, <<4, <<1, 2>>>> >>,
   << <<1, <<1, 1>>>> >> >>
QInvMu(q, a) == q[a][1]
QW(q, a)     == q[a][2]
QWMu(q, a)   == RDiv(q[a][2], Q(q[a][1]))           \* w * mu
RECURSIVE SumWUpTo(_, _)
SumWUpTo(q, a)   == IF a = 0 THEN RZero ELSE RAdd(QW(q, a), SumWUpTo(q, a - 1))
RECURSIVE SumWMuUpTo(_, _)
SumWMuUpTo(q, a) == IF a = 0 THEN RZero ELSE RAdd(QWMu(q, a), SumWMuUpTo(q, a - 1))
SumW(q)   == SumWUpTo(q, Len(q))
SumWMu(q) == SumWMuUpTo(q, Len(q))
WeightsFacts(q) == /\ SumW(q) = ROne /\ SumWMu(q) = <<1, 2>>
                   /\ \A a \in 1..Len(q) : q[a][1] >= 1 /\ RLt(RZero, q[a][2])

\* flux / (2 pi)  =  sum_i I_i w_i mu_i      [path_integral: 2 pi sum(I * (_w/_mu)), _mu = 1/mu]
RECURSIVE FluxUpTo(_, _, _)
FluxUpTo(q, Iw, a) == IF a = 0 THEN <<>> ELSE FluxUpTo(q, Iw, a - 1) \o BScale(QWMu(q, a), Iw[a])

\* ------------------------------------------------------------- state machine
CONSTANTS NL, NW, NT,         \* layers, wavenumbers, temperatures
          ECodes, TCodes,     \* per-layer opacity rows / temperature profiles, digit-coded (cfg has no tuples)
          QuadIds,            \* subset of DOMAIN QuadTable
          ClampE,             \* 15
          SlackE,             \* 14:  exp(-10) <= 2^-14
          Variant,
          Btab, Bstar,        \* Btab[t][w], Bstar[w]: positive integers
          Rp, Rs, Dist, KD    \* radii, distance, the undocumented direct-image constant
VARIABLES pc, lay, e, tp, qid, inten, flux, kind, out
vars == <<pc, lay, e, tp, qid, inten, flux, kind, out>>

\* row code c = sum_w e_w * 100^(NW-w);  profile code = decimal digits t_1 t_2 .. t_NL
Digit(c, base, n, i) == (c \div Pow(base, n - i)) % base
RowOf(c)  == [w \in 1..NW |-> Digit(c, 100, NW, w)]
ProfOf(c) == [l \in 1..NL |-> Digit(c, 10, NL, l)]
EArrays   == [1..NL -> {RowOf(c) : c \in ECodes}]
TProfiles == {ProfOf(c) : c \in TCodes}

Quad == QuadTable[qid]
NA   == Len(Quad)

Init == /\ pc = "surface" /\ lay = 0
        /\ e \in EArrays /\ tp \in TProfiles /\ qid \in QuadIds
        /\ inten = <<>> /\ flux = <<>> /\ kind = "none" /\ out = <<>>

Surface == /\ pc = "surface"
           /\ inten' = [a \in 1..NA |-> [w \in 1..NW |-> SurfaceTerms(e, tp, w, QInvMu(Quad, a))]]
           /\ pc' = "layer" /\ lay' = 1
           /\ UNCHANGED <<e, tp, qid, flux, kind, out>>

Layer(l) == /\ pc = "layer" /\ lay = l
            /\ inten' = [a \in 1..NA |-> [w \in 1..NW |->
                           inten[a][w] \o LayerTerms(e, tp, l, w, QInvMu(Quad, a), ClampE, Variant)]]
            /\ lay' = l + 1
            /\ pc' = IF l = NL THEN "integrate" ELSE "layer"
            /\ UNCHANGED <<e, tp, qid, flux, kind, out>>

Integrate == /\ pc = "integrate"
             /\ flux' = [w \in 1..NW |-> FluxUpTo(Quad, [a \in 1..NA |-> inten[a][w]], NA)]
             /\ pc' = "normalise"
             /\ UNCHANGED <<lay, e, tp, qid, inten, kind, out>>

\* eclipse:  2 pi F / (pi Bstar) * (Rp/Rs)^2 ;   direct:  2 pi F * Rp^2 * 2 pi / (4 pi d^2) = pi * 2 F Rp^2 / (KD d^2)
NormFactor(k, w) == IF k = "eclipse" THEN Norm(2 * Rp * Rp, Rs * Rs * Bstar[w])
                    ELSE Norm(2 * Rp * Rp, KD * Dist * Dist)
Normalise(k) == /\ pc = "normalise"
                /\ kind' = k
                /\ out' = [w \in 1..NW |-> BScale(NormFactor(k, w), flux[w])]
                /\ pc' = "done"
                /\ UNCHANGED <<lay, e, tp, qid, inten, flux>>

Next == Surface \/ (\E l \in 1..NL : Layer(l)) \/ Integrate \/ Normalise("eclipse") \/ Normalise("direct")
Spec == Init /\ [][Next]_vars

\* ------------------------------------------------------------------ clauses
Bcol(w) == [t \in 1..NT |-> Btab[t][w]]
TableOk == \A w \in 1..NW : /\ Bstar[w] > 0
                            /\ \A t \in 1..NT : Btab[t][w] > 0 /\ (t < NT => Btab[t][w] < Btab[t + 1][w])
LayersDone == pc = "integrate"        \* inten is final and unchanged afterwards: evaluate its clauses once
TMinOf(p) == CHOOSE t \in {p[l] : l \in 1..NL} : \A l \in 1..NL : t <= p[l]
TMaxOf(p) == CHOOSE t \in {p[l] : l \in 1..NL} : \A l \in 1..NL : t >= p[l]
Isothermal == \A l \in 1..NL : tp[l] = tp[1]
Saturated  == ClampedFrom(e, 1, ClampE)
One == DConst(ROne)

\* inductive form: after the surface term and layers 1..lay-1 the coefficients of the B's sum to
\*   T(surface) + T'(above layer lay-1) - T'(from layer 1),  T' = clamped transmittance
TelescopingPartial ==
    pc = "layer" => \A a \in 1..NA : \A w \in 1..NW :
        LET m == QInvMu(Quad, a)
            expect == BCoefAll(SurfaceTerms(e, tp, w, m) \o TransTerm(e, lay, w, m, ClampE, 1, 0)
                               \o TransTerm(e, 1, w, m, ClampE, -1, 0))
        IN  DEq(BCoefAll(inten[a][w]), expect)

\* the coefficients sum to 1, or to 1 + exp(-tau_surf/mu) when the column is saturated
Telescoping ==
    LayersDone => \A a \in 1..NA : \A w \in 1..NW :
        DEq(BCoefAll(inten[a][w]), DAdd(One, ClampExcess(e, w, QInvMu(Quad, a), ClampE)))

\* every table entry carries a non-negative weight (so I is a positive combination of the B's)
CoefNonNeg ==
    LayersDone => \A a \in 1..NA : \A w \in 1..NW : \A t \in 1..NT :
        DSign(BCoefOf(inten[a][w], t)) >= 0

\* only layers' own temperatures appear
OwnTemperaturesOnly ==
    LayersDone => \A a \in 1..NA : \A w \in 1..NW : \A i \in 1..Len(inten[a][w]) :
        inten[a][w][i][4] \in {tp[l] : l \in 1..NL}

\* every table entry carries exactly the weight of the layers AT that temperature (none of the consequences below
\* -- telescoping, non-negativity, own temperatures, identity, bounds -- can tell a stale source from the right one:
\* config MC_Emission_refute_source refutes this clause and nothing else)
PerLayerSource ==
    LayersDone => \A a \in 1..NA : \A w \in 1..NW : \A t \in 1..NT :
        DEq(BCoefOf(inten[a][w], t), DocCoefOf(e, tp, w, QInvMu(Quad, a), ClampE, t))

IsothermalIdentity ==
    (LayersDone /\ Isothermal) => \A a \in 1..NA : \A w \in 1..NW :
        DEq(BEval(inten[a][w], Bcol(w)),
            DScale(Q(Btab[tp[1]][w]), DAdd(One, ClampExcess(e, w, QInvMu(Quad, a), ClampE))))

HotColdBounds ==
    LayersDone => \A a \in 1..NA : \A w \in 1..NW :
        LET v  == BEval(inten[a][w], Bcol(w))
            lo == DConst(Q(Btab[TMinOf(tp)][w]))
            hi == DScale(Q(Btab[TMaxOf(tp)][w]), DAdd(One, DPow2(ROne, SlackE)))
        IN  DLe(lo, v) /\ DLe(v, hi) /\ (~Saturated => DLe(v, DConst(Q(Btab[TMaxOf(tp)][w]))))

\* the isothermal identity transfers to the flux iff sum w mu = 1/2
FluxIdentityIffWeights ==
    (pc = "normalise" /\ Isothermal /\ ~Saturated) => \A w \in 1..NW :
        (DEq(BEval(flux[w], Bcol(w)), DConst(<<Btab[tp[1]][w], 2>>)) <=> (SumWMu(Quad) = <<1, 2>>))

\* (refuted, as it must be, for a quadrature with sum w mu # 1/2: config MC_Emission_refute_weights)
FluxIsothermalIdentity ==
    (pc = "normalise" /\ Isothermal /\ ~Saturated) => \A w \in 1..NW :
        DEq(BEval(flux[w], Bcol(w)), DConst(<<Btab[tp[1]][w], 2>>))

FluxBounds ==
    (pc = "normalise" /\ WeightsFacts(Quad)) => \A w \in 1..NW :
        LET v == BEval(flux[w], Bcol(w))
        IN  /\ DLe(DConst(<<Btab[TMinOf(tp)][w], 2>>), v)
            /\ DLe(v, DScale(<<Btab[TMaxOf(tp)][w], 2>>, DAdd(One, DPow2(ROne, SlackE))))

\* isothermal eclipse = B(T)/B(T*) (Rp/Rs)^2 ;  direct image proportional to flux Rp^2/d^2
EclipseIsothermalRatio ==
    (pc = "done" /\ kind = "eclipse" /\ Isothermal /\ ~Saturated /\ WeightsFacts(Quad)) => \A w \in 1..NW :
        DEq(BEval(out[w], Bcol(w)), DConst(Norm(Btab[tp[1]][w] * Rp * Rp, Bstar[w] * Rs * Rs)))
EclipseBounds ==
    (pc = "done" /\ kind = "eclipse" /\ WeightsFacts(Quad)) => \A w \in 1..NW :
        LET v == BEval(out[w], Bcol(w))
        IN  /\ DLe(DConst(Norm(Btab[TMinOf(tp)][w] * Rp * Rp, Bstar[w] * Rs * Rs)), v)
            /\ DLe(v, DScale(Norm(Btab[TMaxOf(tp)][w] * Rp * Rp, Bstar[w] * Rs * Rs), DAdd(One, DPow2(ROne, SlackE))))
DirectProportional ==
    (pc = "done" /\ kind = "direct") => \A w \in 1..NW :
        DEq(DScale(Q(KD * Dist * Dist), BEval(out[w], Bcol(w))), DScale(Q(2 * Rp * Rp), BEval(flux[w], Bcol(w))))

FitsInv == /\ pc = "integrate" => \A a \in 1..NA : \A w \in 1..NW : DFits(BEval(inten[a][w], Bcol(w)))
           /\ pc = "done" => \A w \in 1..NW : DFits(DScale(Q(KD * Dist * Dist), BEval(out[w], Bcol(w))))
=============================================================================
