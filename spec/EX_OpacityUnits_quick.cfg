SPECIFICATION USpec
CONSTANTS
  Containers = {"hdf5-xsec", "hdf5-ktable"}
  AttrKinds = {"str", "bytes"}
  GridIds = {1}
INVARIANT RoundTrip
INVARIANT PrefixMatters
INVARIANT SpellingUnique
INVARIANT UFits
CONSTRAINT UEmit
CHECK_DEADLOCK FALSE
