SPECIFICATION Spec
CONSTANTS
  Keys = {"a","b","c"}
  NVals = 3
  InputClasses = {"distinct", "single"}
INVARIANT Exposes
INVARIANT Faithful
CHECK_DEADLOCK FALSE
