SPECIFICATION Spec
CONSTANTS
  NL = 2
  MaxFill = 2
  MaxTrace = 2
  RatioNums = {1}
  RatioDen = 4
  AbNums = {0,3,5,8}
  AbDen = 8
  EShift = 1
  ENums = {0,1,2}
  Variant = "spec"
  Export = TRUE
INVARIANT NonNegative
INVARIANT SumsToOne
INVARIANT FillRatiosExact
INVARIANT TracesUntouched
INVARIANT InvalidIffExceedsOne
INVARIANT EpsIrrelevant
CONSTRAINT Emit
CONSTRAINT ExportPick
CHECK_DEADLOCK FALSE
