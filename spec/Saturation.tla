----------------------------- MODULE Saturation -----------------------------
(* C13, the licensed saturation cut-off.                                        *)
(*                                                                              *)
(* "The value of a model spectrum at a wavenumber does not depend on which      *)
(*  other wavenumbers are computed ... to within the licensed exp(-10)          *)
(*  saturation cut-off."                                                        *)
(*                                                                              *)
(* Optical depths are integers (any unit; Thr is the cut-off in that unit).     *)
(* A layer receives the optical depths inc[c][w] of the contributions c = 1..   *)
(* Len(inc) in evaluation order at the wavenumbers w of the COMPUTED set S.     *)
(*                                                                              *)
(* Transmission (TransmissionModel.path_integral): before every contribution    *)
(* the accumulated optical depth of the layer is tested and the remaining       *)
(* contributions are skipped ("all": when every computed wavenumber is above    *)
(* the cut-off; "any": as soon as one is -- the slip; "never": no early exit).  *)
(* Emission (EmissionModel.evaluate_emission): a transmission factor exp(-x)    *)
(* of a layer is replaced by 0 ("all": when every computed wavenumber has       *)
(* x >= clamp; "any"; "never").                                                 *)
(*                                                                              *)
(* The licence, per point: the values of two computations may differ at a       *)
(* wavenumber only where the layer is darker than the cut-off at THAT           *)
(* wavenumber in both of them.                                                  *)
EXTENDS Integers, Sequences, FiniteSets

SatMin(f, S) == CHOOSE m \in {f[w] : w \in S} : \A w \in S : f[w] >= m
SatMax(f, S) == CHOOSE m \in {f[w] : w \in S} : \A w \in S : f[w] <= m

\* ----------------------------------------------------------------- transmission
SatExit(mode, tau, S, thr) ==
    CASE mode = "all"   -> SatMin(tau, S) > thr
      [] mode = "any"   -> SatMax(tau, S) > thr
      [] mode = "never" -> FALSE

RECURSIVE SatAcc(_, _, _, _, _, _)
SatAcc(mode, inc, S, thr, c, tau) ==
    IF c > Len(inc) \/ SatExit(mode, tau, S, thr) THEN tau
    ELSE SatAcc(mode, inc, S, thr, c + 1, [w \in S |-> tau[w] + inc[c][w]])

\* optical depth of the layer at every computed wavenumber
SatLayer(mode, inc, S, thr) == SatAcc(mode, inc, S, thr, 1, [w \in S |-> 0])

\* the statement's licence for one wavenumber: equal, or darker than the cut-off in both computations
SatLicensed(tfull, tsub, thr) == tsub = tfull \/ (tsub > thr /\ tfull > thr)

\* --------------------------------------------------------------------- emission
RECURSIVE SatSum(_, _, _)
SatSum(inc, w, c) == IF c = 0 THEN 0 ELSE inc[c][w] + SatSum(inc, w, c - 1)
SatTotal(inc, W) == [w \in W |-> SatSum(inc, w, Len(inc))]

EmClamped(mode, x, S, clamp) ==
    CASE mode = "all"   -> SatMin(x, S) >= clamp
      [] mode = "any"   -> SatMax(x, S) >= clamp
      [] mode = "never" -> FALSE
\* the transmission factor of a layer term, symbolically: exp(-x) or 0
EmTerm(mode, x, S, clamp) == [w \in S |-> IF EmClamped(mode, x, S, clamp) THEN <<"zero">> ELSE <<"exp", x[w]>>]
\* licence: equal, or the term is below exp(-clamp) at that wavenumber (then 0 and exp(-x) differ by <= exp(-clamp))
EmLicensed(efull, esub, xw, clamp) == esub = efull \/ xw >= clamp
\* ---------------------------------------------------- one computation on its own
\* The licence for ONE computation, against the complete sum tot of all contributions
\* (no early exit): a contribution may be left out at a wavenumber only where the layer
\* is already darker than the cut-off AT THAT WAVENUMBER.  (Optical depths are >= 0.)
SatRunLicensed(t, tot, thr) == t = tot \/ (t > thr /\ t <= tot)
\* emission term against exp(-x): symbolic term is the exponential, or 0 where x >= clamp there
EmTermLicensed(term, xw, clamp) == term = <<"exp", xw>> \/ (term = <<"zero">> /\ xw >= clamp)

\* ------------------------------------------- logged (scaled integer) measurements
\* Trace events carry optical depths as integers scaled by S; a logged depth saturates at
\* cap (transmittance underflow).  tol = rounding of the log.  The real exit test is
\* "> thr" on floats, so a logged value may sit one rounding unit below thr.
SatCap(x, cap) == IF x > cap THEN cap ELSE x
SatNear(a, b, tol) == a - b <= tol /\ b - a <= tol
SatRunLicensedTol(t, tot, thr, tol, cap) ==
    \/ SatNear(t, SatCap(tot, cap), tol)
    \/ (t >= thr - tol /\ t <= SatCap(tot, cap) + tol)
SatPairLicensedTol(tfull, tsub, thr, tol) ==
    SatNear(tfull, tsub, tol) \/ (tfull >= thr - tol /\ tsub >= thr - tol)
\* emission: the logged layer value E = [exp(-xl) or 0] - [exp(-xd) or 0]; el, ed are the
\* exponentials evaluated at the boundary (scaled); 0 is licensed only where x >= clamp there
EmTermValues(x, e, clamp, tol) == IF x >= clamp - tol THEN {0, e} ELSE {e}
EmValueLicensed(E, xl, el, xd, ed, clamp, tol, etol) ==
    \E a \in EmTermValues(xl, el, clamp, tol), b \in EmTermValues(xd, ed, clamp, tol) : SatNear(E, a - b, etol)
\* what may separate two computations at one wavenumber: nothing, unless a term is licensed there
EmPairLicensed(Ef, Es, xl, el, xd, ed, clamp, tol, etol) ==
    LET slack == (IF xl >= clamp - tol THEN el ELSE 0) + (IF xd >= clamp - tol THEN ed ELSE 0)
    IN  SatNear(Ef, Es, etol + slack)
=============================================================================
