SPECIFICATION Spec
CONSTANTS
  NL = 1
  MaxFill = 3
  MaxTrace = 2
  RatioNums = {1,3}
  RatioDen = 4
  AbNums = {0,3,5}
  AbDen = 8
  Variant = "one_over_sum"
  Export = FALSE
INVARIANT NonNegative
INVARIANT SumsToOne
INVARIANT FillRatiosExact
INVARIANT TracesUntouched
INVARIANT OneRowPerGas
INVARIANT InvalidIffExceedsOne
INVARIANT MuIsWeightedMean
INVARIANT ScalarMuAtSurface
INVARIANT ActiveSplit
INVARIANT FitsInv
CONSTRAINT Emit

CHECK_DEADLOCK FALSE
