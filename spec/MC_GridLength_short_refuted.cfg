SPECIFICATION Spec
CONSTANTS
  N = 20
  Step = 4
  Starts = {5, 41, 70}
  RStarts = {1, 6}
  DMax = 30
  KMax = 150
  Mode = "slips"
  Export = FALSE
INVARIANT SlipSeparated
CONSTRAINT Emit
CHECK_DEADLOCK FALSE
