----------------------------- MODULE MC_Interp -----------------------------
(* Exhaustive / export model for C04: choose a table and a query, evaluate   *)
(* the specification operators, check the property's clauses in every state. *)
EXTENDS Interp, SequencesExt
CONSTANTS TNS, PNS,     \* node coordinates (sets of integers; the cfg language has no tuples)
          Vals,         \* table values for TabMode = "all"
          TabMode,      \* "all" | "basis"
          Mode,         \* "linear" | "exp"
          QX, QYS, YShift, \* query coordinates: T in QX, log10 P in {q - YShift : q \in QYS} (cfg files have no negative literals)
          Export
VARIABLES phase, tab, qx, qy, out
vars == <<phase, tab, qx, qy, out>>

TN == SetToSortSeq(TNS, LAMBDA a, b : a < b)
PN == SetToSortSeq(PNS, LAMBDA a, b : a < b)
QY == {q - YShift : q \in QYS}
NT == Len(TN)
NP == Len(PN)
Primes == <<2, 3, 5, 7, 11, 13, 17, 19, 23, 29, 31, 37, 41, 43, 47, 53>>
OneHot(pp, tt, hot, low) == [p \in 1..NP |-> [t \in 1..NT |-> IF p = pp /\ t = tt THEN hot ELSE low]]
Generic1 == [p \in 1..NP |-> [t \in 1..NT |-> Primes[(p - 1) * NT + t]]]
Generic2 == [p \in 1..NP |-> [t \in 1..NT |-> Primes[NP * NT + 1 - ((p - 1) * NT + t)] * 3]]
Generic3 == [p \in 1..NP |-> [t \in 1..NT |-> Primes[((t - 1) * NP + p)] * (((p + t) % 3) + 1)]]
Tables == IF TabMode = "all" THEN [1..NP -> [1..NT -> Vals]]
          ELSE {OneHot(pp, tt, 8, 1) : pp \in 1..NP, tt \in 1..NT}
               \cup {Generic1, Generic2, Generic3}

Nil == <<Q(0), Q(0), Q(0)>>
Init == /\ phase = "in" /\ tab \in Tables /\ qx \in QX /\ qy \in QY /\ out = Nil
Eval == /\ phase = "in"
        /\ out' = IF Mode = "linear"
                  THEN LET v == ExpectedLin(TN, PN, tab, qx, qy) IN <<v, v, Q(0)>>
                  ELSE ExpectedExp(TN, PN, tab, qx, qy)
        /\ phase' = "done"
        /\ UNCHANGED <<tab, qx, qy>>
Next == Eval
Spec == Init /\ [][Next]_vars

Done == phase = "done"
Reg  == Region(TN, PN, qx, qy)
\* the value is a^(1-w) b^w with 0 <= w <= 1: it lies between a and b (monotone in w)
NeverExtrapolated == Done => RLe(Q(0), out[3]) /\ RLe(out[3], Q(1))
NonNegative == Done => RLe(Q(0), out[1]) /\ RLe(Q(0), out[2])
\* the end of the geometric mean that carries weight must lie in the hull of the bracketing nodes
BracketBounded == Done /\ Reg # "zero" =>
    /\ (out[3] # Q(1)) => InHull(TN, PN, tab, qx, qy, out[1])
    /\ (out[3] # Q(0)) => InHull(TN, PN, tab, qx, qy, out[2])
NodeExact == Done /\ (\E i \in 1..NT : TN[i] = qx) /\ (\E j \in 1..NP : PN[j] = qy) =>
    LET i == CHOOSE i \in 1..NT : TN[i] = qx
        j == CHOOSE j \in 1..NP : PN[j] = qy
    IN  \/ out[1] = Q(tab[j][i]) /\ out[3] = Q(0)
        \/ out[2] = Q(tab[j][i]) /\ out[3] = Q(1)
        \/ out[1] = Q(tab[j][i]) /\ out[2] = Q(tab[j][i])
ZeroBelowBothMinima == Done /\ Reg = "zero" => out[1] = Q(0) /\ out[2] = Q(0)
\* inside a cell the two orders of the one-dimensional interpolations give the same rational (linear mode)
BilinearOrderIrrelevant == Done /\ Mode = "linear" =>
    ExpectedLinRO(TN, PN, tab, qx, qy, Reg, TRUE) = ExpectedLinRO(TN, PN, tab, qx, qy, Reg, FALSE)
FitsInv == Done => Fits(out[1]) /\ Fits(out[2]) /\ Fits(out[3])

Emit == (Export /\ Done) =>
    PrintT(<<"VEC", ToJson([tab |-> tab, x |-> qx, y |-> qy, a |-> out[1], b |-> out[2], w |-> out[3],
                            reg |-> Reg, inside |-> Inside(TN, PN, qx, qy),
                            lo |-> IF Reg = "zero" THEN 0 ELSE HullLo(TN, PN, tab, qx, qy),
                            hi |-> HullHi(TN, PN, tab, qx, qy), mode |-> Mode, tn |-> TN, pn |-> PN])>>)
=============================================================================
