----------------------------- MODULE MC_Factory -----------------------------
(* Model-checking wrapper for C15: prints the resolution table once (RES),   *)
(* then TLC explores every configuration of Factory within MaxKeys.          *)
EXTENDS Factory
ASSUME EmitRes
=============================================================================
