SPECIFICATION XSpec
CONSTANTS
  OC <- MCOC
  OW <- MCOW
  ODev <- MCODev
  OErr <- MCOErr
  NatP <- MCNatP
  NatH = 8
  NHolders = 1
  Policies = {"eager"}
  Depth = 4
  Pattern = "alternate"
  Export = "short"
INVARIANT HoldOnObservation
CONSTRAINT Bound
CONSTRAINT EmitWalk
CHECK_DEADLOCK FALSE
