SPECIFICATION Spec
CONSTANTS
  E = 6
  KMin = 4
  KMax = 4
  TES = {0,1,2,3,4,5,6,7,8}
  TShift = 1
  NTgtMin = 1
  NTgtMax = 1
  Vals = {0}
  FMode = "generic"
  Kinds = {"flux"}
  Variant = "ok"
  Export = TRUE
INVARIANT WellFormed
INVARIANT OutIsSortedOrder
INVARIANT FitsInv
CONSTRAINT Emit
CHECK_DEADLOCK FALSE
