SPECIFICATION Spec
CONSTANTS
  ModeCounts = {1,2,3,4,5,9,10,11,12,20,21,57,99,100}
  MaxSize = 4
  Prefixes = {"1-", "r2_"}
  Table = "map"
  KeyParse = "all-digits"
  Lookup = "own-mode"
  Export = TRUE
INVARIANT OneSolutionPerMode
INVARIANT SolutionHoldsItsMode
INVARIANT MapIsGreatestWeight
INVARIANT KeysDistinct
INVARIANT KeysRoundTrip
INVARIANT ShapesDiscriminate
CONSTRAINT Emit
CHECK_DEADLOCK FALSE
