SPECIFICATION Spec
CONSTANTS
  NMax = 2
  L0S = {6,8}
  LShift = 4
  CS = {1}
  LMinAll = 0
  TS = {1,2}
  ChemPool = 3
  ChemLayout = "rows_are_layers"
  UnitAt = "return"
  ULoop = 1
  EvalEffect = "readonly"
  ShareEffect = "readonly"
  RADS = {8}
  GMS = {64}
  TableEnds = "nearest"
  ElemType = "int64"
  WorkArrays = "inherit_element_type"
  Slicing = "layer"
  Export = FALSE
INVARIANT StructureIndependentOfElementType
CONSTRAINT Emit
CHECK_DEADLOCK FALSE
