SPECIFICATION Spec
CONSTANTS
  Starts = {0,1}
  Gaps = {1,2,3}
  PMax = 33
  MaxLen = 8
  ObsPos = {12,20}
  ObsCard = {2}
  ObsW2 = {}
  Cond = "none"
  Export = FALSE
INVARIANT ClipKeepsAll
CONSTRAINT Prune
CONSTRAINT Emit
CHECK_DEADLOCK FALSE
