---------------------------- MODULE Trace_Output ----------------------------
(* C16, binding B.  Stateless stream of two kinds of events recorded from the *)
(* real code:                                                                 *)
(*   ev = "dict": items = a nested Python dictionary (Output value encoding), *)
(*                tree  = what h5py reads back after HDF5Output.store_dictionary *)
(*                -> must equal CanonDict(items)                               *)
(*   ev = "grid": one stored bin [wn, w, wl, wlw] as exact rationals            *)
(*                -> GridOk                                                    *)
(*   ev = "tau":  the optical-depth datasets found in one group of a file      *)
(*                written through one caller (direct / contributions / program *)
(*                / optimizer) with one binner and requested output size       *)
(*                -> exactly TauAt(caller, place, binner, size)                *)
(* Rejected events are printed as <<"BAD", ..>>; every event gets a verdict.  *)
EXTENDS Output, IOUtils, TLCExt
VARIABLE l
TraceLog == ndJsonDeserialize(IOEnv.TRACE_FILE)

\* JSON arrays come back as sequences, objects as records: same shapes as the specification's values
Ok(e) == IF e.ev = "dict" THEN e.tree = CanonDict(e.items)
         ELSE IF e.ev = "tau" THEN /\ e.place \in PlacesOf(e.caller)
                                   /\ {e.tau[i] : i \in 1..Len(e.tau)} = TauAt(e.caller, e.place, e.binner, e.size)
         ELSE GridOk([wn |-> <<e.wn[1], e.wn[2]>>, w |-> <<e.w[1], e.w[2]>>,
                      wl |-> <<e.wl[1], e.wl[2]>>, wlw |-> <<e.wlw[1], e.wlw[2]>>])
Init == l = 1
Step == /\ l <= Len(TraceLog)
        /\ LET e == TraceLog[l] IN
             IF Ok(e) THEN TRUE ELSE PrintT(<<"BAD", ToJson([l |-> e.l, ev |-> e.ev])>>)
        /\ l' = l + 1
Spec == Init /\ [][Step]_l
Accepted == TLCGet("stats").diameter - 1 = Len(TraceLog)
=============================================================================
