---------------------------- MODULE MC_LikeNorm ----------------------------
(* C06, the normalisation term for observations of any size and magnitude (design check + export).              *)
(* One vector = one observation class (n bins, unit 2^u, relative error bars 2^-s_b) over the exact toy          *)
(*   native point i (1..2n):  f_i(a) = (C0[i] + a C1[i]) 2^u        bin b = native points 2b-1, 2b               *)
(*   binned model (mean of the two points) = M2[b] 2^(u-1)           sigma_b = 2^(u - s_b)                        *)
(*   data_b = binned model at a = ARef + k_b sigma_b = DNum[b] 2^(u - s_b),   DNum[b] = M2[b] 2^(s_b - 1) + k_b   *)
(* so that the residuals at a = ARef are the integers k_b exactly:  chi2 = SUM k_b^2.                            *)
(* Units:  u = -11  transit depths ~ 1e-2 with error bars 2e-6 .. 3e-5 ("ppm")                                   *)
(*         u = -91  fluxes ~ 1e-26 (physical units) with error bars 1e-30 .. 3e-29 ("flux")                       *)
(*         u = +60  values ~ 3e19 with error bars 4e15 .. 7e16 ("large")                                          *)
EXTENDS LikeNorm, TLC, Json
CONSTANTS Rule,      \* mechanism rule ("sumlog" = the code)
          NSet,      \* numbers of bins
          USel,      \* subset of 1..3: indices into UVals
          SBaseSet,  \* smallest s_b
          ARef,
          Export
VARIABLES n, ui, sb
vars == <<n, ui, sb>>

UVals  == <<-11, -91, 60>>
UNames == <<"ppm", "flux", "large">>
U      == UVals[ui]
S      == [b \in 1..n |-> sb + ((3 * b) % 5)]                      \* heteroscedastic: error bars vary by a factor 16
Kz     == [b \in 1..n |-> ((5 * b + n) % 7) - 3]                   \* residuals at ARef in units of sigma_b: -3 .. 3
C0     == [i \in 1..(2 * n) |-> 20 + ((7 * i) % 11)]
C1     == [i \in 1..(2 * n) |-> 1 + ((3 * i) % 5)]
F(i)   == C0[i] + ARef * C1[i]
M2     == [b \in 1..n |-> F(2 * b - 1) + F(2 * b)]                 \* twice the binned model, in units of 2^u
RECURSIVE P2(_)
P2(k)  == IF k = 0 THEN 1 ELSE 2 * P2(k - 1)
DNum   == [b \in 1..n |-> M2[b] * P2(S[b] - 1) + Kz[b]]
E      == LNExp(U, S)

Init == n \in NSet /\ ui \in USel /\ sb \in SBaseSet
Next == FALSE /\ UNCHANGED vars
Spec == Init /\ [][Next]_vars

\* ---- the clause: the callback's constant term is the sum of the logarithms, whatever the size and unit
NormIsSumOfLogs == LNMech(Rule, E) = "num"
\* non-vacuity (each must be REFUTED): no generated observation drives the product of the error bars out of binary64
ProductRepresentable == LNMech("logprod", E) = "num"
SquaresRepresentable == LNMech("halflogprodsq", E) = "num"
FitsInv == \A b \in 1..n : DNum[b] < 1073741824 /\ DNum[b] > 0 /\ S[b] >= 1

Emit == Export =>
    PrintT(<<"VEC", ToJson([n |-> n, unit |-> UNames[ui], u |-> U, s |-> S, k |-> Kz, a |-> ARef, c0 |-> C0, c1 |-> C1,
                            dnum |-> DNum, m2 |-> M2, sumexp |-> LNSumExp(E),
                            chi2 |-> FoldLeft(LAMBDA acc, x : acc + x * x, 0, Kz),
                            prod |-> LNMech("logprod", E), prodsq |-> LNMech("halflogprodsq", E)])>>)
=============================================================================
