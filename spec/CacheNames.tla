----------------------------- MODULE CacheNames -----------------------------
(***************************************************************************)
(* C14 -- "a molecule requested from the cache is loaded once from the     *)
(* configured path and the same object is served thereafter", for          *)
(* directories whose molecule NAMES are related: Sub(x, m) says the name   *)
(* of x is a substring of the name of m (H2 / H2O, CO / CO2, O / O2 / O3,  *)
(* He-H / He-H2 ...).  The cache is one long-lived object over a history   *)
(* of Request(m) / SetPath(p) / Clear.                                     *)
(*   Disk(p, m)   table id of m under path p (0: no file)                  *)
(*   dict[m]      [table, src] of the cached object (table 0: absent)      *)
(*   first[m]     ghost: the path in force when m was first requested      *)
(*                (successfully) since the cache was last emptied          *)
(* The documented cache loads exactly the molecule asked for; the relation *)
(* Sub does not appear in it.  Variant for the expected counterexample:    *)
(*   SubstringFilter = TRUE   the request is matched as a substring        *)
(*                            filter: every file whose name is a substring *)
(*                            of the request enters the cache as well.     *)
(***************************************************************************)
EXTENDS Integers, Sequences, FiniteSets, TLC, Json

CONSTANTS Paths, Mols, Disk(_, _), Sub(_, _), SubstringFilter, Depth, Hist
VARIABLES path, dict, first, hist
cvars == <<path, dict, first>>
vars  == <<path, dict, first, hist>>

NoPath == "none"
Absent == [table |-> 0, src |-> ""]
Empty  == [m \in Mols |-> Absent]
Never  == [m \in Mols |-> NoPath]

Log(act, arg, res, d) ==
    hist' = Append(hist, [act |-> act, arg |-> arg, res |-> res, dict |-> d])

Init == path = NoPath /\ dict = Empty /\ first = Never /\ hist = <<>>

SetPath(p) == /\ path' = p /\ UNCHANGED <<dict, first>> /\ Log("SetPath", p, "ok", dict)

Clear == /\ dict' = Empty /\ first' = Never /\ UNCHANGED path /\ Log("Clear", "", "ok", dict')

Request(m) ==
    IF dict[m].table # 0
    THEN /\ UNCHANGED cvars /\ Log("Request", m, "hit", dict)
    ELSE IF path # NoPath /\ Disk(path, m) # 0
    THEN LET also == IF SubstringFilter
                     THEN {x \in Mols : Sub(x, m) /\ Disk(path, x) # 0 /\ dict[x].table = 0}
                     ELSE {}
             d2 == [x \in Mols |-> IF x \in also \cup {m} THEN [table |-> Disk(path, x), src |-> path] ELSE dict[x]]
         IN  /\ dict' = d2
             /\ first' = [first EXCEPT ![m] = path]
             /\ UNCHANGED path
             /\ Log("Request", m, "load", d2)
    ELSE /\ UNCHANGED cvars /\ Log("Request", m, "error", dict)

Next == (\E p \in Paths : SetPath(p)) \/ (\E m \in Mols : Request(m)) \/ Clear
Spec == Init /\ [][Next]_vars

\* ---------------------------------------------------------------- property
TypeOK == path \in Paths \cup {NoPath} /\ \A m \in Mols : first[m] \in Paths \cup {NoPath}
\* nothing enters the cache that was not asked for
NothingElseEnters == \A m \in Mols : dict[m].table # 0 => first[m] # NoPath
\* every cached (hence every served) table is the table of that molecule at the path in force when
\* it was first requested -- whatever was requested, and whatever the path was changed to, in between
ServedFromFirstRequestPath ==
    \A m \in Mols : dict[m].table # 0 => (dict[m].src = first[m] /\ dict[m].table = Disk(first[m], m))
\* a request changes the cache at the requested molecule only
OnlyTheRequestedChanges ==
    [][\A m \in Mols : dict'[m] # dict[m] =>
          (hist'[Len(hist')].act = "Clear" \/ (hist'[Len(hist')].act = "Request" /\ hist'[Len(hist')].arg = m))]_vars
\* non-vacuity (each must be refuted): a molecule served from a path that is no longer the configured one,
\* requested after a molecule whose name contains its name was loaded
NeverStalePathServed == \A m \in Mols : dict[m].table # 0 => dict[m].src = path
NeverSubAfterSuper == ~ \E i, j \in 1..Len(hist) : i < j /\ hist[i].res = "load" /\ hist[j].res = "load"
                                                  /\ Sub(hist[j].arg, hist[i].arg)

View == cvars
Cons == IF Hist THEN /\ (Len(hist) = Depth => PrintT(<<"NHIST", ToJson([h |-> hist])>>))
                     /\ Len(hist) < Depth
        ELSE TLCGet("level") < Depth
=============================================================================
