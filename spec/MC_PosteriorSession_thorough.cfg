SPECIFICATION Spec
CONSTANTS
  NObs = 4
  NSel = 2
  NDer = 2
  Ranks = {1,2,3,4,5}
  K = 4
  Sizes = {1,2,3,4,5,6,7,8,9}
  Binner = "fresh"
  Gather = "sample-order"
INVARIANT BinnedToFittedObservation
INVARIANT DerivedInSampleOrder
INVARIANT DerivedWeightsAligned
INVARIANT GatherPermutes
CHECK_DEADLOCK FALSE
