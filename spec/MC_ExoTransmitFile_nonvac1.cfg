SPECIFICATION ESpec
CONSTANTS
  WlNm <- MCWl4
  Reorder = "argsort"
  Export = FALSE
INVARIANT NeverOtherThanStockOrder
CHECK_DEADLOCK FALSE
