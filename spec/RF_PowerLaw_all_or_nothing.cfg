SPECIFICATION Spec
CONSTANTS
  NV = 2
  MaxWrites = 1
  Variant = "all_or_nothing"
  Export = FALSE
CHECK_DEADLOCK FALSE
INVARIANT AtMostDeepValue
