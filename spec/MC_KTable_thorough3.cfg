SPECIFICATION KSpec
CONSTANTS
  NL = 3
  NW = 1
  NT = 3
  NG = 3
  KCodes = {0, 10101, 10003, 30001, 150115, 151515, 20502, 10100, 151500}
  WIds = {5, 6}
  LMode = "mixed"
  ECodes = {0, 1}
  TCodes = {111,123,321,212}
  QuadIds = {2}
  ClampE = 15
  SlackE = 14
  Variant = "code"
  Btab <- MCBtab
  Bstar <- MCBstar
  TabId = 2
  Rp = 2
  Rs = 5
  Dist = 3
  KD = 2
  Export = FALSE
INVARIANT DegenerateEqualsXsec
INVARIANT TransmittanceInUnitInterval
INVARIANT BetweenExtremes
INVARIANT JensenLowerBound
INVARIANT KTelescoping
INVARIANT KHotColdBounds
INVARIANT KFitsInv
CONSTRAINT KEmitVec
CHECK_DEADLOCK FALSE
