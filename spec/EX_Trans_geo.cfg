SPECIFICATION Spec
CONSTANTS
  Family = "geo"
  NL = 4
  NW = 1
  NC = 1
  AVals = {0}
  LVals = {1}
  RpSet = {20,70}
  IncSet = {1,2,5}
  RsSet = {50}
  TVals = {0}
  Basis = FALSE
  Export = TRUE
CONSTRAINT Emit
CHECK_DEADLOCK FALSE
INVARIANT ChordPositive
INVARIANT ChordIncreasing
INVARIANT NewReachesTop
