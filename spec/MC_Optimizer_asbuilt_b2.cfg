SPECIFICATION Spec
CONSTANTS
  ModelSel = {1,3}
  BoundSel = {1,2}
  FactorSel = {1}
  PriorSel = {1,2,4}
  ModeSel = {1,2}
  KSel = {2,4}
  MaxLevel = 6
  PriorTable = "persist_all"
  ViewSpace = "param_mode"
  DerivedLookup = "derived"
  ObsMerge = "always"
  ModeStore = "canonical"
  UpdateGuard = "before"
  BoundaryGuard = "none"
  UpdateArg = "kept"
  TrackArg = FALSE
  FitEntry = "recompile"
  FileRoute = "as_api"
  Files <- MCNoFiles
  ModeCalls <- MCModeCalls
  InvalidModes <- MCInvalidOne
  ObsParams <- MCObsParams
  Record = FALSE
  Export = "none"
  Params <- MCParams
  CallParams <- MCCallParams
  Derived <- MCDerived
  InitSetting <- MCInitSetting
  InitDerived <- MCInitDerived
  InitValue <- MCInitValue
  UnknownFit <- MCUnknownFit
  UnknownDer <- MCUnknownDer
  BoundPairs <- MCBoundPairs
  Factors <- MCFactors
  UserPriors <- MCUserPriors
  K <- MCK
CONSTRAINT LevelBound
CHECK_DEADLOCK FALSE
PROPERTY RoundTrip
