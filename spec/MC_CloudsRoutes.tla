--------------------------- MODULE MC_CloudsRoutes ---------------------------
(***************************************************************************)
(* C19, design level: the ROUTE by which a cloud / haze reaches the path   *)
(* integral.                                                               *)
(*                                                                         *)
(* A contribution object computes its extinction in a generator            *)
(* (prepare_each: one yielded array per component) and HOLDS an array      *)
(* (the attribute sigma_xsec) that the path integral reads.  There are two *)
(* mechanisms and five public ways to reach them:                          *)
(*                                                                         *)
(*   mechanism "sum"   prepare(): runs the generator, sums the YIELDED     *)
(*                     arrays and stores the sum in the attribute          *)
(*        routes       prepare   contribution.prepare(model, wngrid)       *)
(*                     model     model.model()                             *)
(*                     contrib   model.model_contrib()                     *)
(*   mechanism "each"  the caller iterates the generator and integrates at *)
(*                     every yield with whatever the attribute holds THEN  *)
(*        routes       each      for .. in contribution.prepare_each(..)   *)
(*                     full      model.model_full_contrib()                *)
(*                               (taurex --plot, store_contributions, the  *)
(*                               light-curve wrapper)                      *)
(*                                                                         *)
(* "acts only inside its declared range, with the declared magnitude" is a *)
(* statement about what is INTEGRATED, on every route, at every use of a   *)
(* long-lived object whose bounds are changed through its setters between  *)
(* uses.  State:                                                           *)
(*   lev            the grid of the model                                  *)
(*   kind, cfg      the contribution and its current bounds / deck         *)
(*   held           the attribute (<<>>: never assigned)                   *)
(*   obs            what the path integral read at the last use            *)
(*   yielded        what the generator yielded at the last use             *)
(* Action Use(r, c): the bounds are set to c and the object is evaluated   *)
(* through route r.                                                        *)
(*                                                                         *)
(* Store = what the generator leaves in the attribute before it yields:    *)
(*   "component"  the yielded array (the rule of the implementation)       *)
(*   "working"    its working representation (the grey haze computes on an *)
(*                ascending pressure axis: the array in reversed layer     *)
(*                order) -- class of seeded change C19-10                  *)
(*   "nothing"    the generator does not assign the attribute: the "each"  *)
(*                mechanism integrates what an EARLIER use left there      *)
(* "working" and "nothing" are expected counterexamples; restricted to the *)
(* routes of the "sum" mechanism both are invisible (MC_CloudsRoutes_      *)
(* blind.cfg holds) -- which is all the bindings exercised before round 4. *)
(***************************************************************************)
EXTENDS Clouds
CONSTANTS NMax, L0, Spacings, BStep, RKinds, Routes, Store, MaxUses, Export
VARIABLES lev, kind, cfg, held, obs, yielded, hist, fin
vars == <<lev, kind, cfg, held, obs, yielded, hist, fin>>

SpacingSeqs == UNION {[1..m -> Spacings] : m \in 1..NMax}
RECURSIVE PosOf(_, _)
PosOf(sp, k) == IF k = 1 THEN L0 ELSE PosOf(sp, k - 1) - sp[k - 1]
GridOf(sp) == [k \in 1..(Len(sp) + 1) |-> PosOf(sp, k)]
Grids == {GridOf(sp) : sp \in SpacingSeqs}
Cen2(lv) == [k \in 1..NLay(lv) |-> lv[k] + lv[k + 1]]
Positions(lv) == {p \in (lv[Len(lv)] - 2)..(lv[1] + 2) : (lv[1] + 2 - p) % BStep = 0}
UnsetB == [set |-> FALSE, x |-> 0]
Bounds(lv) == {UnsetB} \cup {[set |-> TRUE, x |-> p] : p \in Positions(lv)}
Cfgs(kd, lv) == IF kd = "deck" THEN {[b |-> UnsetB, t |-> UnsetB, deck |-> d] : d \in Positions(lv)}
                ELSE {[b |-> bb, t |-> tt, deck |-> 0] : bb \in Bounds(lv), tt \in Bounds(lv)}
Mech(r) == IF r \in {"each", "full"} THEN "each" ELSE "sum"

\* the component the generator yields (layer order of the model: surface first)
Component(kd, lv, c) ==
    [k \in 1..NLay(lv) |->
        IF kd = "flat" THEN FlatFrac(lv, k, c.b, c.t)
        ELSE IF kd = "lee" THEN LeeMask(lv, Cen2(lv), k, c.b, c.t)
        ELSE IF DeckOpaque(Cen2(lv), k, c.deck) THEN Q(1) ELSE Q(0)]
Reversed(s) == [k \in 1..Len(s) |-> s[Len(s) + 1 - k]]

Init == /\ lev \in Grids
        /\ kind \in RKinds
        /\ cfg = [b |-> UnsetB, t |-> UnsetB, deck |-> 0]
        /\ held = <<>> /\ obs = <<>> /\ yielded = <<>>
        /\ hist = <<>> /\ fin = FALSE
Use(r, c) ==
    /\ Len(hist) < MaxUses
    /\ LET comp == Component(kind, lev, c)
           left == IF Store = "component" THEN comp
                   ELSE IF Store = "working" THEN Reversed(comp)
                   ELSE held
       IN  /\ yielded' = comp
           /\ held' = IF Mech(r) = "sum" THEN comp ELSE left
           /\ obs'  = IF Mech(r) = "sum" THEN comp ELSE left
    /\ cfg' = c
    /\ hist' = Append(hist, [route |-> r, b |-> c.b, t |-> c.t, deck |-> c.deck])
    /\ UNCHANGED <<lev, kind, fin>>
\* (a deterministic last step, so that a simulated walk is exported exactly once)
Finish == /\ Len(hist) = MaxUses /\ ~fin /\ fin' = TRUE
          /\ UNCHANGED <<lev, kind, cfg, held, obs, yielded, hist>>
Next == (\E r \in Routes : \E c \in Cfgs(kind, lev) : Use(r, c)) \/ Finish
Spec == Init /\ [][Next]_vars

Used == Len(hist) > 0
\* (exhaustive configs: the history is only needed for the export)
ViewNoHist == <<lev, kind, cfg, held, obs, yielded, Len(hist), fin>>
\* what is integrated obeys the CURRENT declared range, on every route and at every use
OwnRange(p) == IF kind = "deck"
               THEN \A k \in 1..NLay(lev) : (p[k] = Q(1)) <=> DeckOpaque(Cen2(lev), k, cfg.deck)
               ELSE ProfileAdmissible(lev, cfg.b, cfg.t, p)
IntegratedOwnRange == Used => (obs # <<>> /\ OwnRange(obs))
\* ... and is what the contribution yields (no route sees another array than the others)
RouteIndependent == Used => obs = yielded
\* the yielded component itself obeys the range (both mechanisms hand it on)
YieldedOwnRange == Used => OwnRange(yielded)

Emit == (Export /\ fin) =>
    PrintT(<<"ROUTES", ToJson([lev |-> lev, kind |-> kind,
                               uses |-> [j \in 1..Len(hist) |->
                                   [route |-> hist[j].route, b |-> hist[j].b, t |-> hist[j].t, deck |-> hist[j].deck,
                                    adm |-> Adm(lev, hist[j].b, hist[j].t), inv |-> Inverted(hist[j].b, hist[j].t),
                                    f |-> Component(kind, lev, hist[j])]]])>>)
=============================================================================
