------------------------ MODULE MC_PosteriorSession ------------------------
(* Behaviours of PosteriorSession for the harness (binding C): the history of settings changes and fits  *)
(* with, for every fit, what the specification says the reported solution belongs to.                    *)
EXTENDS PosteriorSession
CONSTANTS Depth, Export
VARIABLES hist, start
HInit == Init /\ hist = <<>> /\ start = <<obs, sel, der, np>>
HNext == /\ Next
         /\ UNCHANGED start
         /\ hist' = Append(hist,
                IF sol' # sol \/ (obs' = obs /\ sel' = sel /\ der' = der)
                THEN <<"fit", sol'.n, sol'.binned_to, sol'.fitted, sol'.derived>>
                ELSE IF obs' # obs THEN <<"obs", obs', 0, 0, 0>>
                ELSE IF sel' # sel THEN <<"sel", sel', 0, 0, 0>>
                ELSE <<"der", der', 0, 0, 0>>)
HSpec == HInit /\ [][HNext]_<<svars, hist, start>>
Bound == Len(hist) <= Depth
HEmit == (Export /\ Len(hist) = Depth /\ hist[Depth][1] = "fit") =>
           PrintT(<<"WALK", ToJson([init |-> start, walk |-> hist])>>)
=============================================================================
