SPECIFICATION Spec
CONSTANTS
  N = 2
  NMin = 1
  D = 1
  Vals = {0,1}
  Wts = {0,1,2}
  Totals <- MCTotals3
  Export = FALSE
INVARIANT WeightsSumToOne
CONSTRAINT Emit
CHECK_DEADLOCK FALSE
