SPECIFICATION Spec
CONSTANTS
  NMin = 2
  NMax = 7
  TVals = {1,2,4}
  SWs = {0,10,150}
  MaxNodes = 1
  Limits = {2,1000}
  Kinds = {"npoint"}
  Rule = "spec"
  RodVariant = "spec"
  SignedNodes = "some"
  Export = TRUE
INVARIANT InvalidNeverNaN
INVARIANT OnePerLayer
INVARIANT OnlyDocumentedRejections
INVARIANT PositiveFinite
INVARIANT WithinControlRange
INVARIANT ConstantWhenControlsEqual
INVARIANT NPointRejectedIff
INVARIANT StrictImpliesInvalid
INVARIANT NonPositiveNodeIsInverted
INVARIANT SignedAgreesOnPositive
INVARIANT GuillotListedRejected
INVARIANT GuillotPhysicalAccepted
INVARIANT FitsInv
CONSTRAINT Emit
CHECK_DEADLOCK FALSE
