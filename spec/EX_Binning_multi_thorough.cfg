SPECIFICATION Spec
CONSTANTS
  E = 5
  KMin = 1
  KMax = 3
  TES = {0,2,3,5,6,8}
  TShift = 1
  NTgtMin = 2
  NTgtMax = 3
  Vals = {0}
  FMode = "generic"
  Kinds = {"flux","simple","native"}
  Variant = "ok"
  Export = TRUE
INVARIANT WellFormed
INVARIANT OutIsSortedOrder
INVARIANT FitsInv
CONSTRAINT Emit
CHECK_DEADLOCK FALSE
