SPECIFICATION Spec
CONSTANTS
  E = 4
  KMin = 1
  KMax = 3
  TES = {0,2,3,6}
  TShift = 1
  NTgtMin = 2
  NTgtMax = 3
  Vals = {0}
  FMode = "generic"
  Kinds = {"flux","simple","native"}
  Variant = "ok"
  Export = TRUE
INVARIANT WellFormed
INVARIANT OutIsSortedOrder
INVARIANT FitsInv
CONSTRAINT Emit
CHECK_DEADLOCK FALSE
