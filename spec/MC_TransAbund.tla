--------------------------- MODULE MC_TransAbund ---------------------------
(* C01, round 5 -- the MAGNITUDE of the mixing ratio as a dimension of the quantifier.                    *)
(*                                                                                                         *)
(* "tau = sum of cross-section x number density x chord length ... for all abundance profiles, opacity     *)
(* tables of any magnitude".  The number density of an absorber is the layer's density times its mixing     *)
(* ratio; the documented domain of a mixing ratio is the whole range 1e-20 .. 1.  The weighted opacity of a  *)
(* layer is a PRODUCT: the same optical depth is reached by an abundant gas with a weak cross-section and by *)
(* a trace gas with a strong one (a resonance line).  Every earlier input kept the mixing ratio between 1e-8 *)
(* and 1e-2.                                                                                               *)
(*                                                                                                         *)
(* Magnitudes are <<mantissa, decade>> pairs (32-bit integers cannot hold 1e20).  A layer of exponent e has  *)
(*     mixing ratio   <<Mant, -(e+1)>>        = Mant/10 x 10^-e, i.e. in the decade [10^-(e+1), 10^-e)      *)
(*     cross-section  <<x * (10 \div Mant), e>>  (10^e times stronger)                                       *)
(* so that the weighted opacity is the order-one integer x at EVERY exponent.                                *)
(* Variants of the implementation (variable floor):                                                          *)
(*     99  documented: weighted opacity = cross-section x mixing ratio, whatever the magnitudes              *)
(*     n   a mixing ratio below 10^-n is taken for "gas absent" and the layer is skipped (a threshold where   *)
(*         a test for zero was meant)                                                                        *)
(* MagnitudeFree holds for 99; TLC must refute it for every n in Floors (RefuteFloor); FloorBlind says why   *)
(* inputs whose exponents all stay under the floor cannot see it.                                            *)
EXTENDS Integers, Sequences, FiniteSets, TLC, Json
CONSTANTS NL,       \* number of (blocks of) layers
          AbExps,   \* lattice of exponents e: mixing ratio in [10^-(e+1), 10^-e)
          AbOrd,    \* the ordinary exponent (every earlier fixture)
          Floors,   \* the implementation variants
          Xs,       \* order-one weighted opacities (units of ln 2 per unit of chord)
          Mant,     \* mantissa of the mixing ratio, a divisor of 10
          Export
VARIABLES phase, inp, out
vars == <<phase, inp, out>>

Layers == 1..NL
\* chord segments of the ray tangent in layer j through shell j+i-1 (any positive table; the geometry is checked elsewhere)
LTab == [j \in Layers |-> [i \in 1..(NL - j + 1) |-> 2 * j + 3 * i]]

MTimes(a, b) == <<a[1] * b[1], a[2] + b[2]>>
\* the value of a magnitude pair that is an integer of order one
MVal(a) == CASE a[2] = 0 -> a[1]
             [] a[2] = 0 - 1 /\ (a[1] % 10) = 0 -> a[1] \div 10
Mix(e) == <<Mant, 0 - (e + 1)>>
Sigma(x, e) == <<x * (10 \div Mant), e>>
\* a mixing ratio in decade e is below 10^-n  <=>  e >= n
Below(e, n) == e >= n
Weighted(x, e, floor) == IF floor # 99 /\ Below(e, floor) THEN 0 ELSE MVal(MTimes(Sigma(x, e), Mix(e)))

RECURSIVE SumTo(_, _, _)
SumTo(f(_), a, b) == IF a > b THEN 0 ELSE f(a) + SumTo(f, a + 1, b)
Tau(x, e, floor) == [j \in Layers |->
    LET term(k) == Weighted(x[k], e[k], floor) * LTab[j][k - j + 1] IN SumTo(term, j, NL)]

Init == /\ phase = "in" /\ out = <<>>
        /\ \E x \in [Layers -> Xs], e \in [Layers -> AbExps], f \in Floors \cup {99} :
              \* exported classes: one magnitude besides the ordinary one, uniform or in some layers only
              /\ \E v \in AbExps : \A k \in Layers : e[k] \in {AbOrd, v}
              /\ inp = [x |-> x, e |-> e, floor |-> f]
Evaluate == phase = "in" /\ phase' = "done" /\ out' = [tau |-> Tau(inp.x, inp.e, inp.floor)] /\ UNCHANGED inp
Next == Evaluate
Spec == Init /\ [][Next]_vars
Done == phase = "done"

\* ---------------------------------------------------------------- clauses
\* the optical depth depends on the product only: it is the one of the ordinary abundance with the same weighted opacity
Same == out.tau = Tau(inp.x, [k \in Layers |-> AbOrd], 99)
MagnitudeFree == (Done /\ inp.floor = 99) => Same
RefuteFloor   == (Done /\ inp.floor # 99) => Same
FloorBlind    == (Done /\ inp.floor # 99 /\ \A k \in Layers : ~Below(inp.e[k], inp.floor)) => Same
\* an absorbing layer under the ray always adds optical depth (no magnitude at which it is lost)
EveryLayerCounts == (Done /\ inp.floor = 99) => \A j \in Layers : out.tau[j] >= inp.x[j] * LTab[j][1]
Fits == Done => \A j \in Layers : out.tau[j] < 100000

Emit == (Export /\ Done /\ inp.floor = 99 /\ \E k \in Layers : inp.e[k] # AbOrd)
            => PrintT(<<"ABVEC", ToJson([fam |-> "ab", inp |-> [x |-> inp.x, e |-> inp.e], out |-> out.tau])>>)
=============================================================================
