---------------------------- MODULE MC_CloudsMix ----------------------------
(***************************************************************************)
(* C19, design level: a cloud / haze contribution next to other absorbers  *)
(* in one tangent layer.  NC contributions (any of them may be the haze)   *)
(* with optical depths from TAUS at each of NW wavenumbers, i.e. also      *)
(* "line cores saturated, windows transparent" in the same layer, are      *)
(* accumulated in list order; before each one the early-exit rule is       *)
(* applied.  Rule = "all" (stop when the layer is opaque at every          *)
(* wavenumber) satisfies LayerAdmissible; Rule = "any" (stop as soon as    *)
(* one wavenumber is opaque) is the expected counterexample: whatever      *)
(* comes later in the list is lost in the windows.                         *)
(***************************************************************************)
EXTENDS Clouds
CONSTANTS NW, NC, TAUS, Rule, Cut
VARIABLES taus, acc, c, done
vars == <<taus, acc, c, done>>
W == 1..NW

Init == /\ taus \in [1..NC -> [W -> TAUS]]
        /\ acc = [w \in W |-> 0]
        /\ c = 1
        /\ done = FALSE
Add == /\ ~done /\ c <= NC /\ ~CutoffReached(acc, W, Rule, Cut)
       /\ acc' = [w \in W |-> acc[w] + taus[c][w]]
       /\ c' = c + 1
       /\ UNCHANGED <<taus, done>>
EarlyExit == /\ ~done /\ c <= NC /\ CutoffReached(acc, W, Rule, Cut)
             /\ done' = TRUE
             /\ UNCHANGED <<taus, acc, c>>
Finish == /\ ~done /\ c > NC
          /\ done' = TRUE
          /\ UNCHANGED <<taus, acc, c>>
Next == Add \/ EarlyExit \/ Finish
Spec == Init /\ [][Next]_vars

SumOrLicensed == done => LayerAdmissible(acc, taus, W, Cut)
\* the result does not depend on the position of a contribution in the list (up to the licence):
\* follows from SumOrLicensed because the sum is symmetric; stated for the reader
NeverMoreThanSum == \A w \in W : acc[w] <= TauSum(taus, w, NC)
=============================================================================
