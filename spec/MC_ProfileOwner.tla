--------------------------- MODULE MC_ProfileOwner ---------------------------
(* ProfileOwner.tla with a history variable: TLC -simulate generates the walks *)
(* (settings of either model, control of the shared profile, rebuilds,         *)
(* evaluations) that harness/fx_c12owner.py replays on real forward models.    *)
EXTENDS ProfileOwner, Json
CONSTANTS Export, Depth,
          Aligned    \* TRUE: the models start on the same grid (as models built from one parameter file do) and diverge through the walk
VARIABLES hist, start
HInit == /\ Init /\ hist = <<>> /\ start = <<own, ctl>>
         /\ Aligned => \A o \in 1..Owners : Tail(GridOf(own, o)) = Tail(GridOf(own, 1))
HNext == /\ \/ \E o \in 1..Owners, k \in 1..4, v \in 0..(NV - 1) :
                  SetOwn(o, k, v) /\ hist' = Append(hist, <<"set", o, k, v>>)
            \/ \E v \in 0..(NV - 1) : SetCtl(v) /\ hist' = Append(hist, <<"ctl", 0, 0, v>>)
            \/ \E o \in 1..Owners, n \in 0..(NL - 1) :
                  Rebuild(o, n) /\ hist' = Append(hist, <<"rebuild", o, 0, n>>)
            \/ \E o \in 1..Owners : Evaluate(o) /\ hist' = Append(hist, <<"eval", o, 0, 0>>)
         /\ UNCHANGED start
HSpec == HInit /\ [][HNext]_<<vars, hist, start>>
HBound == Len(hist) <= Depth
HEmit == (Export /\ Len(hist) = Depth /\ hist[Depth][1] = "eval") =>
            PrintT(<<"WALK", ToJson([own |-> start[1], ctl |-> start[2], walk |-> hist])>>)
=============================================================================
