SPECIFICATION Spec
CONSTANTS
  NL = 2
  NC = 3
  NWSet = {8, 9, 13, 17, 31, 64}
  HVals = {0, 3}
  ExitStride = 1
  Export = TRUE
INVARIANT ExitOnlySaturatedEverywhere
INVARIANT SameRuleAsSmallGrids
INVARIANT NoExitWhileThin
INVARIANT LicensedExitTaken
CONSTRAINT Emit
CHECK_DEADLOCK FALSE
