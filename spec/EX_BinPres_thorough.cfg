SPECIFICATION Spec
CONSTANTS
  U = 4
  NES = {2,3,5,6,7,9,10,11}
  NESb = {2,5,6,9,10}
  KMin = 2
  KMax = 3
  TES = {1,3,4,5,7,11,13}
  NTgtMin = 1
  NTgtMax = 2
  Variant = "ok"
  Export = TRUE
INVARIANT WellFormedP
INVARIANT PresRefinesDef
INVARIANT FitsP
CONSTRAINT EmitP
CHECK_DEADLOCK FALSE
