SPECIFICATION Spec
CONSTANTS
  MaxKeys = 3
  Export = TRUE
INVARIANT UniqueResolution
INVARIANT DocumentedClass
INVARIANT CaseFolded
INVARIANT KeysReachCtor
INVARIANT UnknownKeyIsError
INVARIANT UnknownSelectorIsError
INVARIANT TypedAsDocumented
INVARIANT DocumentedKeysExist
CONSTRAINT Emit
CHECK_DEADLOCK FALSE
