SPECIFICATION Spec
CONSTANTS
  NN = 8
  Wins <- MCWinsSmall
  NTP = 2
  NG = 1
  Keys = {"size", "first", "window"}
  ModeReads = {"eval", "construct"}
INVARIANT RefuteSize
INVARIANT RefuteFirst
INVARIANT RefuteWindowTwin
INVARIANT RefuteLatched
INVARIANT OnRequestedGrid
CHECK_DEADLOCK FALSE
