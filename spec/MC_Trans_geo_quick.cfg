SPECIFICATION Spec
CONSTANTS
  Family = "geo"
  NL = 4
  NW = 1
  NC = 1
  AVals = {0}
  LVals = {1}
  RpSet = {10,17,40}
  IncSet = {1,2,3,6}
  RsSet = {50}
  TVals = {0}
  Basis = FALSE
  Export = FALSE
CONSTRAINT Emit
CHECK_DEADLOCK FALSE
INVARIANT ChordPositive
INVARIANT ChordIncreasing
INVARIANT NewReachesTop
