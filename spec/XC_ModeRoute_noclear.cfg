SPECIFICATION Spec
CONSTANTS
  Modes = {"linear", "exp"}
  KeyWritten = "xsec_interpolation"
  KeyRead = "xsec_interpolation"
  ClearOnSet = FALSE
  Export = FALSE
INVARIANT ServedModeIsWanted
INVARIANT EndsInLoad
CONSTRAINT Emit
CHECK_DEADLOCK FALSE
