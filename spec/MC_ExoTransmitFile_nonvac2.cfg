SPECIFICATION ESpec
CONSTANTS
  WlNm <- MCWl4
  Reorder = "argsort"
  Export = FALSE
INVARIANT NeverMixedOrder
CHECK_DEADLOCK FALSE
