-------------------------- MODULE Trace_Likelihood --------------------------
(***************************************************************************)
(* C06, binding B: sequences of callback invocations recorded on real      *)
(* optimizers (nestle / MultiNest / PolyChord wrappers over a real          *)
(* TransmissionModel and a real observation) are validated call by call.   *)
(*                                                                         *)
(* One trace (tid) = one optimizer.  Numbers are integers scaled by e.S    *)
(* (parameters in the space of their prior: value, or log10(value) for log *)
(* priors), unit-cube coordinates are exact pairs [n, d].                  *)
(*   setup : kinds[i], par[i] = [a, b] (bounds or mean/std, scaled), nfit, *)
(*           proj = projection of all tracked parameters (fitted first,    *)
(*           in fit order, then unfitted ones);                            *)
(*           orole[i] = "model" | "offset" | "scale": where the i-th       *)
(*           fitted parameter lives (the forward model, or the OBSERVATION *)
(*           as an additive offset [ppm] / multiplicative scale of its     *)
(*           spectrum);                                                    *)
(*           d0[b] = the observation's base spectrum in integer units of   *)
(*           1e-7 (<<>> for an observation without parameters), off0 / sc0 *)
(*           = initial offset / scale (scaled by S)                        *)
(*   prior : u[i], z[i] (scaled normal quantile of u[i], harness table),   *)
(*           out[i] scaled result of the prior callback                    *)
(*   like  : x[i] scaled point handed to the callback, before / after      *)
(*           projections, oc = outcome of the independent oracle model     *)
(*           ("ok", exception class, "NaNAll" = the oracle model has NaN   *)
(*           in every bin without raising, "NaNSome" = in some bins),      *)
(*           ret = "num" | "nan" | "raise",                                *)
(*           chi = round(-2 (ret - C) * 10^4), zs[b] = round(100 z_b) of   *)
(*           the oracle's residuals z_b = (data_b - binned_b)/sigma_b      *)
(*           over the comparable (non-NaN) bins;                           *)
(*           dat8[b] = the data side of those residuals in units of        *)
(*           1e-7 / 8: the observation's spectrum for THIS call must be    *)
(*           d0[b] * scale + 10 * offset[ppm] at the scale / offset the    *)
(*           vector x of this call describes (initial values if unfitted)  *)
(*           -- never the values of an earlier call or of compute_fit time *)
(*           tot[l] = the total mixing ratio of the non-fill gases in      *)
(*           layer l that the vector x of this call describes, in units of *)
(*           1 / TS (computed by the harness from separate gas-profile     *)
(*           objects: constant and layer-dependent profiles): an           *)
(*           atmosphere above unity in SOME layer never gets a finite      *)
(*           likelihood, and the model rejects the chemistry only if some  *)
(*           layer reaches unity (one unit of rounding either way)         *)
(*   setobs: the SAME optimizer is pointed at another observation          *)
(*           (set_observed ; compile_params ; compute_fit -> new callbacks *)
(*           ): d0 = base spectrum of the new observation, proj = the      *)
(*           projection afterwards, keep[j] = 1 where the projected        *)
(*           parameter lives on the forward model -- set_observed leaves   *)
(*           those untouched (the new observation's own parameters start   *)
(*           from their initial values); the fitted parameters, their      *)
(*           order and their priors stay; every later `like` event is      *)
(*           judged against the NEW observation (the oracle's residuals    *)
(*           zs / data side dat8 are taken from it)                        *)
(* A trace stops at its first rejected event (stateful); every rejected    *)
(* tid is printed as <<"BAD", ..>>.                                        *)
(***************************************************************************)
EXTENDS Integers, Sequences, FiniteSets, TLC, Json, IOUtils, TLCExt, LikeRules
VARIABLES l, tid, st, dead
\* st = [kinds, par, nfit, proj, orole, d0, off0, sc0, memo]   memo: set of <<x, chi>> of finite valid (oc = "ok") calls seen in this trace
TraceLog == ndJsonDeserialize(IOEnv.TRACE_FILE)

RECURSIVE SumSq(_), SumAbs(_)
SumSq(s)  == IF s = <<>> THEN 0 ELSE Head(s) * Head(s) + SumSq(Tail(s))
SumAbs(s) == IF s = <<>> THEN 0 ELSE Abs(Head(s)) + SumAbs(Tail(s))

PriorOk(s, e) ==
    /\ Len(e.out) = s.nfit /\ Len(e.u) = s.nfit
    /\ \A i \in 1..s.nfit :
         LET a == Q(s.par[i][1])  b == Q(s.par[i][2])  u == Norm(e.u[i][1], e.u[i][2])
         IN  IF s.kinds[i] \in {"uniform", "loguniform"}
             THEN Close(e.out[i], 1, UniformSample(a, b, u), 1)
             ELSE \* mean + std * Z(u), z scaled by S: tolerance covers the rounding of z
                  Close(e.out[i], 1, GaussSample(a, b, Norm(e.z[i], e.S)), 2 + (Abs(s.par[i][2]) \div e.S))

\* the data side of chi2 follows the vector of this call (observation parameters: offset [ppm], scale)
ObsValue(s, e, role, init) == LET P == {i \in 1..s.nfit : s.orole[i] = role}
                              IN  IF P = {} THEN init ELSE e.x[CHOOSE i \in P : TRUE]
DataOk(s, e) ==
    \/ s.d0 = <<>> /\ e.dat8 = <<>>
    \/ /\ s.d0 # <<>> /\ Len(e.dat8) = Len(s.d0)
       /\ \A b \in 1..Len(s.d0) :          \* dat8 / 8 = d0 * (xs / S) + 10 * (xo / S)
             e.dat8[b] * (e.S \div 8) = s.d0[b] * ObsValue(s, e, "scale", s.sc0) + 10 * ObsValue(s, e, "offset", s.off0)
\* invalid atmospheres, layer by layer
LayerOk(e) ==
    /\ LayersAbove(e.tot, e.TS + 1, "any") => e.ret # "num"
    /\ e.oc = "InvalidChemistry" => LayersAbove(e.tot, e.TS - 2, "any")
LikeOk(s, e) ==
    LET n == Len(s.proj) IN
    /\ DataOk(s, e)
    /\ LayerOk(e)
    /\ Len(e.x) = s.nfit /\ Len(e.before) = n /\ Len(e.after) = n
    /\ \A j \in 1..n : Abs(e.before[j] - s.proj[j]) <= 1                 \* nobody wrote between the calls
    /\ \A i \in 1..s.nfit : Abs(e.after[i] - e.x[i]) <= 1                  \* WrittenIsPriorOfX, OrderIsFitOrder
    /\ \A j \in (s.nfit + 1)..n : Abs(e.after[j] - e.before[j]) <= 1      \* OnlyFittedWritten
    /\ e.ret # "raise"                                                     \* NeverRaises
    /\ LET k == ResultKind(e.oc, AllClasses, "value", "nan", <<1, 1>>)    \* InvalidNeverFinite (exception classes and
       IN  IF k = "part" THEN e.ret \in {"num", "nan"} ELSE e.ret = k      \* "NaNAll") / finite when valid / PartialSkipsOrNaN
    /\ (e.ret = "num" /\ ~e.big) =>
          Abs(e.chi - SumSq(e.zs)) <= SumAbs(e.zs) + Len(e.zs) + 2        \* ValidEqualsGaussian (structure level)
    /\ (e.ret = "num" /\ e.oc = "ok") => \A m \in s.memo : m[1] = e.x => Abs(m[2] - e.chi) <= 1   \* NoCarryOver

SetObsOk(s, e) ==
    /\ Len(e.proj) = Len(s.proj) /\ Len(e.keep) = Len(s.proj)
    /\ \A j \in 1..Len(s.proj) : e.keep[j] = 1 => Abs(e.proj[j] - s.proj[j]) <= 1
    /\ (s.d0 = <<>>) = (e.d0 = <<>>)

Init == l = 1 /\ tid = -1 /\ dead = -1
        /\ st = [kinds |-> <<>>, par |-> <<>>, nfit |-> 0, proj |-> <<>>, orole |-> <<>>, d0 |-> <<>>, off0 |-> 0, sc0 |-> 0,
                 memo |-> {}]
Bad(e, why) == PrintT(<<"BAD", ToJson([l |-> l, tid |-> e.tid, id |-> e.id, why |-> why])>>)
Step ==
    /\ l <= Len(TraceLog)
    /\ l' = l + 1
    /\ LET e == TraceLog[l] IN
       IF e.ev = "setup"
       THEN /\ tid' = e.tid /\ dead' = dead
            /\ st' = [kinds |-> e.kinds, par |-> e.par, nfit |-> e.nfit, proj |-> e.proj, orole |-> e.orole, d0 |-> e.d0,
                      off0 |-> e.off0, sc0 |-> e.sc0, memo |-> {}]
       ELSE IF e.tid = dead \/ e.tid # tid
       THEN UNCHANGED <<tid, st, dead>>
       ELSE IF e.ev = "setobs"
       THEN IF SetObsOk(st, e)
            THEN st' = [st EXCEPT !.d0 = e.d0, !.proj = e.proj, !.memo = {}] /\ UNCHANGED <<tid, dead>>
            ELSE Bad(e, "setobs") /\ dead' = e.tid /\ UNCHANGED <<tid, st>>
       ELSE IF e.ev = "prior"
       THEN IF PriorOk(st, e) THEN UNCHANGED <<tid, st, dead>>
            ELSE Bad(e, "prior") /\ dead' = e.tid /\ UNCHANGED <<tid, st>>
       ELSE IF LikeOk(st, e)
            THEN /\ st' = [st EXCEPT !.proj = e.after,
                                     !.memo = IF e.ret = "num" /\ e.oc = "ok" THEN st.memo \cup {<<e.x, e.chi>>} ELSE st.memo]
                 /\ UNCHANGED <<tid, dead>>
            ELSE Bad(e, "like") /\ dead' = e.tid /\ UNCHANGED <<tid, st>>
Spec == Init /\ [][Step]_<<l, tid, st, dead>>
Accepted == TLCGet("stats").diameter - 1 = Len(TraceLog)
=============================================================================
