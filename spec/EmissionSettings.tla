--------------------------- MODULE EmissionSettings ---------------------------
(***************************************************************************)
(* C02 -- SETTINGS changed between the evaluations of ONE long-lived       *)
(* emission / direct-image model.                                          *)
(*                                                                         *)
(* The statement quantifies over "all ... numbers of quadrature points,    *)
(* stars and planets; cross-section and correlated-k opacity modes": the   *)
(* spectrum is the documented integral for the planet, the star, the angle *)
(* quadrature and the opacity mode that are in force WHEN model() is       *)
(* called.  A forward model lives through a whole retrieval: its planet    *)
(* radius is a fitting parameter written thousands of times, the star can  *)
(* be given another temperature / distance, the quadrature can be replaced *)
(* through two public routes (set_num_gauss(n), set_quadratures(mu, w)) in *)
(* any order, and the opacity mode is a global option                      *)
(* (GlobalCache()['opacity_method']) that every other component re-reads   *)
(* at each evaluation.  EmissionCalls.tla walks over the entry points of   *)
(* one model with FIXED settings; this module walks over the settings.     *)
(*                                                                         *)
(*   cfg    what the user has asked for: the current settings              *)
(*   eff    what the object integrates with (geometry of the normalisation,*)
(*          quadrature rule)                                               *)
(*   memo   what the object remembers between calls: the number of points  *)
(*          last asked for through ngauss= / set_num_gauss (set_quadratures *)
(*          does not touch it), the opacity branch taken at an earlier     *)
(*          evaluation                                                     *)
(* SVariant = "code": nothing is remembered that a setter does not         *)
(* refresh.  The other values are deliberately wrong readings, each        *)
(* invisible to checks that build one object per configuration (expected   *)
(* counterexamples):                                                       *)
(*   "geometry_at_build"   the factor (Rp/Rs)^2 (Rp^2/d^2) is computed     *)
(*                         when the model is built                         *)
(*   "same_count_skipped"  set_num_gauss(n) keeps the stored nodes when n  *)
(*                         is the count it remembers (wrong after          *)
(*                         set_quadratures replaced the nodes)             *)
(*   "mode_memoised"       the opacity branch is looked up at the first    *)
(*                         evaluation only                                 *)
(*   "profiles_once"       (round 6) the per-contribution routes           *)
(*                         model_contrib() / model_full_contrib() take the *)
(*                         layer profiles (altitude, density, chemistry)   *)
(*                         as "already available once the model has been   *)
(*                         run": they integrate with the profiles of the   *)
(*                         previous evaluation / of build()                *)
(* Round 6 -- ROUTE x HISTORY.  The public evaluation routes are model(),  *)
(* partial_model(), model_contrib() and model_full_contrib(): all four are *)
(* entries of Eval.  The layer profiles depend on the planet (gravity ->   *)
(* scale height), on the temperature profile and on the mixing ratios      *)
(* (mean molecular weight, absorber column): "tp" and "mix" (fitting       *)
(* parameters, written through model[...]) are settings next to "rp", and  *)
(* eff.prof is the (rp, tp, mix) the profiles were last initialised for.   *)
(* PhysSet bounds the settings a configuration walks over.                 *)
(* Clause: EvalUsesCurrent -- every evaluation integrates with cfg.        *)
(* The numerical oracles are bound in harness/fx_emsettings.py: at every   *)
(* Eval the long-lived object equals a freshly built model of cfg, and     *)
(* (isothermal worlds) the blackbody ratio B(T)/B(Tstar)(Rp/Rs)^2 of cfg.      *)
(***************************************************************************)
EXTENDS Integers, Sequences, FiniteSets, TLC

CONSTANTS NV,        \* values 0..NV-1 of each physical setting (planet radius, star temperature, star distance)
          NC,        \* numbers of points 1..NC (ids: the harness maps them to actual counts) for ngauss= / set_num_gauss
          NR,        \* user rules 1..NR handed to set_quadratures
          Modes,     \* subset of {"xsec", "ktables"}
          RpRoutes,  \* public routes to the planet radius: "param" (model['planet_radius']), "attr" (planet.radius = ..)
          Entries,   \* entry points an evaluation goes through: "model", "partial", "contrib", "full_contrib"
          PhysSet,   \* the physical settings walked over: subset of Phys
          Record,    \* TRUE: bounded walks are recorded (export); FALSE: the whole state graph, nothing recorded
          MaxSets,   \* recorded walks: number of setting changes
          SVariant
VARIABLES cfg, eff, memo, stale, walk, start, nsets
svars == <<cfg, eff, memo, stale, walk, start, nsets>>

Gauss(n) == <<"gauss", n>>
User(r)  == <<"user", r>>
Quads == {Gauss(n) : n \in 1..NC} \cup {User(r) : r \in 1..NR}
Phys == {"rp", "ts", "dist", "tp", "mix"}
ContribEntries == {"contrib", "full_contrib"}
ASSUME PhysSet \subseteq Phys /\ Entries \subseteq {"model", "partial"} \cup ContribEntries
\* what the layer profiles (altitude / density / chemistry) are a function of
ProfOf(c) == <<c.rp, c.tp, c.mix>>

\* a user rule is installed on a model constructed with the first count
CountAtBuild(q) == IF q[1] = "gauss" THEN q[2] ELSE 1

SInit == /\ cfg \in [rp : {0}, ts : {0}, dist : {0}, tp : {0}, mix : {0}, quad : Quads, mode : Modes]
         /\ eff = [rp |-> cfg.rp, quad |-> cfg.quad, prof |-> ProfOf(cfg)]       \* build() initialises the profiles
         /\ memo = [ng |-> CountAtBuild(cfg.quad), mode |-> "none"]
         /\ stale = FALSE /\ walk = <<>> /\ start = cfg /\ nsets = 0

MaySet == Record => nsets < MaxSets
Rec(step) == /\ walk' = IF Record THEN Append(walk, step) ELSE walk
             /\ nsets' = IF Record /\ step[1] = "set" THEN nsets + 1 ELSE nsets

SetPhys(name, route, v) ==
    /\ MaySet /\ cfg[name] # v
    /\ cfg' = [cfg EXCEPT ![name] = v]
    /\ eff' = IF name = "rp" /\ SVariant # "geometry_at_build" THEN [eff EXCEPT !.rp = v] ELSE eff
    /\ Rec(<<"set", name, route, v>>)
    /\ stale' = FALSE /\ UNCHANGED <<memo, start>>

\* asking for the count the object already remembers is a legal call (and the interesting one)
SetNumGauss(n) ==
    /\ MaySet
    /\ cfg' = [cfg EXCEPT !.quad = Gauss(n)]
    /\ eff' = IF SVariant = "same_count_skipped" /\ memo.ng = n THEN eff ELSE [eff EXCEPT !.quad = Gauss(n)]
    /\ memo' = [memo EXCEPT !.ng = n]
    /\ Rec(<<"set", "num_gauss", "", n>>)
    /\ stale' = FALSE /\ UNCHANGED start

SetQuadratures(r) ==
    /\ MaySet /\ cfg.quad # User(r)
    /\ cfg' = [cfg EXCEPT !.quad = User(r)]
    /\ eff' = [eff EXCEPT !.quad = User(r)]
    /\ Rec(<<"set", "quadratures", "", r>>)
    /\ stale' = FALSE /\ UNCHANGED <<memo, start>>

SetMode(m) ==
    /\ MaySet /\ cfg.mode # m
    /\ cfg' = [cfg EXCEPT !.mode = m]
    /\ Rec(<<"set", "mode", m, 0>>)
    /\ stale' = FALSE /\ UNCHANGED <<eff, memo, start>>

\* the settings the evaluation integrates with
UsedMode == IF SVariant = "mode_memoised" /\ memo.mode # "none" THEN memo.mode ELSE cfg.mode
\* every route initialises the profiles for the current settings before it integrates
UsedProf(en) == IF SVariant = "profiles_once" /\ en \in ContribEntries THEN eff.prof ELSE ProfOf(cfg)
Used(en) == [rp |-> eff.rp, ts |-> cfg.ts, dist |-> cfg.dist, tp |-> cfg.tp, mix |-> cfg.mix, quad |-> eff.quad, mode |-> UsedMode]

Eval(en) ==
    /\ Record => (walk # <<>> /\ walk[Len(walk)][1] # "eval")
    /\ stale' = (Used(en) # cfg \/ UsedProf(en) # ProfOf(cfg))
    /\ eff' = [eff EXCEPT !.prof = UsedProf(en)]
    /\ memo' = [memo EXCEPT !.mode = IF memo.mode = "none" THEN cfg.mode ELSE memo.mode]
    /\ Rec(<<"eval", en, "", 0>>)
    /\ UNCHANGED <<cfg, start>>

SNext == \/ \E name \in PhysSet, v \in 0..(NV - 1) :
               \E route \in (IF name = "rp" THEN RpRoutes ELSE IF name \in {"tp", "mix"} THEN {"param"} ELSE {"attr"}) :
                   SetPhys(name, route, v)
         \/ \E n \in 1..NC : SetNumGauss(n)
         \/ \E r \in 1..NR : SetQuadratures(r)
         \/ \E m \in Modes : SetMode(m)
         \/ \E en \in Entries : Eval(en)
SSpec == SInit /\ [][SNext]_svars

\* ------------------------------------------------------------------ clauses
EvalUsesCurrent == ~stale
\* the frame of the quadrature routes: the rule in force is the one asked for last, through whichever route
RuleIsLastAskedFor == (SVariant = "code") => eff.quad = cfg.quad
\* the frame of the profiles: after any evaluation in the code reading they are those of the current settings
ProfilesFollowEval == (SVariant = "code" /\ Record /\ walk # <<>> /\ walk[Len(walk)][1] = "eval") => eff.prof = ProfOf(cfg)
TypeOk == /\ cfg.quad \in Quads /\ eff.quad \in Quads /\ memo.ng \in 1..NC
          /\ memo.mode \in Modes \cup {"none"} /\ nsets \in 0..MaxSets
=============================================================================
