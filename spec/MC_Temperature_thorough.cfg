SPECIFICATION Spec
CONSTANTS
  NMin = 2
  NMax = 8
  TVals = {1,2,4}
  SWs = {0,10,20,34,50,100,150,300}
  MaxNodes = 1
  Limits = {2,1000}
  Kinds = {"iso","npoint","array","rodgers","guillot"}
  Rule = "spec"
  RodVariant = "spec"
  SignedNodes = "no"
  Export = FALSE
INVARIANT InvalidNeverNaN
INVARIANT OnePerLayer
INVARIANT OnlyDocumentedRejections
INVARIANT PositiveFinite
INVARIANT WithinControlRange
INVARIANT ConstantWhenControlsEqual
INVARIANT NPointRejectedIff
INVARIANT StrictImpliesInvalid
INVARIANT NonPositiveNodeIsInverted
INVARIANT SignedAgreesOnPositive
INVARIANT GuillotListedRejected
INVARIANT GuillotPhysicalAccepted
INVARIANT FitsInv
CONSTRAINT Emit
CHECK_DEADLOCK FALSE
