SPECIFICATION Spec
CONSTANTS
  NL = 1
  MaxFill = 4
  MaxTrace = 2
  RatioNums = {1,3}
  RatioDen = 4
  AbNums = {1,3,5}
  AbDen = 8
  InitFree = FALSE
  MaxWrites = 2
  Variant = "write_ignored"
  Export = FALSE
CHECK_DEADLOCK FALSE
INVARIANT RequestedTracesHonoured
