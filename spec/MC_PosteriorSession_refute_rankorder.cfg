SPECIFICATION Spec
CONSTANTS
  NObs = 4
  NSel = 2
  NDer = 2
  Ranks = {1,2,3}
  K = 3
  Sizes = {2,5,7}
  Binner = "fresh"
  Gather = "rank-order"
INVARIANT BinnedToFittedObservation
INVARIANT DerivedInSampleOrder
INVARIANT DerivedWeightsAligned
INVARIANT GatherPermutes
CHECK_DEADLOCK FALSE
