---- MODULE MC_Likelihood_TTrace_1790608903 ----
EXTENDS Sequences, MC_Likelihood, TLCExt, Toolbox, Naturals, TLC

_expression ==
    LET MC_Likelihood_TEExpression == INSTANCE MC_Likelihood_TEExpression
    IN MC_Likelihood_TEExpression!expression
----

_trace ==
    LET MC_Likelihood_TETrace == INSTANCE MC_Likelihood_TETrace
    IN MC_Likelihood_TETrace!trace
----

_inv ==
    ~(
        TLCGet("level") = Len(_TETrace)
        /\
        val = (<<2, 10, 6, -2, 1>>)
        /\
        res = ([x |-> <<2, 1, -2, 0>>, k |-> "num", h |-> <<0, 1>>, inj |-> "none"])
        /\
        hist = (<<[x |-> <<2, 1, -2, 0>>, k |-> "num", h |-> <<0, 1>>, inj |-> "none", op |-> "loglike", vals |-> <<2, 10, 6, -2, 1>>]>>)
        /\
        raised = (FALSE)
        /\
        cube = (<<>>)
    )
----

_init ==
    /\ raised = _TETrace[1].raised
    /\ val = _TETrace[1].val
    /\ cube = _TETrace[1].cube
    /\ res = _TETrace[1].res
    /\ hist = _TETrace[1].hist
----

_next ==
    /\ \E i,j \in DOMAIN _TETrace:
        /\ \/ /\ j = i + 1
              /\ i = TLCGet("level")
        /\ raised  = _TETrace[i].raised
        /\ raised' = _TETrace[j].raised
        /\ val  = _TETrace[i].val
        /\ val' = _TETrace[j].val
        /\ cube  = _TETrace[i].cube
        /\ cube' = _TETrace[j].cube
        /\ res  = _TETrace[i].res
        /\ res' = _TETrace[j].res
        /\ hist  = _TETrace[i].hist
        /\ hist' = _TETrace[j].hist

\* Uncomment the ASSUME below to write the states of the error trace
\* to the given file in Json format. Note that you can pass any tuple
\* to `JsonSerialize`. For example, a sub-sequence of _TETrace.
    \* ASSUME
    \*     LET J == INSTANCE Json
    \*         IN J!JsonSerialize("MC_Likelihood_TTrace_1790608903.json", _TETrace)

=============================================================================

 Note that you can extract this module `MC_Likelihood_TEExpression`
  to a dedicated file to reuse `expression` (the module in the 
  dedicated `MC_Likelihood_TEExpression.tla` file takes precedence 
  over the module `MC_Likelihood_TEExpression` below).

---- MODULE MC_Likelihood_TEExpression ----
EXTENDS Sequences, MC_Likelihood, TLCExt, Toolbox, Naturals, TLC

expression == 
    [
        \* To hide variables of the `MC_Likelihood` spec from the error trace,
        \* remove the variables below.  The trace will be written in the order
        \* of the fields of this record.
        raised |-> raised
        ,val |-> val
        ,cube |-> cube
        ,res |-> res
        ,hist |-> hist
        
        \* Put additional constant-, state-, and action-level expressions here:
        \* ,_stateNumber |-> _TEPosition
        \* ,_raisedUnchanged |-> raised = raised'
        
        \* Format the `raised` variable as Json value.
        \* ,_raisedJson |->
        \*     LET J == INSTANCE Json
        \*     IN J!ToJson(raised)
        
        \* Lastly, you may build expressions over arbitrary sets of states by
        \* leveraging the _TETrace operator.  For example, this is how to
        \* count the number of times a spec variable changed up to the current
        \* state in the trace.
        \* ,_raisedModCount |->
        \*     LET F[s \in DOMAIN _TETrace] ==
        \*         IF s = 1 THEN 0
        \*         ELSE IF _TETrace[s].raised # _TETrace[s-1].raised
        \*             THEN 1 + F[s-1] ELSE F[s-1]
        \*     IN F[_TEPosition - 1]
    ]

=============================================================================



Parsing and semantic processing can take forever if the trace below is long.
 In this case, it is advised to uncomment the module below to deserialize the
 trace from a generated binary file.

\*
\*---- MODULE MC_Likelihood_TETrace ----
\*EXTENDS IOUtils, MC_Likelihood, TLC
\*
\*trace == IODeserialize("MC_Likelihood_TTrace_1790608903.bin", TRUE)
\*
\*=============================================================================
\*

---- MODULE MC_Likelihood_TETrace ----
EXTENDS MC_Likelihood, TLC

trace == 
    <<
    ([val |-> <<1, 1, 6, 0, 1>>,res |-> [x |-> <<>>, k |-> "none", h |-> <<0, 1>>, inj |-> "none"],hist |-> <<>>,raised |-> FALSE,cube |-> <<>>]),
    ([val |-> <<2, 10, 6, -2, 1>>,res |-> [x |-> <<2, 1, -2, 0>>, k |-> "num", h |-> <<0, 1>>, inj |-> "none"],hist |-> <<[x |-> <<2, 1, -2, 0>>, k |-> "num", h |-> <<0, 1>>, inj |-> "none", op |-> "loglike", vals |-> <<2, 10, 6, -2, 1>>]>>,raised |-> FALSE,cube |-> <<>>])
    >>
----


=============================================================================

---- CONFIG MC_Likelihood_TTrace_1790608903 ----
CONSTANTS
    Layout = "obs"
    Depth = 0
    NP <- MCNP
    FitFlag <- MCFit
    ParMode <- MCMode
    UserSet <- MCUser
    UMode <- MCUMode
    ULo <- MCULo
    UHi <- MCUHi
    WriteBy = "prior"
    ObsRole <- MCRole
    DataRead = "before"
    Lo <- MCLo
    Hi <- MCHi
    Val0 <- MCVal0
    XSet <- MCXSet
    UDen = 1
    K = 4
    Coef <- MCCoef
    Bins <- MCBins
    Data <- MCData
    Sig <- MCSig
    ChemSet <- MCChem
    ChemLimit = 50
    TLow = 1
    THigh = 3
    Faults = { "InvalidModel" }
    NaNFaults = { "NaNAll" , "NaNSome" }
    NaNBins <- MCNaNBins
    AllNaN = "nan"
    Caught = { "InvalidModel" , "InvalidChemistry" , "InvalidTemperature" }
    ZeroChi = "value"

INVARIANT
    _inv

CHECK_DEADLOCK
    \* CHECK_DEADLOCK off because of PROPERTY or INVARIANT above.
    FALSE

INIT
    _init

NEXT
    _next

CONSTANT
    _TETrace <- _trace

ALIAS
    _expression
=============================================================================
\* Generated on Mon Sep 28 15:21:45 UTC 2026