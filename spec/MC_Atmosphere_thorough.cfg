SPECIFICATION Spec
CONSTANTS
  NMax = 3
  L0S = {5,6,7,8}
  LShift = 4
  CS = {1,2}
  LMinAll = 0
  TS = {1,2,3}
  ChemPool = 6
  ChemLayout = "rows_are_layers"
  UnitAt = "return"
  ULoop = 1
  EvalEffect = "readonly"
  ShareEffect = "readonly"
  RADS = {8}
  GMS = {64,128}
  TableEnds = "nearest"
  ElemType = "float64"
  WorkArrays = "float"
  Slicing = "layer"
  Export = FALSE
INVARIANT LevelsStrictlyDecreasing
INVARIANT LayerIsGeometricMean
INVARIANT ArrayInputOrientation
INVARIANT AltitudeStrictlyIncreasing
INVARIANT GravityFallsOff
INVARIANT StepRelation
INVARIANT StepRelationAnyUnit
INVARIANT StructureIndependentOfElementType
INVARIANT MixAlignedWithLayers
INVARIANT EvaluationKeepsStructure
INVARIANT DensityIdealGas
INVARIANT OneEntryPerLayer
INVARIANT TabulatedTemperatureAligned
INVARIANT FitsInv
PROPERTY ReadsAreRepeatable
CONSTRAINT Emit
CHECK_DEADLOCK FALSE
