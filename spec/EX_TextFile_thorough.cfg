SPECIFICATION TSpec
CONSTANTS
  RowCounts = {2, 3}
  Styles = {"plain", "nolead", "plus", "exp", "EXP", "pad"}
  MaxExtras = 1
  Export = TRUE
INVARIANT TTypeOK
INVARIANT ReaderReadsTable
INVARIANT ExtrasDenoteNothing
INVARIANT RefuteTitleLine
INVARIANT RefuteBlankStops
INVARIANT RefuteCommentTop
CHECK_DEADLOCK FALSE
CONSTRAINT TEmit
