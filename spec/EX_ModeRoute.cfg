SPECIFICATION Spec
CONSTANTS
  Modes = {"linear", "exp"}
  KeyWritten = "xsec_interpolation"
  KeyRead = "xsec_interpolation"
  ClearOnSet = TRUE
  Export = TRUE
INVARIANT ServedModeIsWanted
INVARIANT EndsInLoad
CONSTRAINT Emit
CHECK_DEADLOCK FALSE
