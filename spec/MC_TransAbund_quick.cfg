SPECIFICATION Spec
CONSTANTS
  NL = 3
  AbExps = {0, 2, 4, 6, 8, 10, 12, 14, 16, 18, 19}
  AbOrd = 4
  Floors = {3, 9, 12, 15, 19}
  Xs = {1, 3}
  Mant = 5
  Export = TRUE
CONSTRAINT Emit
CHECK_DEADLOCK FALSE
INVARIANT MagnitudeFree
INVARIANT FloorBlind
INVARIANT EveryLayerCounts
INVARIANT Fits
INVARIANT RefuteFloor
