---------------------------- MODULE MC_ParamFrame ----------------------------
EXTENDS ParamFrame, Json
CONSTANT Export
VARIABLE start
HInit == Init /\ start = reg
HNext == Next /\ UNCHANGED start
HSpec == HInit /\ [][HNext]_<<vars, start>>
HEmit == (Export /\ Len(hist) = Depth /\ hist[Depth][1] = "eval") =>
           PrintT(<<"WALK", ToJson([init |-> start, walk |-> hist])>>)
=============================================================================
