SPECIFICATION KSpec
CONSTANTS
  NL = 2
  NW = 1
  NT = 3
  NG = 3
  KCodes = {0, 10101, 10003, 20504, 151515}
  WIds = {5}
  LMode = "mixed"
  ECodes = {0, 1}
  TCodes = {12,33}
  QuadIds = {2}
  ClampE = 15
  SlackE = 14
  Variant = "code"
  Btab <- MCBtab
  Bstar <- MCBstar
  TabId = 1
  Rp = 2
  Rs = 5
  Dist = 3
  KD = 2
  Export = TRUE
INVARIANT DegenerateEqualsXsec
INVARIANT TransmittanceInUnitInterval
INVARIANT KFitsInv
CONSTRAINT KEmitVec
CHECK_DEADLOCK FALSE
