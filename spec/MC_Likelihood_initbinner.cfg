SPECIFICATION Spec
CONSTANTS
  Layout = "hist"
  Depth = 0
  NP <- MCNP
  FitFlag <- MCFit
  ParMode <- MCMode
  UserSet <- MCUser
  UMode <- MCUMode
  ULo <- MCULo
  UHi <- MCUHi
  WriteBy = "prior"
  ObsRole <- MCRole
  DataRead = "after"
  Lo <- MCLo
  Hi <- MCHi
  Val0 <- MCVal0
  XSet <- MCXSet
  UDen = 1
  K = 4
  Coef <- MCCoef
  Bins <- MCBins
  Data <- MCData
  Sig <- MCSig
  MoreObs <- MCMoreObs
  BinnerRule = "at_init"
  ChemLayers <- MCChemLayers
  ChemRule = "any"
  ChemLimit = 50
  TLow = 1
  THigh = 3
  Faults = {"InvalidModel"}
  NaNFaults = {"NaNAll"}
  NaNBins <- MCNaNBins
  AllNaN = "nan"
  Caught = {"InvalidModel", "InvalidChemistry", "InvalidTemperature"}
  ZeroChi = "value"
VIEW view
INVARIANT NeverRaises
CHECK_DEADLOCK FALSE
