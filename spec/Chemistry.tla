----------------------------- MODULE Chemistry -----------------------------
(***************************************************************************)
(* C10 -- atmospheric composition is a valid mixture.                      *)
(*                                                                         *)
(* TaurexChemistry.initialize_chemistry / fill_atmosphere:                 *)
(*   trace profiles x[g][l] (rationals), fill gases 1..nf with             *)
(*   ratios[f-1] = fill_f / fill_1 (nf = Len(ratios)+1).                   *)
(*   remainder = 1 - sum_g x[g][l];  main = remainder / (1 + sum ratios);  *)
(*   fill_f = ratios[f-1] * main;  rows = fill gases then trace gases.     *)
(*   The model is invalid iff some layer has sum_g x[g][l] > 1.            *)
(* AutoChemistry.determine_active_inactive: active = gases with opacity    *)
(*   data, inactive = the others, both in declaration order.               *)
(* Gas profiles live in the log10-abundance domain (the harness applies    *)
(*   10^ at the boundary): constant, two-point (log-log line through the   *)
(*   end values), two-layer (step between two layers + smoothing), array.  *)
(*                                                                         *)
(* Variant # "spec" are deliberately wrong formulas used only for the      *)
(* expected-counterexample configs (non-vacuity of the invariants).        *)
(***************************************************************************)
EXTENDS Profiles, Json

\* ----------------------------------------------------------------- mixture
TraceTotal(x, l) == RSumSeq([g \in 1..Len(x) |-> x[g][l]])
ExceedsOne(x, n) == \E l \in 1..n : RLt(ROne, TraceTotal(x, l))
Remainder(x, l)  == RSub(ROne, TraceTotal(x, l))

MainShare(ratios, variant) ==
    IF variant = "one_over_sum" /\ Len(ratios) > 0
    THEN RDiv(ROne, RSumSeq(ratios))
    ELSE RDiv(ROne, RAdd(ROne, RSumSeq(ratios)))

FillValue(ratios, f, rem, variant) ==
    LET main == RMul(rem, MainShare(ratios, variant))
    IN  IF f = 1 THEN main
        ELSE IF variant = "ratio_on_remainder" THEN RMul(ratios[f - 1], rem)
        ELSE RMul(ratios[f - 1], main)

NFill(ratios) == Len(ratios) + 1
NGas(ratios, x) == NFill(ratios) + Len(x)

\* What the validity test and the split see of the REQUESTED trace abundances x.  The statement quantifies over the
\* requested profiles ("if the traces exceed one anywhere the model is rejected"): a single gas may carry the whole
\* excess.  The wrong design "clip_traces" makes every gas profile "physical" (cut to [0, 1]) before the test sees it.
RClip01(v) == IF RLt(v, RZero) THEN RZero ELSE IF RLt(ROne, v) THEN ROne ELSE v
Seen(x, variant) ==
    IF variant = "clip_traces" THEN [g \in 1..Len(x) |-> [l \in 1..Len(x[g]) |-> RClip01(x[g][l])]] ELSE x

Mix(ratios, x, n, variant) ==
    LET s == Seen(x, variant)
    IN  [g \in 1..NGas(ratios, x) |-> [l \in 1..n |->
            IF g <= NFill(ratios) THEN FillValue(ratios, g, Remainder(s, l), variant)
            ELSE s[g - NFill(ratios)][l]]]

Rejected(x, n, variant) ==
    IF variant = "no_validity" THEN FALSE
    ELSE IF variant = "strict_ge" THEN \E l \in 1..n : RLe(ROne, TraceTotal(x, l))
    ELSE ExceedsOne(Seen(x, variant), n)

LayerSum(mix, l) == RSumSeq([g \in 1..Len(mix) |-> mix[g][l]])
\* mass[g] rational, result in the same unit
Mu(mix, mass, l) == RSumSeq([g \in 1..Len(mix) |-> RMul(mix[g][l], mass[g])])
\* The SCALAR mean molecular weight (the derived parameter `mu`, documented "at the surface"; every public route to
\* it: the property, the derived-parameter registry) is the weighted sum with the weights of layer 1.  Wrong designs:
\* "mu_layer_mean" (weights averaged over the layers), "mu_top_layer" (weights of the last layer).
MuScalarWeights(mix, n, variant) ==
    [g \in 1..Len(mix) |-> IF variant = "mu_layer_mean" THEN RDiv(RSumSeq(mix[g]), Q(n))
                           ELSE IF variant = "mu_top_layer" THEN mix[g][n] ELSE mix[g][1]]
WeightedSum(w, mass) == RSumSeq([g \in 1..Len(w) |-> RMul(w[g], mass[g])])

\* ---------------------------------------------------------- active / inactive
Indices(gases) == [i \in 1..Len(gases) |-> i]
ActiveIdx(gases, avail)   == SelectSeq(Indices(gases), LAMBDA i : gases[i] \in avail)
InactiveIdx(gases, avail) == SelectSeq(Indices(gases), LAMBDA i : gases[i] \notin avail)
Names(gases, idx) == [k \in 1..Len(idx) |-> gases[idx[k]]]
\* WHERE the opacity data comes from is a dimension of "availability": a molecule has opacity data when a file for it
\* lies in the cross-section directory (dir), when an opacity object was registered by hand (hand: OpacityCache().add_opacity,
\* load_opacity(opacities = ..)), or both -- also when the two sources are present AT ONCE for different molecules.
\* Wrong design "hand_fallback": the hand-registered opacities count only while the directory yields nothing.
AvailableFrom(dir, hand, variant) == IF variant = "hand_fallback" THEN (IF dir = {} THEN hand ELSE dir) ELSE dir \cup hand

\* ----------------------------------------------------- gas profiles (log10 domain)
ConstProfile(v, n) == [l \in 1..n |-> v]

\* log-log line through (LP[1], s) and (LP[n], t); end layers carry the end values
TwoPointLog(s, t, LP) ==
    LET n == Len(LP)
    IN  [l \in 1..n |-> IF l = 1 THEN Q(s) ELSE IF l = n THEN Q(t)
                        ELSE RLin(Q(t), Q(s), LP[l], LP[n], LP[1])]

\* two-layer profile: surface value s below layer `start`, top value t above layer `end`,
\* log-log line in between, then smoothing of the interior.  pl0 = 0-based index of the
\* layer closest to the boundary pressure, sw = smoothing window (integer, >= 0).
TLStart(pl0, sw) == IF 2 * pl0 >= sw THEN (2 * pl0 - sw) \div 2 ELSE 0
TLEnd(pl0, sw, n) == LET e == (2 * pl0 + sw) \div 2 IN IF e > n - 1 THEN n - 1 ELSE e
TwoLayerStep(s, t, LP, pl0, sw) ==
    LET n  == Len(LP)
        st == TLStart(pl0, sw) + 1
        en == TLEnd(pl0, sw, n) + 1
    IN  [l \in 1..n |-> IF l <= st THEN Q(s)          \* np.interp returns the surface value on a tie
                        ELSE IF l >= en THEN Q(t)
                        ELSE RLin(Q(t), Q(s), LP[l], LP[en], LP[st])]
TwoLayerLog(s, t, LP, pl0, sw, rule) ==
    Smooth(TwoLayerStep(s, t, LP, pl0, sw), WSize(Len(LP), sw, rule), rule)
\* the step has no tie (the exact value is unambiguous) iff start < end
TwoLayerUnambiguous(pl0, sw, n) == TLStart(pl0, sw) < TLEnd(pl0, sw, n)
=============================================================================
