SPECIFICATION SimSpec
CONSTANTS
  ModelSel = {1,2,3}
  BoundSel = {1,2,3,4,5,6,7}
  FactorSel = {1,2}
  PriorSel = {1,2,3,4}
  ModeSel = {1,2,3,4,5,6,7}
  KSel = {0,2,3,4,5}
  MaxLevel = 15
  PriorTable = "persist_user_only"
  ViewSpace = "prior_mode"
  DerivedLookup = "derived"
  ObsMerge = "always"
  ModeStore = "canonical"
  UpdateGuard = "before"
  BoundaryGuard = "none"
  UpdateArg = "kept"
  TrackArg = TRUE
  FitEntry = "recompile"
  FileRoute = "as_api"
  Files <- MCFilesAll
  ModeCalls <- MCModeCalls
  InvalidModes <- MCInvalidModes
  ObsParams <- MCObsParams
  Record = TRUE
  Export = "sim"
  Params <- MCParams
  CallParams <- MCCallParams
  Derived <- MCDerived
  InitSetting <- MCInitSetting
  InitDerived <- MCInitDerived
  InitValue <- MCInitValue
  UnknownFit <- MCUnknownFit
  UnknownDer <- MCUnknownDer
  BoundPairs <- MCBoundPairs
  Factors <- MCFactors
  UserPriors <- MCUserPriors
  K <- MCK
INVARIANT SpacesAgree
INVARIANT ViewsReadable
INVARIANT ArgumentKept
INVARIANT OrderIsDeclarationOrder
CONSTRAINT Emit
CHECK_DEADLOCK FALSE
