------------------------------ MODULE Optimizer ------------------------------
(***************************************************************************)
(* C07 -- retrieval set-up of taurex.optimizer.Optimizer.                   *)
(*                                                                         *)
(* Written in the shape of the implementation: one action per public       *)
(* method, an Unknown-name variant of each, Compile and UpdateModel.       *)
(*                                                                         *)
(*   setting[p]  = the 7-tuple (.., mode, to_fit, bounds) of a fitting      *)
(*                 parameter in the dict shared with the model/observation *)
(*   derivedOn[d]= the compute flag of a derived parameter                  *)
(*   userPrior[p]= prior handed to set_prior (None when absent)             *)
(*   priorTab[p] = the optimizer's persistent name -> prior table           *)
(*   compiled    = snapshot taken by compile_params: list of                *)
(*                 [name, mode, lo, hi, prior] in declaration order         *)
(*   compiledDer = snapshot of the enabled derived parameters               *)
(*   value[p]    = current value of the parameter (getter)                  *)
(*   err         = the last call raised                                     *)
(*                                                                         *)
(* Numbers.  Every linear-space quantity of the model is a power of ten    *)
(* 10^e and is carried as its integer exponent e; a log-space quantity is  *)
(* log10 of it, i.e. the integer e itself.  A reported number is therefore *)
(* a pair (space, e): ("linear", e) denotes 10^e, ("log", e) denotes e.    *)
(* The harness applies 10** / log10 at the boundary only.                  *)
(*                                                                         *)
(* PriorTable    "persist_all"       as built: defaults created by a       *)
(*                                   compile stay in the table             *)
(*               "persist_user_only" repaired: only set_prior entries stay *)
(* ViewSpace     "param_mode"        as built: fit_values/fit_boundaries   *)
(*                                   use the parameter's mode              *)
(*               "prior_mode"        repaired: they use the prior's mode,  *)
(*                                   like fit_names                        *)
(* DerivedLookup "fitting"           as built: disable_derived looks the   *)
(*                                   name up among the fitting parameters  *)
(*               "derived"           repaired                              *)
(* ObsMerge      "always"            the code: compile_params runs over    *)
(*                                   the model's parameters, then over the *)
(*                                   observation's, and both passes fill   *)
(*                                   the name -> prior table read by the   *)
(*                                   views                                 *)
(*               "if_table_nonempty" expected-counterexample variant: the  *)
(*                                   second pass's priors reach the table  *)
(*                                   only if the first pass (or set_prior) *)
(*                                   left something in it                  *)
(* ModeStore     "canonical"         the code: set_mode accepts the two    *)
(*                                   modes in any spelling of upper/lower  *)
(*                                   case and stores the lower-case mode   *)
(*               "raw"               expected-counterexample variant: the  *)
(*                                   spelling is validated without regard  *)
(*                                   to case but stored as spelled, and    *)
(*                                   compile_params reads anything that is *)
(*                                   not exactly "log" as linear           *)
(* UpdateGuard   "before"            the code: update_model compares the   *)
(*                                   length of the vector with the fitted  *)
(*                                   set before it writes anything         *)
(*               "while_writing"     expected-counterexample variant: the  *)
(*                                   mismatch is noticed when the shorter  *)
(*                                   of the two runs out, after the        *)
(*                                   leading setters have been called      *)
(* BoundaryGuard "none"              the code: set_boundary stores the     *)
(*                                   boundaries it is given, whatever the  *)
(*                                   mode of the parameter at that moment  *)
(*               "positive_in_log"   expected-counterexample variant:      *)
(*                                   boundaries with a zero / negative     *)
(*                                   edge are dropped while the parameter  *)
(*                                   is in log mode (the set-up then       *)
(*                                   depends on the ORDER of set_boundary  *)
(*                                   and set_mode)                         *)
(* UpdateArg     "kept"              the code: update_model reads the      *)
(*                                   vector it is handed                   *)
(*               "transformed"       expected-counterexample variant: the  *)
(*                                   prior transform is written into the   *)
(*                                   caller's array (a second write of the *)
(*                                   same array sets 10^(10^x))            *)
(* TrackArg      keep the caller's array of the last update_model call in  *)
(*               the state (arg) and allow UpdateSame = update_model with  *)
(*               that same array object again                              *)
(* FitEntry      "recompile"         the code: Optimizer.fit() -- the second *)
(*                                   public entry into compile -- compiles *)
(*                                   the current settings before it hands  *)
(*                                   the set-up to the sampler             *)
(*               "reuse_if_compiled" expected-counterexample variant: an   *)
(*                                   earlier, non-empty compile is re-used *)
(* FileRoute     "as_api"            the code: a [Fitting] / [Derive]      *)
(*                                   input file applied by ParameterParser *)
(*                                   .setup_optimizer has the effect of    *)
(*                                   the API calls its keys stand for      *)
(*               "enable_only"       expected-counterexample variant:      *)
(*                                   `p:fit = False` does not switch off a *)
(*                                   parameter that is fitted (by default  *)
(*                                   or since an earlier call)             *)
(* Routes.  Every setting reaches the object by the API (one call each) or *)
(* by an input file.  A file is [fs, ds]: fs a sequence of entries         *)
(* [p, fit, m, cs, b, f, pr], one per named parameter (`p:fit = fit` is    *)
(* always written; `p:mode` = m spelled with cs in upper case, "" = no     *)
(* such key; `p:bounds` = b, `p:factor` = f, <<>> = no such key, at most   *)
(* one of the two; `p:prior` = pr, None = no key); ds a sequence of        *)
(* [d, on] (`d:compute = on`).  The sampler is entered by fit(): what it   *)
(* is handed is the set-up of the settings current at that moment.         *)
(* Linear numbers.  A boundary may be zero or negative (legal for a        *)
(* parameter fitted in linear space).  A linear-space number is carried as *)
(* a code whose integer order is the order of the numbers:                 *)
(*    e (|e| <= 100) is 10^e,  Zero = -1000 is 0,  Neg(e) = -2000 - e is   *)
(*    -10^e;  log10 of a code is defined iff the code is Positive.         *)
(* compile_params is only defined (CompileDefined) when no fitted          *)
(* parameter with a log-space prior has a zero / negative boundary.        *)
(* A mode argument is a pair (m, cs): the mode m in lower case and the set *)
(* cs of letter positions the caller writes in upper case ("log", {1,2,3}  *)
(* is "LOG"); the harness applies the mask at the boundary.                *)
(* Rejected calls (an unknown name, a mode that is neither linear nor log, *)
(* a vector whose length is not the number of fitted parameters) raise and *)
(* change nothing (ErrorsChangeNothing); the history goes on after them.   *)
(* Preset(S) is a macro step: enable_fit / disable_fit called for every    *)
(* parameter so that exactly S is fitted (any subset: only observation     *)
(* parameters, none at all, ...); used by the export / simulation specs.   *)
(***************************************************************************)
EXTENDS Integers, Sequences, FiniteSets, TLC, Json

CONSTANTS Params,        \* sequence of fitting-parameter names, declaration order (model, then observation)
          Derived,       \* sequence of derived-parameter names, declaration order
          InitSetting,   \* [p -> [fit, mode, lo, hi, raw, slo, shi, sfit]]  (raw: the stored spelling is not the lower-case one;
                         \*  lo, hi: the boundaries the caller named last; slo, shi: the boundaries the object holds;
                         \*  fit: the flag the caller named last; sfit: the flag the object holds)
          InitDerived,   \* [d -> BOOLEAN]
          InitValue,     \* [p -> exponent]
          CallParams,    \* the fitting parameters that the generated calls name (subset of Params)
          UnknownFit,    \* names that are not fitting parameters (tried with every fitting call)
          UnknownDer,    \* names that are not derived parameters
          BoundPairs,    \* set of <<lo, hi>> exponent pairs (either order)
          Factors,       \* set of <<f0, f1>> exponent pairs (factors 10^f0, 10^f1)
          UserPriors,    \* set of prior records [kind, a, b]
          K,             \* exponents written by UpdateModel
          ObsParams,     \* the fitting parameters that belong to the observation (declared after the model's)
          ModeCalls,     \* set of <<m, cs>>: mode m written with the letters at positions cs in upper case
          InvalidModes,  \* strings that are neither mode in any spelling (set_mode must refuse them)
          PriorTable, ViewSpace, DerivedLookup, ObsMerge, ModeStore, UpdateGuard, BoundaryGuard, UpdateArg,
          FitEntry, FileRoute,
          Files,         \* the input files the generated histories apply (set of [fs, ds] records, see above)
          TrackArg,      \* keep the caller's array of the last update_model in the state (arg)
          Record         \* keep the history variable (binding C) or not (exhaustive runs)

VARIABLES setting, derivedOn, userPrior, priorTab, compiled, compiledDer, value, err, hist,
          arg            \* the array handed to the last update_model, as the caller sees it now: sequence of
                         \* [sp0, sp, e]: the caller wrote the number (sp0, e); the array now holds (sp, e)
vars == <<setting, derivedOn, userPrior, priorTab, compiled, compiledDer, value, err, hist, arg>>

PSet == {Params[i] : i \in 1..Len(Params)}
DSet == {Derived[i] : i \in 1..Len(Derived)}
None == [kind |-> "None", a |-> 0, b |-> 0]
LogKinds == {"LogUniform", "LogGaussian"}
PMode(pr) == IF pr.kind \in LogKinds THEN "log" ELSE "linear"
IMin(a, b) == IF a <= b THEN a ELSE b
IMax(a, b) == IF a <= b THEN b ELSE a
PosOf(p) == CHOOSE i \in 1..Len(Params) : Params[i] = p
\* codes of linear-space numbers that are not positive (the integer order of codes is the order of the numbers)
Zero == -1000
Neg(e) == -2000 - e
Positive(c) == c > Zero

\* ---------------------------------------------------------------- compile
\* compile_params(): default prior of a parameter from its mode and bounds
\*   log    -> LogUniform(lin_bounds = bounds) = uniform in log10 between the ordered exponents
\*   linear -> Uniform(bounds = bounds)        = uniform between the ordered linear bounds
DefaultPrior(s, p) == [kind |-> IF s[p].mode = "log" THEN "LogUniform" ELSE "Uniform",
                       a |-> IMin(s[p].lo, s[p].hi), b |-> IMax(s[p].lo, s[p].hi)]

FittedSeq(s) == SelectSeq(Params, LAMBDA p : s[p].fit)
TableFrom(base, s) == [p \in PSet |-> IF s[p].fit /\ base[p] = None THEN DefaultPrior(s, p) ELSE base[p]]
CompiledFrom(tab, s) == LET f == FittedSeq(s) IN
    [i \in 1..Len(f) |-> [name |-> f[i], mode |-> s[f[i]].mode, lo |-> s[f[i]].lo, hi |-> s[f[i]].hi,
                          prior |-> tab[f[i]]]]
DerivedFrom(don) == SelectSeq(Derived, LAMBDA d : don[d])

\* what the current settings alone imply (the mode is the mode the caller named, however it was spelled)
ViewCompiled(s, up) == CompiledFrom(TableFrom(up, s), s)
\* the settings as compile_params reads them: a spelling stored raw is not "log", hence linear
\* and the boundaries it holds
AsStored(s) == [p \in PSet |-> [s[p] EXCEPT !.mode = IF s[p].raw THEN "linear" ELSE s[p].mode,
                                             !.lo = s[p].slo, !.hi = s[p].shi, !.fit = s[p].sfit]]
\* compile_params is defined: no fitted parameter with a log-space prior (its own, or the default of log mode)
\* has a boundary that is zero or negative (log10 of it does not exist)
EffPrior(s, base, p) == IF base[p] # None THEN base[p] ELSE DefaultPrior(s, p)
DefinedFor(s, base) == \A p \in PSet : (s[p].fit /\ PMode(EffPrior(s, base, p)) = "log")
                                          => Positive(IMin(s[p].lo, s[p].hi))
WordLen(m) == IF m = "log" THEN 3 ELSE 6
LowerCase(m, cs) == cs \cap (1..WordLen(m)) = {}

\* ------------------------------------------------------------- projection
\* space in which fit_values / fit_boundaries report entry c of the snapshot
ViewSp(c) == IF ViewSpace = "prior_mode" THEN PMode(c.prior) ELSE c.mode
Proj(cmp, cder, val, e, ar) ==
    [fit |-> [i \in 1..Len(cmp) |->
                 [n   |-> cmp[i].name,
                  nsp |-> PMode(cmp[i].prior),            \* fit_names: "log_" prefix iff the prior is a log prior
                  vsp |-> ViewSp(cmp[i]), v |-> val[cmp[i].name],
                  bsp |-> ViewSp(cmp[i]), lo |-> IMin(cmp[i].lo, cmp[i].hi), hi |-> IMax(cmp[i].lo, cmp[i].hi),
                  pk  |-> cmp[i].prior.kind, psp |-> PMode(cmp[i].prior),
                  pa  |-> cmp[i].prior.a, pb |-> cmp[i].prior.b]],
     der |-> cder, val |-> val, err |-> e, arg |-> ar]

Log(ev) == hist' = IF Record THEN Append(hist, ev @@ [post |-> Proj(compiled', compiledDer', value', err', arg')]) ELSE hist

\* ------------------------------------------------------------------ actions
Init == /\ setting = InitSetting /\ derivedOn = InitDerived
        /\ userPrior = [p \in PSet |-> None] /\ priorTab = [p \in PSet |-> None]
        /\ compiled = <<>> /\ compiledDer = <<>>
        /\ value = InitValue /\ err = FALSE /\ hist = <<>> /\ arg = <<>>

SetSetting(p, f, ev) ==
        /\ err' = FALSE
        /\ setting' = [setting EXCEPT ![p] = f]
        /\ UNCHANGED <<derivedOn, userPrior, priorTab, compiled, compiledDer, value, arg>>
        /\ Log(ev)

EnableFit(p)  == SetSetting(p, [setting[p] EXCEPT !.fit = TRUE,  !.sfit = TRUE],  [op |-> "enable_fit", p |-> p])
DisableFit(p) == SetSetting(p, [setting[p] EXCEPT !.fit = FALSE, !.sfit = FALSE], [op |-> "disable_fit", p |-> p])
SetMode(p, m, cs) == SetSetting(p, [setting[p] EXCEPT !.mode = m, !.raw = (ModeStore = "raw" /\ ~LowerCase(m, cs))],
                                [op |-> "set_mode", p |-> p, m |-> m, cs |-> cs])
\* set_boundary stores the pair it is given (either order, any sign), whatever the mode is at that moment
Dropped(p, b) == BoundaryGuard = "positive_in_log" /\ setting[p].mode = "log" /\ ~Positive(IMin(b[1], b[2]))
SetBoundary(p, b) == SetSetting(p, [setting[p] EXCEPT !.lo = b[1], !.hi = b[2],
                                                      !.slo = IF Dropped(p, b) THEN @ ELSE b[1],
                                                      !.shi = IF Dropped(p, b) THEN @ ELSE b[2]],
                                [op |-> "set_boundary", p |-> p, x |-> b])
\* bounds = (factor0 * value, factor1 * value) with the value read now (factors and values are positive)
SetFactorBoundary(p, f) == SetSetting(p, [setting[p] EXCEPT !.lo = value[p] + f[1], !.hi = value[p] + f[2],
                                                            !.slo = value[p] + f[1], !.shi = value[p] + f[2]],
                                      [op |-> "set_factor_boundary", p |-> p, x |-> f])

\* enable_fit / disable_fit for every parameter: exactly S is fitted afterwards
Preset(S) ==
        /\ err' = FALSE
        /\ setting' = [p \in PSet |-> [setting[p] EXCEPT !.fit = (p \in S), !.sfit = (p \in S)]]
        /\ UNCHANGED <<derivedOn, userPrior, priorTab, compiled, compiledDer, value, arg>>
        /\ Log([op |-> "preset", on |-> SelectSeq(Params, LAMBDA p : p \in S)])
PresetCall == \E S \in SUBSET PSet : Preset(S)

SetPrior(p, pr) ==
        /\ err' = FALSE
        /\ userPrior' = [userPrior EXCEPT ![p] = pr]
        /\ priorTab' = IF PriorTable = "persist_all" THEN [priorTab EXCEPT ![p] = pr] ELSE priorTab
        /\ UNCHANGED <<setting, derivedOn, compiled, compiledDer, value, arg>>
        /\ Log([op |-> "set_prior", p |-> p, pr |-> pr])

EnableDerived(d) ==
        /\ err' = FALSE
        /\ derivedOn' = [derivedOn EXCEPT ![d] = TRUE]
        /\ UNCHANGED <<setting, userPrior, priorTab, compiled, compiledDer, value, arg>>
        /\ Log([op |-> "enable_derived", p |-> d])

DisableDerived(d) ==
        /\ IF DerivedLookup = "derived" \/ d \in PSet
           THEN derivedOn' = [derivedOn EXCEPT ![d] = FALSE] /\ err' = FALSE
           ELSE derivedOn' = derivedOn /\ err' = TRUE           \* as built: KeyError
        /\ UNCHANGED <<setting, userPrior, priorTab, compiled, compiledDer, value, arg>>
        /\ Log([op |-> "disable_derived", p |-> d])

\* compile_params is defined for the current settings (and for the table the mechanism starts from)
CompileDefined == /\ DefinedFor(setting, userPrior)
                  /\ PriorTable = "persist_all" => DefinedFor(setting, priorTab)
\* (frame conditions first: TLC evaluates the action properties conjunct by conjunct)
\* compile_params() and fit() are the two public entries into the compilation: fit() compiles, then hands the
\* set-up to the sampler (the logged projection of a "fit" event is what the sampler sees when it is entered)
CompileAs(op) ==
        /\ err' = FALSE
        /\ UNCHANGED <<setting, derivedOn, userPrior, value, arg>>
        /\ CompileDefined
        /\ LET base == IF PriorTable = "persist_all" THEN priorTab ELSE userPrior
               st   == AsStored(setting)
               tab  == TableFrom(base, st)
               \* two passes (model, then observation); tabM is the table after the first pass
               tabM == [p \in PSet |-> IF p \in ObsParams THEN base[p] ELSE tab[p]]
               lost == ObsMerge = "if_table_nonempty" /\ \A p \in PSet : tabM[p] = None
               reuse == op = "fit" /\ FitEntry = "reuse_if_compiled" /\ Len(compiled) > 0
           IN  /\ priorTab' = IF reuse THEN priorTab ELSE IF lost THEN tabM ELSE tab
               /\ compiled' = IF reuse THEN compiled ELSE CompiledFrom(tab, st)
               /\ compiledDer' = IF reuse THEN compiledDer ELSE DerivedFrom(derivedOn)
        /\ Log([op |-> op])
Compile == CompileAs("compile_params")
Fit     == CompileAs("fit")
Compiles == Compile \/ Fit

\* an input file applied by ParameterParser.setup_optimizer: the effect of the API calls its keys stand for
Named(F, p) == \E i \in 1..Len(F.fs) : F.fs[i].p = p
EntryOf(F, p) == F.fs[CHOOSE i \in 1..Len(F.fs) : F.fs[i].p = p]
FileSetting(s, val, F) == [p \in PSet |-> IF ~Named(F, p) THEN s[p] ELSE
    LET e  == EntryOf(F, p)
        nb == e.b # <<>> \/ e.f # <<>>
        lo == IF e.b # <<>> THEN e.b[1] ELSE IF e.f # <<>> THEN val[p] + e.f[1] ELSE s[p].lo
        hi == IF e.b # <<>> THEN e.b[2] ELSE IF e.f # <<>> THEN val[p] + e.f[2] ELSE s[p].hi
    IN  [s[p] EXCEPT !.fit = e.fit, !.sfit = IF e.fit \/ FileRoute = "as_api" THEN e.fit ELSE @,
                     !.mode = IF e.m = "" THEN @ ELSE e.m, !.raw = IF e.m = "" THEN @ ELSE FALSE,
                     !.lo = lo, !.hi = hi, !.slo = IF nb THEN lo ELSE @, !.shi = IF nb THEN hi ELSE @]]
FilePriors(up, F) == [p \in PSet |-> IF Named(F, p) /\ EntryOf(F, p).pr # None THEN EntryOf(F, p).pr ELSE up[p]]
File(F) ==
        /\ err' = FALSE
        /\ setting' = FileSetting(setting, value, F)
        /\ userPrior' = FilePriors(userPrior, F)
        /\ priorTab' = IF PriorTable = "persist_all" THEN FilePriors(priorTab, F) ELSE priorTab
        /\ derivedOn' = [d \in DSet |-> IF \E i \in 1..Len(F.ds) : F.ds[i].d = d
                                        THEN F.ds[CHOOSE i \in 1..Len(F.ds) : F.ds[i].d = d].on ELSE derivedOn[d]]
        /\ UNCHANGED <<compiled, compiledDer, value, arg>>
        /\ Log([op |-> "file", fs |-> F.fs, ds |-> F.ds])
FileCall == \E F \in Files : File(F)

\* update_model(vec): entry i is handed to prior i, whose prior() maps it to the model (x or 10^x).
\* vec[i] is the exponent of the value that reaches the model; the harness passes 10^vec[i] to a
\* linear prior and vec[i] to a log prior.
\* Coincidence class: the number handed over for a log prior (the exponent vec[i]) is numerically the parameter's
\* current value 10^value[p] (entry 1 for a parameter that is 1, entry 10 for one that is 10): it still has to be
\* written (the parameter becomes 10^vec[i]).  For a linear prior the entry is the value itself iff vec[i] = value[p].
Corrupt == 99
PowTen(e) == CASE e = 0 -> 1 [] e = 1 -> 10 [] e = 2 -> 100 [] OTHER -> -1
CoincidentLog(vec) == \E i \in 1..Len(compiled) : /\ PMode(compiled[i].prior) = "log"
                                                  /\ vec[i] = PowTen(value[compiled[i].name])
\* The caller's array.  Entry i is handed over in the space of prior i (entries beyond the fitted set: linear);
\* update_model only reads it: afterwards it still holds what the caller wrote (sp = sp0).
HandSp(i) == IF i <= Len(compiled) THEN PMode(compiled[i].prior) ELSE "linear"
ArgAfter(vec, n) == IF ~TrackArg THEN <<>> ELSE
    [i \in 1..Len(vec) |-> [sp0 |-> HandSp(i), e |-> vec[i],
                            sp  |-> IF UpdateArg = "transformed" /\ i <= n THEN "linear" ELSE HandSp(i)]]
UpdateModel(vec) ==
        /\ err' = FALSE
        /\ Len(vec) = Len(compiled)
        /\ arg' = ArgAfter(vec, Len(vec))
        /\ value' = [p \in PSet |-> IF \E i \in 1..Len(compiled) : compiled[i].name = p
                                    THEN vec[CHOOSE i \in 1..Len(compiled) : compiled[i].name = p]
                                    ELSE value[p]]
        /\ UNCHANGED <<setting, derivedOn, userPrior, priorTab, compiled, compiledDer>>
        /\ Log([op |-> "update_model", x |-> vec, co |-> CoincidentLog(vec)])

\* update_model(vec) with a vector whose length is not the number of fitted parameters (shorter or
\* longer, not empty): refused, nothing is written
UpdateWrong(vec) ==
        /\ err' = TRUE
        /\ Len(vec) # Len(compiled)
        /\ arg' = ArgAfter(vec, 0)
        /\ LET n == IF UpdateGuard = "while_writing" THEN IMin(Len(vec), Len(compiled)) ELSE 0 IN
           value' = [p \in PSet |-> IF \E i \in 1..n : compiled[i].name = p
                                    THEN vec[CHOOSE i \in 1..n : compiled[i].name = p]
                                    ELSE value[p]]
        /\ UNCHANGED <<setting, derivedOn, userPrior, priorTab, compiled, compiledDer>>
        /\ Log([op |-> "update_model", x |-> vec])

\* update_model(a) with the very array object a of the previous update_model call (a sampler's trace row written in
\* a second sweep), where the numbers the caller wrote then are still meaningful: same length, same prior spaces.
\* The fitted parameters become what the caller wrote; an entry that no longer holds it sets something else.
SameDefined == /\ TrackArg /\ arg # <<>> /\ Len(arg) = Len(compiled)
               /\ \A i \in 1..Len(arg) : arg[i].sp0 = PMode(compiled[i].prior)
UpdateSame ==
        /\ err' = FALSE
        /\ SameDefined
        /\ value' = [p \in PSet |-> IF \E i \in 1..Len(compiled) : compiled[i].name = p
                                    THEN LET i == CHOOSE i \in 1..Len(compiled) : compiled[i].name = p
                                         IN  IF arg[i].sp = arg[i].sp0 THEN arg[i].e ELSE Corrupt
                                    ELSE value[p]]
        /\ arg' = [i \in 1..Len(arg) |-> [arg[i] EXCEPT !.sp = IF UpdateArg = "transformed" THEN "linear" ELSE @]]
        /\ UNCHANGED <<setting, derivedOn, userPrior, priorTab, compiled, compiledDer>>
        /\ Log([op |-> "update_same", x |-> [i \in 1..Len(arg) |-> arg[i].e]])

\* update_model(fit_values): the reported values are written back.  A value reported in the space of
\* its prior returns to the model unchanged; one reported in the other space does not (Corrupt).
WriteBack ==
        /\ err' = FALSE
        /\ UNCHANGED <<setting, derivedOn, userPrior, priorTab, compiled, compiledDer, arg>>
        /\ value' = [p \in PSet |-> IF \E i \in 1..Len(compiled) :
                                          compiled[i].name = p /\ ViewSp(compiled[i]) # PMode(compiled[i].prior)
                                    THEN Corrupt ELSE value[p]]
        /\ Log([op |-> "write_back"])

\* any call naming an unknown parameter: an error, nothing changes
Unknown(op, u) ==
        /\ err' = TRUE
        /\ UNCHANGED <<setting, derivedOn, userPrior, priorTab, compiled, compiledDer, value, arg>>
        /\ Log([op |-> op, p |-> u])

\* set_mode with a string that is neither mode: an error, nothing changes
BadMode(p, w) ==
        /\ err' = TRUE
        /\ UNCHANGED <<setting, derivedOn, userPrior, priorTab, compiled, compiledDer, value, arg>>
        /\ Log([op |-> "set_mode", p |-> p, m |-> w, cs |-> {}])

FitOps == {"enable_fit", "disable_fit", "set_mode", "set_boundary", "set_factor_boundary", "set_prior"}
DerOps == {"enable_derived", "disable_derived"}
UnknownFitCall == \E op \in FitOps, u \in UnknownFit : Unknown(op, u)
UnknownDerCall == \E op \in DerOps, u \in UnknownDer : Unknown(op, u)

Vecs == [1..Len(compiled) -> K]
WrongLens == (1..(Len(compiled) + 1)) \ {Len(compiled)}
WrongVecs == UNION {[1..n -> K] : n \in WrongLens}
SettingCall == \E p \in CallParams :
                  \/ EnableFit(p) \/ DisableFit(p)
                  \/ \E mc \in ModeCalls : SetMode(p, mc[1], mc[2])
                  \/ \E b \in BoundPairs : SetBoundary(p, b)
                  \/ \E f \in Factors : SetFactorBoundary(p, f)
PriorCall   == \E p \in CallParams, pr \in UserPriors : SetPrior(p, pr)
DerivedCall == \E d \in DSet : EnableDerived(d) \/ DisableDerived(d)
UpdateCall  == \E vec \in Vecs : UpdateModel(vec)
ApiCall     == SettingCall \/ PriorCall \/ DerivedCall \/ Compile \/ UpdateCall \/ WriteBack \/ UpdateSame
KnownCall   == ApiCall \/ Fit \/ FileCall
UnknownCall == UnknownFitCall \/ UnknownDerCall
UpdateWrongCall == \E vec \in WrongVecs : UpdateWrong(vec)
BadModeCall == \E p \in CallParams, w \in InvalidModes : BadMode(p, w)
RejectedCall == UnknownCall \/ UpdateWrongCall \/ BadModeCall

Next == KnownCall \/ RejectedCall
Spec == Init /\ [][Next]_vars

\* --------------------------------------------------------------- properties
TypeOK == /\ \A p \in PSet : /\ setting[p].fit \in BOOLEAN /\ setting[p].mode \in {"linear", "log"} /\ ~setting[p].raw /\ setting[p].sfit = setting[p].fit
                             /\ setting[p].slo = setting[p].lo /\ setting[p].shi = setting[p].hi
          /\ \A d \in DSet : derivedOn[d] \in BOOLEAN
          /\ err \in BOOLEAN

\* the compiled set-up -- by compile_params() or on entry of the sampler by fit() -- is a function of the current
\* settings only, by whichever route (API / input file) they were made
HistoryIndependent == [][Compiles => /\ compiled' = ViewCompiled(setting', userPrior')
                                    /\ compiledDer' = DerivedFrom(derivedOn')]_vars

\* fitted names are exactly the enabled ones at the last compile, in declaration order
OrderIsDeclarationOrder ==
    \A i, j \in 1..Len(compiled) : i < j => PosOf(compiled[i].name) < PosOf(compiled[j].name)
CompileTakesEnabled == [][Compiles => {compiled'[i].name : i \in 1..Len(compiled')} = {p \in PSet : setting[p].fit}]_vars

\* name, value, boundary and prior of a fitted parameter are reported in one space
SpacesAgree == \A i \in 1..Len(compiled) : ViewSp(compiled[i]) = PMode(compiled[i].prior)
\* fit_names / fit_values / fit_boundaries look the prior up by name in the table: every compiled entry is there,
\* with the prior that update_model and the samplers use (whatever subset is fitted: model parameters only,
\* observation parameters only, with or without a set_prior)
ViewsReadable == \A i \in 1..Len(compiled) : priorTab[compiled[i].name] = compiled[i].prior
\* default priors are those of the mode and bounds at the compile (set_prior entries excepted)
DefaultsFollowSettings == [][Compiles => \A i \in 1..Len(compiled') :
                               LET c == compiled'[i] IN
                               userPrior[c.name] = None => c.prior = DefaultPrior(setting, c.name)]_vars

\* writing the reported values back changes nothing
RoundTrip == [][WriteBack => value' = value]_vars
\* update_model touches exactly the fitted parameters  (value' # value first: TLC evaluates lazily)
OnlyFittedTouched == [][(value' # value /\ UpdateCall) => \A p \in PSet :
                          (\A i \in 1..Len(compiled) : compiled[i].name # p) => value'[p] = value[p]]_vars
FittedAreSet == [][(value' # value /\ UpdateCall) => \A i \in 1..Len(compiled) : value'[compiled[i].name] \in K]_vars
\* only update_model (and a write-back) can change a value
SettersKeepValues == [][value' # value => (UpdateCall \/ WriteBack \/ UpdateSame)]_vars
\* the array handed to update_model still holds what the caller wrote (after the call and after every later call)
ArgumentKept == \A i \in 1..Len(arg) : arg[i].sp = arg[i].sp0
\* writing the same array again sets the fitted parameters to what the caller wrote, and nothing else
SameArrayTwice == [][UpdateSame => \A p \in PSet :
                        IF \E i \in 1..Len(compiled) : compiled[i].name = p
                        THEN value'[p] = arg[CHOOSE i \in 1..Len(compiled) : compiled[i].name = p].e
                        ELSE value'[p] = value[p]]_vars
\* unknown names are errors and leave everything as it was; known names never are
UnknownIsError == [][UnknownCall => err']_vars
\* so are a vector of the wrong length and a mode that is neither linear nor log
RejectedIsError == [][RejectedCall => err']_vars
ErrorsChangeNothing == [][err' => (UNCHANGED <<setting, derivedOn, userPrior, priorTab,
                                              compiled, compiledDer, value>> /\ ArgumentKept')]_vars
KnownIsAccepted == [][err' => ~KnownCall]_vars
=============================================================================
