--------------------------- MODULE Trace_Posterior ---------------------------
(***************************************************************************)
(* C09, binding B: summaries reported by real fits (fitted-parameter and   *)
(* derived-parameter traces of arbitrary size, non-integer values) are     *)
(* validated against the quantile / mean operators of Posterior.tla.       *)
(* One event = one summarised trace:                                        *)
(*   x[i]  = round((trace_i - x0) * S)   (shifted, scaled integers)         *)
(*   w[i]  = relative integer weights; the double hands w * tot / sum(w) to *)
(*           the optimizer, tot = <<n, d>> an arbitrary positive total (the  *)
(*           summaries do not depend on it: TotalFree in MC_Posterior)       *)
(*   q     = <<q16, q50, q84>> reported, as round((value - x0) * S) with    *)
(*           q16 = value - sigma_m, q84 = value + sigma_p                   *)
(*   mean  = round((mean - x0) * S),  tol in units                          *)
(* Stateless stream: every event gets a verdict.                           *)
(***************************************************************************)
EXTENDS Posterior, IOUtils, TLCExt
VARIABLE l
TraceLog == ndJsonDeserialize(IOEnv.TRACE_FILE)

Ok(e) ==
    /\ Len(e.x) = Len(e.w)
    /\ e.tot[1] > 0 /\ e.tot[2] > 0 /\ TotalW(e.w) > 0
    /\ \E t \in Triples(e.x, e.w) : \A k \in 1..3 : Close(e.q[k], 1, t[k], e.tol)
    /\ Close(e.mean, 1, WMean(e.x, e.w), e.tol)
Init == l = 1
Step == /\ l <= Len(TraceLog)
        /\ LET e == TraceLog[l] IN
             IF Ok(e) THEN TRUE ELSE PrintT(<<"BAD", ToJson([l |-> l, id |-> e.id])>>)
        /\ l' = l + 1
Spec == Init /\ [][Step]_l
Accepted == TLCGet("stats").diameter - 1 = Len(TraceLog)
=============================================================================
