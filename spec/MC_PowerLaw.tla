---------------------------- MODULE MC_PowerLaw ----------------------------
(***************************************************************************)
(* C10 -- the power-law abundance profile (PowerGas), with the dimension   *)
(* WHICH of its four control values the user supplied and which are left   *)
(* to the table of known species, and by which route they arrived          *)
(* (constructor, or written later through the gas's own parameters, also   *)
(* between evaluations of one long-lived object).                          *)
(*                                                                         *)
(*   law:  Ad(l) = B^(-g + a*lp(l) + b*ti(l))      (local chemistry)       *)
(*         mix(l) = ( 1/sqrt(A0) + 1/sqrt(Ad(l)) )^-2,   A0 = B^s          *)
(*   s = log_B of the deep-atmosphere abundance, a / b / g the pressure /  *)
(*   temperature / scale coefficients, lp = log_B pressure, ti = 1/T.      *)
(*   The clauses (one positive value per layer, at most the deep value,    *)
(*   WHICH coefficient is in force) do not depend on the base; B = 4 makes *)
(*   the square roots exact rationals.  The harness maps value indices to  *)
(*   physical values and reads the table of known species as input data.   *)
(*                                                                         *)
(*   Each control value is the user's when the user supplied one (at       *)
(*   construction or by a later write) and the tabulated one otherwise;    *)
(*   without a table entry (unknown species) a missing value means there   *)
(*   is no law: rejected.                                                  *)
(*                                                                         *)
(* Variants # "spec" are wrong designs for expected counterexamples:       *)
(*   all_or_nothing  the table is used for ALL four values unless the user *)
(*                   supplied all four (a partial override is dropped);    *)
(*   table_wins      a known species always uses its table;                *)
(*   ctor_only       values written after construction are not used.       *)
(***************************************************************************)
EXTENDS Integers, Sequences, FiniteSets, TLC, Rat, Json
CONSTANTS NV,            \* user values per coefficient (indices 1..NV; 0 = not supplied)
          MaxWrites,     \* writes per behaviour
          Variant, Export
VARIABLES user, known, atctor, log, out, nw, start
vars == <<user, known, atctor, log, out, nw, start>>

Coeffs == {"s", "a", "b", "g"}
\* exponents (base 4): the user's choices lie on both sides of the tabulated value
UserVals  == [s |-> <<-3, -1>>, a |-> <<0, 2>>, b |-> <<0, 2>>, g |-> <<0, 2>>]
TableVals == [s |-> -2, a |-> 1, b |-> 1, g |-> 1]
LP == <<1, 0, -2>>          \* log_B pressure of the layers, surface first
TI == <<1, 1, 2>>           \* inverse temperature of the layers
NL == Len(LP)

Supplied(u, c) == u[c] # 0
\* the control values in force for the requested settings u (the reference of the property)
RefEff(u, kn, c) == IF Supplied(u, c) THEN [src |-> "user", v |-> UserVals[c][u[c]]]
                    ELSE IF kn THEN [src |-> "table", v |-> TableVals[c]]
                    ELSE [src |-> "missing", v |-> 0]
\* what the (possibly wrong) design uses: u = current user values, u0 = those given at construction
DesignEffV(var, u, u0, kn, c) ==
    CASE var = "all_or_nothing" ->
             IF \A d \in Coeffs : Supplied(u, d) THEN RefEff(u, kn, c) ELSE RefEff([d \in Coeffs |-> 0], kn, c)
      [] var = "table_wins" -> IF kn THEN RefEff([d \in Coeffs |-> 0], kn, c) ELSE RefEff(u, kn, c)
      [] var = "ctor_only"  -> RefEff(u0, kn, c)
      [] OTHER -> RefEff(u, kn, c)

Pow2R(k) == IF k >= 0 THEN <<Pow(2, k), 1>> ELSE <<1, Pow(2, -k)>>
Pow4R(k) == RMul(Pow2R(k), Pow2R(k))
LawExp(e, l) == (-e["g"].v) + (e["a"].v * LP[l]) + (e["b"].v * TI[l])
MixAt(e, l) == LET x == Pow2R(e["s"].v)          \* sqrt(A0)
                   y == Pow2R(LawExp(e, l))      \* sqrt(Ad)
                   h == RDiv(RMul(x, y), RAdd(x, y))
               IN  RMul(h, h)
ResultV(var, u, u0, kn) ==
    LET e == [c \in Coeffs |-> DesignEffV(var, u, u0, kn, c)]
    IN  IF \E c \in Coeffs : e[c].src = "missing" THEN [st |-> "rejected", eff |-> e, prof |-> <<>>]
        ELSE [st |-> "ok", eff |-> e, prof |-> [l \in 1..NL |-> MixAt(e, l)]]
Result(u, u0, kn) == ResultV(Variant, u, u0, kn)

Nil == [st |-> "none", eff |-> <<>>, prof |-> <<>>]
Init == /\ user \in [Coeffs -> 0..NV] /\ known \in BOOLEAN
        /\ atctor = user /\ start = user
        /\ log = <<>> /\ nw = 0 /\ out = Nil
Write(c, v) == /\ nw < MaxWrites /\ user[c] # v
               /\ user' = [user EXCEPT ![c] = v]
               /\ log' = Append(log, [op |-> "write", c |-> c, v |-> v, st |-> "", eff |-> <<>>])
               /\ nw' = nw + 1 /\ UNCHANGED <<known, atctor, out, start>>
Evaluated == Len(log) > 0 /\ log[Len(log)].op = "eval"
Eval == /\ ~Evaluated
        /\ out' = Result(user, atctor, known)
        /\ log' = Append(log, [op |-> "eval", c |-> "", v |-> 0, st |-> Result(user, atctor, known).st,
                               eff |-> [c \in Coeffs |-> [src |-> RefEff(user, known, c).src,
                                                          idx |-> user[c]]]])
        /\ UNCHANGED <<user, known, atctor, nw, start>>
Next == (\E c \in Coeffs, v \in 1..NV : Write(c, v)) \/ Eval
Spec == Init /\ [][Next]_vars

Valid == Evaluated /\ out.st = "ok"
Ref(c) == RefEff(user, known, c)
\* every control value in force is the one requested: the user's where one was supplied, the table's otherwise
ControlValuesInForce == Evaluated => \A c \in Coeffs : out.eff[c] = Ref(c)
RejectedIffMissing == Evaluated => ((out.st = "rejected") <=> (\E c \in Coeffs : Ref(c).src = "missing"))
OneValuePerLayer == Valid => Len(out.prof) = NL
Positive == Valid => \A l \in 1..NL : RLt(RZero, out.prof[l])
\* "at most its deep-atmosphere value": the deep value that was REQUESTED
AtMostDeepValue == Valid => \A l \in 1..NL : RLe(out.prof[l], Pow4R(Ref("s").v))
\* ... and never above the local chemistry of the coefficients in force
AtMostLocalLaw == Valid => \A l \in 1..NL :
    RLe(out.prof[l], Pow4R(LawExp([c \in Coeffs |-> Ref(c)], l)))
\* the evaluation of the long-lived object is the evaluation of a fresh object given all requested values at once
EvalIsFunctional == Evaluated => out = Result(user, user, known)
FitsInv == Valid => \A l \in 1..NL : Fits(out.prof[l])

\* WITNESS: a reachable evaluation at which a wrong design gives a profile above the REQUESTED deep value / uses another
\* control value than the one in force (the RF_PowerLaw_<variant>.cfg runs show the same as counterexamples)
WrongDesigns == {"all_or_nothing", "table_wins", "ctor_only"}
BreaksDeep(var) == LET r == ResultV(var, user, atctor, known)
                   IN  r.st = "ok" /\ Ref("s").src # "missing" /\ \E l \in 1..NL : ~RLe(r.prof[l], Pow4R(Ref("s").v))
BreaksInForce(var) == \E c \in Coeffs : ResultV(var, user, atctor, known).eff[c] # Ref(c)
Emit == (Export /\ Evaluated /\ nw = MaxWrites) =>
    /\ PrintT(<<"PVEC", ToJson([start |-> start, known |-> known, log |-> log])>>)
    /\ \A var \in WrongDesigns :
         /\ IF BreaksDeep(var) THEN PrintT(<<"WITNESS", ToJson([variant |-> var, inv |-> "AtMostDeepValue", user |-> user])>>) ELSE TRUE
         /\ IF BreaksInForce(var) THEN PrintT(<<"WITNESS", ToJson([variant |-> var, inv |-> "ControlValuesInForce", user |-> user])>>) ELSE TRUE
=============================================================================
