SPECIFICATION Spec
CONSTANTS
  Rule = "sumlog"
  NSet = {3, 24, 150, 400}
  USel = {1, 2, 3}
  SBaseSet = {4}
  ARef = 2
  Export = TRUE
INVARIANT NormIsSumOfLogs
INVARIANT FitsInv
CONSTRAINT Emit
CHECK_DEADLOCK FALSE
