SPECIFICATION Spec
CONSTANTS
  KeysTop = {"a","b"}
  KeysNested = {"a"}
  Depth = 2
  Export = TRUE
  Catalogue = "strings"
  SizeTest = "order"
  Caught = {"TypeError","ValueError"}
INVARIANT RoundTrip
INVARIANT NoError
CONSTRAINT Emit
CHECK_DEADLOCK FALSE
