SPECIFICATION Spec
CONSTANTS
  NMin = 2
  NMax = 8
  SVals = {0,4,8,11}
  SShift = 12
  SWs = {0,1,10,25,34,50,100,150}
  ArrLens = {1,2,3}
  Rule = "spec"
  Export = FALSE
INVARIANT OneValuePerLayer
INVARIANT WithinControlRange
INVARIANT ConstantWhenEqual
INVARIANT EndValues
INVARIANT FitsInv
CONSTRAINT Emit
CHECK_DEADLOCK FALSE
