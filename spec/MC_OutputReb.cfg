SPECIFICATION Spec
CONSTANT Caught = {"TypeError","ValueError"}
INVARIANT RebuildSound
INVARIANT SweepComplete
CHECK_DEADLOCK FALSE
