SPECIFICATION Spec
CONSTANT Caught = {"TypeError","ValueError"}
INVARIANT RebuildSound
CHECK_DEADLOCK FALSE
