--------------------------- MODULE OutputPipeline ---------------------------
(***************************************************************************)
(* C16 over HISTORIES of the output pipeline: "output files hold what was  *)
(* computed".                                                              *)
(*                                                                         *)
(* Nothing is written the moment it is computed.  The program and          *)
(* Optimizer.generate_solution evaluate ONE long-lived forward model       *)
(* (result = model.model()), build the spectrum dictionary from the result *)
(* (binner.generate_spectrum_output keeps REFERENCES to the native arrays  *)
(* of the result and computes the binned ones), then evaluate the same     *)
(* model again -- every contribution (model_contrib), every component      *)
(* (model_full_contrib), the next solution with other parameter values,    *)
(* another model object of the same class -- and only then hand the        *)
(* dictionaries to the writer.  The statement quantifies over results,     *)
(* output sizes and binners, never over what the model was asked between   *)
(* computing a result and storing it.  So, whatever happens in between:    *)
(*   ResultsStable      every result a caller still holds has the values   *)
(*                      it had when the evaluation handed it out, and the  *)
(*                      results of one call (one per contribution / per    *)
(*                      component) do not share their arrays;              *)
(*   FileHoldsComputed  the native arrays in the file are the values of    *)
(*                      THAT evaluation and the binned ones the binner     *)
(*                      applied to them;                                   *)
(*   FileSelfConsistent the binned arrays in the file are the binner       *)
(*                      applied to the native arrays stored next to them.  *)
(*                                                                         *)
(* Abstract memory.  mem is a sequence of buffers; a buffer holds a value  *)
(* [model, cfg, kind, part, shape, array] = what a fresh model with that   *)
(* parameter value computes for that part on that grid.  A result refers   *)
(* to buffers, a dictionary to the buffers of its result (native arrays)   *)
(* and owns the binned values, a file holds values.                        *)
(*                                                                         *)
(* Operations.                                                             *)
(*   eval(m, c, kind, shape)  model m, parameter value c, kind = "model" |  *)
(*        "contrib" | "full" (one result / one per contribution / one per  *)
(*        component: parts computed one after the other, first and last    *)
(*        are held), shape = "native" | "cut" (a wngrid was passed)        *)
(*   output(call, part, size) generate_spectrum_output of a held result    *)
(*   store(dict)              the dictionary goes to the file              *)
(*                                                                         *)
(* Design variants (fixed per behaviour).  "sound": every evaluation       *)
(* returns new arrays.  Must be refuted: "work-tau" / "work-flux" (the     *)
(* model keeps its work array between evaluations, re-allocated only when  *)
(* the shape changes, and returns it), "work-tau-class" (the work array is *)
(* shared by all instances of the class), "outmut" (building the output    *)
(* dictionary modifies the native spectrum of the result in place).        *)
(***************************************************************************)
EXTENDS Integers, Sequences, FiniteSets, TLC

CONSTANTS Models, Cfgs, Kinds, Shapes, Sizes,
          Variants,                        \* subset of VariantNames
          MaxCalls, MaxDicts, MaxFiles

VariantNames == {"sound", "work-tau", "work-flux", "work-tau-class", "outmut"}
WorkOf(v)  == CASE v = "work-flux" -> {"flux"} [] v \in {"work-tau", "work-tau-class"} -> {"tau"} [] OTHER -> {}
ClassScope(v) == v = "work-tau-class"
OutMut(v)  == v = "outmut"

ArrSeq == <<"flux", "tau">>
ArrIx(a) == IF a = "flux" THEN 1 ELSE 2
NParts(kind) == IF kind = "model" THEN 1 ELSE 2

VARIABLES V, st
vars == <<V, st>>

NoWork == [shape |-> "-", buf |-> 0]
WorkKeys == (Models \cup {0}) \X {"flux", "tau"}
WorkKey(v, m, a) == IF ClassScope(v) THEN <<0, a>> ELSE <<m, a>>
Fresh0 == [mem |-> <<>>, work |-> [k \in WorkKeys |-> NoWork], held |-> <<>>, dicts |-> <<>>, files |-> <<>>]

EvalOps   == [k : {"eval"}, m : Models, c : Cfgs, kind : Kinds, shape : Shapes]
OutputOps(s) == {[k |-> "output", call |-> i, part |-> p, size |-> z] :
                    i \in 1..Len(s.held), p \in 1..2, z \in Sizes}
StoreOps(s)  == {[k |-> "store", dict |-> j] : j \in 1..Len(s.dicts)}
Enabled(s, op) == CASE op.k = "eval"   -> Len(s.held) < MaxCalls
                    [] op.k = "output" -> Len(s.dicts) < MaxDicts /\ op.call <= Len(s.held) /\ op.part <= NParts(s.held[op.call].op.kind)
                    [] OTHER           -> Len(s.files) < MaxFiles /\ op.dict <= Len(s.dicts)
OpsAt(s) == {op \in EvalOps \cup OutputOps(s) \cup StoreOps(s) : Enabled(s, op)}

\* ------------------------------------------------------------ one evaluation call
\* the arrays of the parts are computed one after the other (item i: part (i+1) div 2, array flux / tau)
\* values (records of one shape, so that any two can be compared): what a fresh model m with parameter value c computes
\* for part p of an evaluation of that kind on that grid; tag "scaled" = modified in place afterwards; None = not there
Val(op, p, a) == [m |-> op.m, c |-> op.c, kind |-> op.kind, p |-> p, shape |-> op.shape, a |-> a, tag |-> "raw"]
None == [m |-> 0, c |-> 0, kind |-> "-", p |-> 0, shape |-> "-", a |-> "-", tag |-> "none"]
RECURSIVE Fill(_, _, _, _, _, _)
Fill(v, mem, work, op, i, bufs) ==
    IF i > 2 * NParts(op.kind) THEN [mem |-> mem, work |-> work, bufs |-> bufs]
    ELSE LET p   == (i + 1) \div 2
             a   == ArrSeq[((i - 1) % 2) + 1]
             val == Val(op, p, a)
             key == WorkKey(v, op.m, a)
         IN  IF a \in WorkOf(v) /\ work[key].shape = op.shape
             THEN \* the model's work array has this shape already: it is overwritten and handed out again
                  Fill(v, [mem EXCEPT ![work[key].buf] = val], work, op, i + 1, Append(bufs, work[key].buf))
             ELSE LET nb == Len(mem) + 1 IN
                  Fill(v, Append(mem, val),
                       IF a \in WorkOf(v) THEN [work EXCEPT ![key] = [shape |-> op.shape, buf |-> nb]] ELSE work,
                       op, i + 1, Append(bufs, nb))

BufOf(call, p, a)  == call.bufs[2 * (p - 1) + ArrIx(a)]
WantOf(call, p, a) == call.snap[2 * (p - 1) + ArrIx(a)]
\* the binner is injective on the values of the alphabet: "the binner applied to x" is represented by x itself
Bin(x) == x

Apply(v, s, op) ==
    IF op.k = "eval"
    THEN LET r == Fill(v, s.mem, s.work, op, 1, <<>>) IN
         \* snap: what the arrays hold when the call returns = what the caller was given
         [s EXCEPT !.mem = r.mem, !.work = r.work,
                   !.held = Append(s.held, [op |-> op, bufs |-> r.bufs, snap |-> [i \in 1..Len(r.bufs) |-> r.mem[r.bufs[i]]]])]
    ELSE IF op.k = "output"
    THEN LET call == s.held[op.call]
             fb == BufOf(call, op.part, "flux")
             tb == BufOf(call, op.part, "tau")
             d  == [call |-> op.call, part |-> op.part, size |-> op.size,
                    bflux |-> Bin(s.mem[fb]),
                    btau  |-> IF op.size # "lighter" THEN Bin(s.mem[tb]) ELSE None]
         IN  [s EXCEPT !.dicts = Append(s.dicts, d),
                       !.mem = IF OutMut(v) THEN [s.mem EXCEPT ![fb].tag = "scaled"] ELSE s.mem]
    ELSE LET d    == s.dicts[op.dict]
             call == s.held[d.call]
         IN  [s EXCEPT !.files = Append(s.files,
                  [dict |-> op.dict,
                   nflux |-> s.mem[BufOf(call, d.part, "flux")],
                   ntau  |-> IF d.size = "heavy" THEN s.mem[BufOf(call, d.part, "tau")] ELSE None,
                   bflux |-> d.bflux, btau |-> d.btau])]

\* ------------------------------------------------------------ clauses
PartsDistinct(s) ==
    \A i \in 1..Len(s.held) : \A x, y \in 1..Len(s.held[i].bufs) : x # y => s.held[i].bufs[x] # s.held[i].bufs[y]
ResultsStable(s) ==
    /\ PartsDistinct(s)
    /\ \A i \in 1..Len(s.held) : \A p \in 1..NParts(s.held[i].op.kind) : \A a \in {"flux", "tau"} :
           s.mem[BufOf(s.held[i], p, a)] = WantOf(s.held[i], p, a)
FileHoldsComputed(s) ==
    \A n \in 1..Len(s.files) :
        LET f == s.files[n]  d == s.dicts[f.dict]  call == s.held[d.call] IN
        /\ f.nflux = WantOf(call, d.part, "flux")
        /\ f.bflux = Bin(WantOf(call, d.part, "flux"))
        /\ (d.size = "heavy" => f.ntau = WantOf(call, d.part, "tau"))
        /\ (d.size # "lighter" => f.btau = Bin(WantOf(call, d.part, "tau")))
FileSelfConsistent(s) ==
    \A n \in 1..Len(s.files) :
        LET f == s.files[n]  d == s.dicts[f.dict] IN
        /\ f.bflux = Bin(f.nflux)
        /\ (d.size = "heavy" => f.btau = Bin(f.ntau))
\* optical depths according to the size (C16-2), restated on the file record
FileSized(s) ==
    \A n \in 1..Len(s.files) :
        LET f == s.files[n]  d == s.dicts[f.dict] IN
        /\ (f.ntau # None) = (d.size = "heavy")
        /\ (f.btau # None) = (d.size # "lighter")
AllClauses(s) == ResultsStable(s) /\ FileHoldsComputed(s) /\ FileSelfConsistent(s) /\ FileSized(s)

\* ------------------------------------------------------------ behaviours
Init == V \in Variants /\ st = Fresh0
Do(op) == Enabled(st, op) /\ st' = Apply(V, st, op) /\ UNCHANGED V
Next == \E op \in OpsAt(st) : Do(op)
Spec == Init /\ [][Next]_vars

HoldStable == V = "sound" => ResultsStable(st)
HoldFile   == V = "sound" => FileHoldsComputed(st) /\ FileSelfConsistent(st) /\ FileSized(st)
\* one invariant per design mutant (expected counterexamples, reported together by TLC -continue); each is refuted at the
\* level of the FILE: what is stored is not what was computed, or does not describe itself.  Only witnesses of one canonical
\* form count (first call: model 1 evaluated as a whole; native grid and heavy output throughout), so that TLC reports a
\* handful of counterexamples instead of every violating state.
Witness(s) == /\ Len(s.held) >= 1 /\ s.held[1].op.m = 1 /\ s.held[1].op.kind = "model"
              /\ \A i \in 1..Len(s.held) : s.held[i].op.shape = "native"
              /\ \A j \in 1..Len(s.dicts) : s.dicts[j].size = "heavy" /\ s.dicts[j].call = 1
FileOk(s) == FileHoldsComputed(s) /\ FileSelfConsistent(s)
RefuteWorkTau      == (V = "work-tau" /\ Witness(st)) => FileOk(st)
RefuteWorkFlux     == (V = "work-flux" /\ Witness(st)) => FileOk(st)
RefuteWorkTauClass == (V = "work-tau-class" /\ Witness(st)) => FileOk(st)
RefuteOutMut       == (V = "outmut" /\ Witness(st)) => FileOk(st)
=============================================================================
