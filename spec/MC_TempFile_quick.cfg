SPECIFICATION Spec
CONSTANTS
  NMin = 2
  NMax = 4
  TVals = {1,2,4}
  MaxLen = 3
  PUnits = {0,2,5}
  TUnits = {1,1000}
  Lays = {1,2,3,4,5}
  Skips = {0,2}
  Delims = {"ws","comma"}
  Orders = {"boa","toa"}
  Rule = "spec"
  Export = FALSE
INVARIANT OnePerLayer
INVARIANT PositiveFinite
INVARIANT WithinControlRange
INVARIANT ConstantWhenControlsEqual
INVARIANT FileTransparent
INVARIANT FitsInv
CONSTRAINT Emit

CHECK_DEADLOCK FALSE
