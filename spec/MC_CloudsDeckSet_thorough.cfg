SPECIFICATION Spec
CONSTANTS
  NMax = 3
  L0s = {0,2,8,12,13,14,16}
  Spacings = {2,4}
  BStep = 1
  Below = 4
  Writers = {"setter","param"}
  Design = "spec"
  CapPos = 12
  MaxWrites = 3
  Export = FALSE
INVARIANT OpaqueSetIsDeclared
INVARIANT BelowBottomIsNoCloud
VIEW ViewNoHist
CHECK_DEADLOCK FALSE
