---------------------------- MODULE MC_PostStats ----------------------------
(* Exhaustive / export model of PostStats (cfg files have no tuples / rationals). *)
EXTENDS PostStats, Json
CONSTANTS Ns, Vals, Wts, WDen, SmpMode, Gens, Export
QPairs == {[v |-> Q(a), w |-> R(b, WDen)] : a \in Vals, b \in Wts}
GenV == << <<2, 0, 5, 1, 3, 3, 0, 4, 2, 5, 1, 0>>,
           <<1, 1, 1, 4, 0, 2, 5, 5, 3, 0, 2, 4>>,
           <<0, 3, 1, 3, 0, 1, 3, 0, 1, 3, 0, 1>> >>
GenW == << <<1, 2, 1, 4, 3, 1, 2, 2, 1, 3, 4, 1>>,
           <<4, 1, 3, 1, 2, 2, 1, 4, 1, 1, 3, 2>>,
           <<1, 1, 2, 2, 1, 1, 2, 2, 3, 3, 1, 1>> >>
Generic(g, n) == [i \in 1..n |-> [v |-> Q(GenV[g][i]), w |-> R(GenW[g][i], WDen)]]
MCSampleSpace == IF SmpMode = "all" THEN UNION {[1..n -> QPairs] : n \in Ns}
                 ELSE {Generic(g, n) : g \in Gens, n \in Ns}
AllDone == \A r \in Ranks : Done(r)
XJ(x) == IF IsNum(x) THEN [k |-> "num", q |-> x[2]] ELSE [k |-> x[1], q |-> <<0, 1>>]
Emit == (Export /\ AllDone /\ (N >= 2 => Defined(smp))) =>
    PrintT(<<"VEC", ToJson([nr |-> nr, n |-> N,
                            v |-> [i \in 1..N |-> smp[i].v], w |-> [i \in 1..N |-> smp[i].w],
                            conf |-> conf, keys |-> Required \cup conf,
                            mean |-> IF N >= 1 /\ Defined(smp) THEN XJ(Num(WMean(smp))) ELSE XJ(NanVal),
                            var |-> IF N >= 2 THEN XJ(Num(TwoPassVar(PosSamples(smp)))) ELSE XJ(NanVal)])>>)
=============================================================================
