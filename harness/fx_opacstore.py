"""Storage classes of an opacity table (C04; spec/TableStorage.tla).

A storage class is a record exported by TLC: layout ('xsec' | 'ktable'), holder ('array': handed directly to an
InterpolatingOpacity / KTable subclass, 'pickle', 'hdf5_stream', 'hdf5_memory': the readers of the library built
directly on a file, 'cache_pickle', 'cache_hdf5': the object OpacityCache serves for a directory), order (memory order
of the logical axes, slowest first), dtype ('f8' | 'f4').  `build_store` turns one logical table (float64, cm^2) into
the opacity object of that class; nothing here computes an expected value.
"""
import os
import pickle

import numpy as np

from .core import Machinery
from .fixtures import GridOpacity, GridKTable

NP_DTYPE = {'f8': np.float64, 'f4': np.float32}


def as_order(logical, order):
    """A view with the logical shape of `logical` whose memory is a C-contiguous block of the axes in `order`
    (1-based logical axis numbers, slowest varying first): [1,2,3,4] is C order, [4,3,2,1] Fortran order,
    [1,2,4,3] a transposed view of a (P,T,g,wn) source."""
    perm = [a - 1 for a in order]
    if sorted(perm) != list(range(logical.ndim)):
        raise Machinery('storage order %r does not fit a %d-dimensional table' % (order, logical.ndim))
    src = np.ascontiguousarray(np.transpose(logical, perm))       # the source block, e.g. shaped (P,T,g,wn)
    inv = [perm.index(a) for a in range(logical.ndim)]
    view = np.transpose(src, inv)
    if view.shape != logical.shape or not np.array_equal(view, logical):
        raise Machinery('storage view does not reproduce the logical table')
    # memory order really is the requested one: strides decrease along `perm`
    st = [view.strides[a] for a in perm if view.shape[a] > 1]
    if any(st[i] < st[i + 1] for i in range(len(st) - 1)):
        raise Machinery('storage view has strides %r for order %r' % (view.strides, order))
    return view


class StoredOpacity(GridOpacity):
    """GridOpacity that keeps the array it is handed exactly as it is (strides and element type)."""

    def __init__(self, name, wn, temps, press, xsec, mode='linear'):
        super().__init__(name, wn, temps, press, np.zeros((len(press), len(temps), len(wn))), mode)
        self._x = xsec


class StoredKTable(GridKTable):
    def __init__(self, name, wn, temps, press, kcoeff, weights, mode='linear'):
        super().__init__(name, wn, temps, press, np.zeros((len(press), len(temps), len(wn), len(weights))), weights, mode)
        self._x = kcoeff


def stored_pressures(press_pa, factor):
    """Numbers s with s * factor == press_pa exactly in floating point (the pickle readers multiply the stored
    pressures by 1e5): the region dispatch of the property is exact, so the nodes must survive the container."""
    out = []
    for p in press_pa:
        s = p / factor
        for cand in (s, np.nextafter(s, 0.0), np.nextafter(s, np.inf), np.nextafter(np.nextafter(s, 0.0), 0.0),
                     np.nextafter(np.nextafter(s, np.inf), np.inf)):
            if float(cand) * factor == p:
                out.append(float(cand))
                break
        else:
            raise Machinery('no stored pressure reproduces %r under the factor %r' % (p, factor))
    return out


def build_store(store, directory, wn, temps, press_pa, table, weights, mode, route=None):
    """-> (opacity object, closer).  table: logical float64 array (P,T,wn) or (P,T,wn,g) in cm^2.
    route: for the cache holders, the steps (spec/ModeRoute.tla) through which `mode` reaches the served table;
    None = set_interpolation(mode) before the first load."""
    layout, holder, dtype = store['layout'], store['holder'], store['dtype']
    arr = as_order(np.asarray(table, dtype=np.float64).astype(NP_DTYPE[dtype]), store['order'])
    if arr.dtype != NP_DTYPE[dtype]:
        raise Machinery('element type lost')
    wn = np.asarray(wn, dtype=float)
    temps = np.asarray(temps, dtype=float)
    press_pa = [float(p) for p in press_pa]
    name = 'HVS'
    os.makedirs(directory, exist_ok=True)
    for f in os.listdir(directory):
        os.remove(os.path.join(directory, f))
    if holder == 'array':
        if layout == 'xsec':
            return StoredOpacity(name, wn, temps, press_pa, arr, mode), None
        return StoredKTable(name, wn, temps, press_pa, arr, weights, mode), None
    if holder in ('pickle', 'cache_pickle'):
        pbar = np.array(stored_pressures(press_pa, 1e5))
        if layout == 'xsec':
            d = dict(wno=wn, t=temps, p=pbar, xsecarr=arr, name=name)
        else:
            d = dict(bin_centers=wn, ngauss=len(weights), t=temps, p=pbar, kcoeff=arr, weights=np.asarray(weights, dtype=float), name=name)
        fn = os.path.join(directory, name + '.pickle')
        with open(fn, 'wb') as f:
            pickle.dump(d, f)
        if holder == 'pickle':
            if layout == 'xsec':
                from taurex.opacity.pickleopacity import PickleOpacity
                return PickleOpacity(fn, interpolation_mode=mode), None
            from taurex.opacity.ktables.picklektable import PickleKTable
            return PickleKTable(fn, interpolation_mode=mode), None
        return _from_cache(directory, name, mode, layout, route), None
    if holder == 'cache_exotransmit':
        # Exo-Transmit text table opac<mol>.dat: temperatures, pressures (bar), then per wavelength (m, ascending) the
        # wavelength and one line per pressure: pressure, cross-sections (m^2) per temperature; shortest round-trip decimals
        if layout != 'xsec' or not arr.flags['C_CONTIGUOUS']:
            raise Machinery('Exo-Transmit tables hold C-ordered cross-sections')
        pbar = stored_pressures(press_pa, 1e5)
        lines = [' '.join(repr(float(t)) for t in temps), ' '.join(repr(float(p)) for p in pbar)]
        for k in range(len(wn) - 1, -1, -1):
            lines.append(repr(float(0.01 / wn[k])))
            for ip in range(len(pbar)):
                lines.append(' '.join([repr(float(pbar[ip]))] + [repr(float(arr[ip, it, k]) / 1e4) for it in range(len(temps))]))
        with open(os.path.join(directory, 'opac%s.dat' % name), 'w') as f:
            f.write('\n'.join(lines) + '\n')
        return _from_cache(directory, name, mode, layout, route), None
    if holder in ('hdf5_stream', 'hdf5_memory', 'cache_hdf5'):
        import h5py
        if not arr.flags['C_CONTIGUOUS']:
            raise Machinery('HDF5 datasets are C-ordered')
        fn = os.path.join(directory, (name if layout == 'xsec' else name + '_R100') + '.h5')
        with h5py.File(fn, 'w') as f:
            f.create_dataset('t', data=temps)
            p = f.create_dataset('p', data=np.asarray(press_pa))
            p.attrs['units'] = 'Pa'
            if layout == 'xsec':
                f.create_dataset('bin_edges', data=wn)
                f.create_dataset('xsecarr', data=arr)
                f.create_dataset('mol_name', data=np.bytes_(name))
            else:
                f.create_dataset('bin_centers', data=wn)
                f.create_dataset('ngauss', data=len(weights))
                f.create_dataset('kcoeff', data=arr)
                f.create_dataset('weights', data=np.asarray(weights, dtype=float))
        with h5py.File(fn, 'r') as f:
            if f['xsecarr' if layout == 'xsec' else 'kcoeff'].dtype != NP_DTYPE[dtype]:
                raise Machinery('HDF5 dataset lost its element type')
        if holder == 'cache_hdf5':
            return _from_cache(directory, name, mode, layout, route), None
        mem = holder == 'hdf5_memory'
        if layout == 'xsec':
            from taurex.opacity.hdf5opacity import HDF5Opacity
            op = HDF5Opacity(fn, interpolation_mode=mode, in_memory=mem)
        else:
            from taurex.opacity.ktables.hdfktable import HDF5KTable
            op = HDF5KTable(fn, interpolation_mode=mode, in_memory=mem)

        def closer():
            try:
                op._spec_dict.close()
            except Exception:
                pass
        return op, closer
    raise Machinery('unknown holder %r' % holder)


def _from_cache(directory, name, mode, layout='xsec', route=None):
    """The object the cache of the layout (OpacityCache / KTableCache; readers found by discover()) serves for `name`
    after the steps of `route` were executed on a process in which no mode was ever set."""
    from taurex.cache import OpacityCache, GlobalCache
    from taurex.cache.ktablecache import KTableCache
    if route is None:
        route = [dict(op='set', m=mode), dict(op='load', m='')]
    if route[-1]['op'] != 'load':
        raise Machinery('a mode route ends in a load')
    GlobalCache()['xsec_interpolation'] = None
    OpacityCache().clear_cache()
    KTableCache().clear_cache()
    if layout == 'xsec':
        OpacityCache().set_opacity_path(directory)
        cache = OpacityCache()
    else:
        KTableCache().set_ktable_path(directory)
        cache = KTableCache()
    op = None
    for st in route:
        if st['op'] == 'set':
            OpacityCache().set_interpolation(st['m'])
        elif st['op'] == 'glob':
            GlobalCache()['xsec_interpolation'] = st['m']
            OpacityCache().clear_cache()
            KTableCache().clear_cache()
        elif st['op'] == 'load':
            op = cache[name]
            op.opacity(float(op.temperatureGrid[0]) + 1.0, float(op.pressureGrid[0]) * 2.0)      # the table is used
        else:
            raise Machinery('unknown route step %r' % (st,))
    return op
