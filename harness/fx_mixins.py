"""C15 support: composite '+' selectors with k >= 2 mixins (spec/FactoryMix.tla).

TauREx ships one mixin per component type, so a composite with two or more mixins needs plugin mixins --
exactly as in the documentation's example (inputfile.rst, "Mixins": doubler / add50).  This module

 * builds a *plugin module* with three non-commuting affine mixins per component kind (x -> m*x + a:
   `doubler` m=2, `add50` a=50, `tri7` m=3 a=7; each with one constructor keyword of its own) that is
   registered in the worker subprocess through the public plugin interface ClassFactory().load_plugin(module);
 * generates the constants of FactoryMix (mixin pool incl. the built-in mixins of the live registry, the
   affine operation table, the base selectors with keys that the base class accepts) into FactoryReg;
 * runs one exported composite configuration through ParameterParser and through the library
   (enhance_class on the specification's classes) and returns what was observed.
"""
import inspect
import os
import types

from . import fx_factory as FX

MIX_KINDS = dict(temperature='TemperatureMixin', pressure='PressureMixin', chemistry='ChemistryMixin', gas='GasMixin',
                 planet='PlanetMixin', star='StarMixin', model='ForwardModelMixin')
# keyword, class-name stem, multiplier key / default, addend key / default  (exact small rationals)
HARNESS_OPS = [('doubler', 'VerifDoubler', 'dbl_factor', (2, 1), '', (0, 1)),
               ('add50', 'VerifAdd50', '', (1, 1), 'add_offset', (50, 1)),
               ('tri7', 'VerifTri7', '', (3, 1), 'tri_shift', (7, 1))]
# what a built-in mixin does to the value chain (TempScaler.profile = super().profile * scale_factor); others: identity
BUILTIN_OPS = {'TempScaler': ('scale_factor', (1, 1), '', (0, 1))}
# built-in mixin x base class combinations that the mixin itself refuses (MakeFreeMixin: 'Class is already free-type')
INCOMPATIBLE = {('MakeFreeMixin', 'TaurexChemistry')}
# values a base needs in every file (no usable default)
FIXED = {('chemistry', 'ChemistryFile'): [('filename', dict(k='scalar', toks=['@P1'])), ('gases', dict(k='list', toks=['H2', 'He', 'H2O']))]}
PROBE_X = 1000.0

# ---- sub-sections (spec/FactoryMix.tla: subs).  name, selector, keys as written; only selectors that the
# documentation lists and the live registry resolves take part (choose_subs)
SUB_CHOICES = {'gas': [('N2', 'constant', [('mix_ratio', dict(k='scalar', toks=['1e-2']))]),
                       ('H2O', 'constant', [('mix_ratio', dict(k='scalar', toks=['1e-4']))]),
                       ('CH4', 'twolayer', [('mix_ratio_surface', dict(k='scalar', toks=['1e-2'])), ('mix_ratio_top', dict(k='scalar', toks=['1e-4'])),
                                            ('mix_ratio_P', dict(k='scalar', toks=['1e3']))])],
               'contribution': [('Absorption', 'Absorption', []), ('Rayleigh', 'Rayleigh', []),
                                ('SimpleClouds', 'SimpleClouds', [('clouds_pressure', dict(k='scalar', toks=['1e3']))]),
                                ('CIA', 'CIA', [('cia_pairs', dict(k='list', toks=['H2-He']))])]}
SUB_ADD_METHOD = dict(chemistry='addGas', model='add_contribution')
# custom python_file classes (custom.rst) through which sub-sections must reach the component as well.  Each file
# imports the class it derives from -- the class an input file resolves to is the one DEFINED in the file.
CUSTOM_BASES = [
    dict(kind='chemistry', tag='chemistry_free', name='VerifFreeChemistry', params=['fill_gases', 'ratio', 'extra_scale'], imports=['TaurexChemistry'],
         keys=[dict(name='extra_scale', typ='float')], adds=True, src='''
from taurex.chemistry import TaurexChemistry
class VerifFreeChemistry(TaurexChemistry):
    """A free chemistry of the user's own: inherits addGas."""
    def __init__(self, fill_gases=['H2', 'He'], ratio=0.17567, extra_scale=1.0):
        super().__init__(fill_gases=fill_gases, ratio=ratio)
        self._extra_scale = extra_scale
'''),
    dict(kind='chemistry', tag='chemistry_duck', name='VerifDuckChemistry', params=['base_gas', 'scale'], imports=['AutoChemistry'],
         keys=[dict(name='scale', typ='float')], adds=True, src='''
from taurex.data.profiles.chemistry.autochemistry import AutoChemistry
import numpy as np
class VerifDuckChemistry(AutoChemistry):
    """Not a TaurexChemistry: provides its own addGas (the documented way to accept gas sub-sections)."""
    def __init__(self, base_gas='H2', scale=1.0):
        super().__init__('VerifDuck')
        self._base = base_gas
        self._scale = scale
        self._added = []
        self._mix = None
        self.determine_active_inactive()
    def addGas(self, gas):
        self._added.append(gas)
        self.determine_active_inactive()
        return self
    @property
    def gases(self):
        return [self._base] + [g.molecule for g in self._added]
    def fitting_parameters(self):
        full = {}
        for g in self._added:
            full.update(g.fitting_parameters())
        full.update(self._param_dict)
        return full
    def initialize_chemistry(self, nlayers=100, temperature_profile=None, pressure_profile=None, altitude_profile=None):
        for g in self._added:
            g.initialize_profile(nlayers, temperature_profile, pressure_profile, altitude_profile)
        rest = np.ones(nlayers)
        for g in self._added:
            rest = rest - g.mixProfile
        self._mix = np.array([rest * self._scale] + [g.mixProfile for g in self._added])
        super().initialize_chemistry(nlayers, temperature_profile, pressure_profile, altitude_profile)
    @property
    def mixProfile(self):
        return self._mix
'''),
    dict(kind='model', tag='model_custom', name='VerifModel', params=['planet', 'star', 'pressure_profile', 'temperature_profile', 'chemistry', 'nlayers',
                                                                   'atm_min_pressure', 'atm_max_pressure', 'extra_scale'], imports=['TransmissionModel'],
         keys=[], adds=True, src='''
from taurex.model import TransmissionModel
class VerifModel(TransmissionModel):
    def __init__(self, planet=None, star=None, pressure_profile=None, temperature_profile=None, chemistry=None,
                 nlayers=100, atm_min_pressure=1e-4, atm_max_pressure=1e6, extra_scale=1.0):
        super().__init__(planet=planet, star=star, pressure_profile=pressure_profile, temperature_profile=temperature_profile,
                         chemistry=chemistry, nlayers=nlayers, atm_min_pressure=atm_min_pressure, atm_max_pressure=atm_max_pressure)
        self._extra_scale = extra_scale
''')]


def write_custom_files(tmp):
    out = {}
    for c in CUSTOM_BASES:
        f = os.path.join(tmp, 'custom_%s.py' % c['tag'])
        with open(f, 'w') as fh:
            fh.write(c['src'])
        out[c['tag']] = f
    return out


def load_custom_class(tag, files):
    """The class a custom file defines, by name (independent of the factory's own search)."""
    import importlib.util
    c = [x for x in CUSTOM_BASES if x['tag'] == tag][0]
    spec = importlib.util.spec_from_file_location('verif_custom_' + tag, files[tag])
    mod = importlib.util.module_from_spec(spec)
    spec.loader.exec_module(mod)
    return getattr(mod, c['name'])


def choose_subs(reg, entries, quick=False):
    """The sub-sections in play: documented selectors with exactly one candidate class whose keys it accepts."""
    out = []
    for subkind, rows in SUB_CHOICES.items():
        for name, sel, given in rows:
            if quick and name == 'Rayleigh':        # (like Absorption: no keys)
                continue
            look = sel.lower() if subkind == 'gas' else sel
            cs = [c for c in reg if c['kind'] == subkind and look in c['kw']]
            documented = any(e['kind'] == subkind and e['status'] == 'builtin' and sel in e['sels'] for e in entries)
            if len(cs) == 1 and documented and all(k in cs[0]['params'] for k, _ in given):
                out.append(dict(kind=subkind, name=name, sel=sel, given=given))
    return out


def sub_adders(reg, mix):
    """Names of the classes (base, mixin, custom) that provide the adding method of their section."""
    from taurex.parameter.classfactory import ClassFactory
    cf = ClassFactory()
    out = set()
    for kind, meth in SUB_ADD_METHOD.items():
        for k in list(getattr(cf, FX.KIND_ATTR[kind])) + list(getattr(cf, FX.MIXIN_ATTR[kind])):
            if callable(getattr(k, meth, None)):
                out.add(k.__name__)
    out.update(c['name'] for c in CUSTOM_BASES if c['adds'])
    return sorted(out)

_SRC = '''
class {cls}({base}):
    def __init_mixin__(self{sig}):
        self._verif_m_{tag} = {mexpr}
        self._verif_a_{tag} = {aexpr}

    def verif_apply(self, x):
        nxt = getattr(super(), 'verif_apply', None)
        x = nxt(x) if nxt is not None else x
        return x * self._verif_m_{tag} + self._verif_a_{tag}
{profile}
    @classmethod
    def input_keywords(cls):
        return ['{kw}', ]
'''
_PROFILE = '''
    @property
    def profile(self):
        return super().profile * self._verif_m_{tag} + self._verif_a_{tag}
'''


def harness_mixins():
    """[dict(kind, name, kw, params, mulkey, m0, addkey, a0)] -- the declaration; the classes are built from it."""
    out = []
    for kind in MIX_KINDS:
        for kw, stem, mk, m0, ak, a0 in HARNESS_OPS:
            out.append(dict(kind=kind, name='%s%s' % (stem, kind.capitalize()), kw=[kw], params=[k for k in (mk, ak) if k],
                            varkw=False, mulkey=mk, m0=m0, addkey=ak, a0=a0, module='verif_mixins'))
    return out


def plugin_module():
    """A module object holding the harness mixins, to be handed to ClassFactory().load_plugin()."""
    import taurex.mixin as M
    mod = types.ModuleType('verif_mixins')
    for h in harness_mixins():
        tag = h['kw'][0]
        sig = ''.join(', %s=%r' % (k, float(d[0]) / d[1]) for k, d in ((h['mulkey'], h['m0']), (h['addkey'], h['a0'])) if k)
        ns = {MIX_KINDS[h['kind']]: getattr(M, MIX_KINDS[h['kind']])}
        src = _SRC.format(cls=h['name'], base=MIX_KINDS[h['kind']], sig=sig, tag=tag,
                          mexpr=h['mulkey'] or repr(float(h['m0'][0]) / h['m0'][1]),
                          aexpr=h['addkey'] or repr(float(h['a0'][0]) / h['a0'][1]),
                          profile=_PROFILE.format(tag=tag) if h['kind'] == 'temperature' else '', kw=tag)
        exec(src, ns)
        k = ns[h['name']]
        k.__module__ = 'verif_mixins'
        setattr(mod, h['name'], k)
    return mod


# ------------------------------------------------------------------------------------------ constants of FactoryMix
def _rat(p):
    return '<<%d, %d>>' % (p[0], p[1])


def _raw_tla(raw):
    return '[k |-> %s, toks |-> <<%s>>]' % (FX.tla_str(raw['k']), ', '.join(FX.tla_str(t) for t in raw['toks']))


def choose_bases(reg, entries, rot=0, per_kind=2):
    """Base selectors per kind: documented built-in selectors with exactly one candidate class whose class builds
    from (fixed +) default values, with up to two documented float keys that the class accepts for both values of
    RawChoices.  `rot` rotates the choice (VERIF_SEED), per_kind bounds it (None = all)."""
    from taurex.parameter.classfactory import ClassFactory
    import tempfile
    import shutil
    cf = ClassFactory()
    classes = {k.__name__: k for kind in MIX_KINDS for k in getattr(cf, FX.KIND_ATTR[kind])}
    tmp = tempfile.mkdtemp(prefix='c15mixb_')
    out = []
    try:
        paths = FX.prepare_files(tmp)
        for kind in MIX_KINDS:
            cands = [(e, s) for e in entries if e['kind'] == kind and e['status'] == 'builtin' and e['by'] == 'value' for s in sorted(e['sels'])]
            good = []
            by_cls = {}
            for e, s in cands:
                cs = [c for c in reg if c['kind'] == kind and s.lower() in c['kw']]
                if len(cs) != 1 or cs[0]['name'] not in classes or cs[0]['varkw']:
                    continue
                g = by_cls.setdefault(cs[0]['name'], dict(sel=s, c=cs[0], keys=[]))
                g['keys'] += [kk for kk in e['keys'] if kk['name'] not in [x['name'] for x in g['keys']]]
            for cname, g in by_cls.items():
                c, s = g['c'], g['sel']
                k = classes[cname]
                fixed = FIXED.get((kind, cname), [])
                base_kw = {n: FX.typed_py(_transform(r), kind, n, paths) for n, r in fixed}
                if kind == 'gas':
                    base_kw['molecule_name'] = 'H2O'
                if kind != 'model':     # a model needs its components: it is built from the file only
                    try:
                        k(**base_kw)
                    except BaseException:
                        continue
                keys = []
                for kk in g['keys']:
                    if kk['typ'] != 'float' or kk['name'] not in c['params'] or kk['name'] in FX.PATH_KEYS or len(keys) >= 2:
                        continue
                    if kk['name'] in [n for n, _ in fixed]:
                        continue
                    if kind != 'model':
                        try:
                            for val in (0.25, 1250.0):
                                k(**dict(base_kw, **{kk['name']: val}))
                        except BaseException:
                            continue
                    keys.append(kk)
                good.append(dict(kind=kind, sel=s, cls=cname, keys=keys, fixed=fixed, custom=''))
            if good:
                r = rot % len(good)
                good = good[r:] + good[:r]
            out += good if per_kind is None else good[:per_kind]
        for c in CUSTOM_BASES:
            out.append(dict(kind=c['kind'], sel='custom', cls=c['name'], keys=c['keys'], custom=c['tag'],
                            fixed=[('python_file', dict(k='scalar', toks=['@C:' + c['tag']]))]))
    finally:
        shutil.rmtree(tmp, ignore_errors=True)
    return out


def _transform(raw):
    """ParameterParser typing of the few fixed raws (strings / string lists only)."""
    if raw['k'] == 'list':
        return dict(t='strlist', v=list(raw['toks']))
    return dict(t='str', v=raw['toks'][0])


def gen_mix_constants(mix, bases, subs=None, adders=None):
    """TLA+ definitions appended to FactoryReg: HarnessMixins, MixOpTab, MixBases, MixIncompat, SubChoices, SubAdders, CustomBases."""
    L = []
    if subs is None or adders is None:
        from . import fx_docs
        reg, mixreg = FX.live_registry()
        ents = FX.doc_entries(fx_docs.load(), reg)
        subs = choose_subs(reg, ents) if subs is None else subs
        adders = sub_adders(reg, mixreg) if adders is None else adders
    hm = harness_mixins()

    def klass(c):
        return '[kind |-> %s, name |-> %s, kw |-> %s, params |-> %s, varkw |-> FALSE]' % (
            FX.tla_str(c['kind']), FX.tla_str(c['name']), FX.tla_set(FX.tla_str(k) for k in c['kw']),
            FX.tla_set(FX.tla_str(p) for p in c['params']))
    L.append('\\* plugin mixins registered by the harness through ClassFactory().load_plugin (harness/fx_mixins.py)')
    L.append('HarnessMixins == {\n  ' + ',\n  '.join(klass(c) for c in hm) + '}')
    def op(name, mk, m0, ak, a0):
        return '(%s :> [mulkey |-> %s, m0 |-> %s, addkey |-> %s, a0 |-> %s])' % (FX.tla_str(name), FX.tla_str(mk), _rat(m0), FX.tla_str(ak), _rat(a0))
    ops = [op(c['name'], c['mulkey'], c['m0'], c['addkey'], c['a0']) for c in hm]
    L.append('\\* chain of the probe method defined by the plugin mixins: built-in mixins do not take part (identity)')
    L.append('MixOpTab == ' + ' @@ '.join(ops + [op(c['name'], '', (1, 1), '', (0, 1)) for c in mix]))
    L.append('\\* chain of the temperature profile property: the built-in TempScaler multiplies by scale_factor')
    L.append('MixProfTab == ' + ' @@ '.join(ops + [op(c['name'], *BUILTIN_OPS.get(c['name'], ('', (1, 1), '', (0, 1)))) for c in mix]))
    rows = []
    for b in bases:
        rows.append('[kind |-> %s, sel |-> %s, cls |-> %s, custom |-> %s, keys |-> %s, fixed |-> %s]' % (
            FX.tla_str(b['kind']), FX.tla_str(b['sel']), FX.tla_str(b['cls']), FX.tla_str(b.get('custom', '')),
            FX.tla_set('[name |-> %s, typ |-> %s]' % (FX.tla_str(k['name']), FX.tla_str(k['typ'])) for k in b['keys']),
            FX.tla_set('[name |-> %s, raw |-> %s]' % (FX.tla_str(n), _raw_tla(r)) for n, r in b['fixed'])))
    L.append('MixBases == {\n  ' + ',\n  '.join(rows) + '}')
    L.append('MixIncompat == ' + FX.tla_set('<<%s, %s>>' % (FX.tla_str(a), FX.tla_str(b)) for a, b in sorted(INCOMPATIBLE)))
    L.append('\\* sub-sections in play (documented selectors with one candidate class), classes providing addGas / add_contribution, custom files')
    L.append('SubChoices == ' + FX.tla_set('[kind |-> %s, name |-> %s, sel |-> %s, given |-> %s]' % (
        FX.tla_str(x['kind']), FX.tla_str(x['name']), FX.tla_str(x['sel']),
        FX.tla_set('[name |-> %s, raw |-> %s]' % (FX.tla_str(n), _raw_tla(r)) for n, r in x['given'])) for x in subs))
    L.append('SubAdders == ' + FX.tla_set(FX.tla_str(a) for a in adders))
    L.append('CustomBases == ' + FX.tla_set('[kind |-> %s, name |-> %s, file |-> %s, params |-> %s, imports |-> %s]' % (
        FX.tla_str(c['kind']), FX.tla_str(c['name']), FX.tla_str(c['tag']), FX.tla_set(FX.tla_str(p) for p in c['params']),
        FX.tla_set(FX.tla_str(p) for p in c['imports'])) for c in CUSTOM_BASES))
    return L


# ------------------------------------------------------------------------------------------ worker side
_MIXREC = []


def wrap_init_mixin(cls):
    """Signature-preserving recorder around cls.__init_mixin__ (mixed_init / determine_mixin_args introspect it)."""
    own = cls.__dict__.get('__init_mixin__')
    if own is None or getattr(own, '_verif_wrapped', False):
        return
    sig = inspect.signature(own)
    ps = list(sig.parameters.values())
    if any(p.kind in (p.VAR_POSITIONAL, p.VAR_KEYWORD, p.POSITIONAL_ONLY) for p in ps):
        return
    ns = {'_orig': own, '_rec': _MIXREC, '_cls': cls}
    decl, call, names = ['self'], ['self'], []
    for i, p in enumerate(ps[1:]):
        if p.default is inspect._empty:
            decl.append(p.name)
        else:
            ns['_d%d' % i] = p.default
            decl.append('%s=_d%d' % (p.name, i))
        call.append('%s=%s' % (p.name, p.name))
        names.append(p.name)
    src = ('def __init_mixin__(%s):\n'
           '    _rec.append((_cls.__name__, {%s}, id(self)))\n'
           '    return _orig(%s)\n') % (', '.join(decl), ', '.join('%r: %s' % (n, n) for n in names), ', '.join(call))
    exec(src, ns)
    fn = ns['__init_mixin__']
    fn._verif_wrapped = True
    cls.__init_mixin__ = fn


def register(cf):
    """Load the plugin module through the public interface and return {name: class} of every mixin."""
    cf.load_plugin(plugin_module())
    out = {}
    for kind in MIX_KINDS:
        for k in getattr(cf, FX.MIXIN_ATTR[kind]):
            out[k.__name__] = k
    missing = [h['name'] for h in harness_mixins() if h['name'] not in out]
    if missing:
        raise RuntimeError('harness mixins not discovered by ClassFactory.load_plugin: %s' % missing)
    for k in out.values():
        wrap_init_mixin(k)
    return out


def mix_par_text(vec, paths):
    v = dict(vec, written='+'.join(vec['toks']), given=vec['given'], unknownkey=vec['variant'] == 'unknownkey')
    text = FX.par_text(v, paths)
    # sub-sections of the section under test (it is the last one of the file): [[name]] + selector + keys, as documented
    for sub in vec.get('subs') or []:
        text += '    [[%s]]\n' % (sub['sel'] if vec['kind'] == 'model' else sub['name'])
        if vec['kind'] == 'chemistry':
            text += '    gas_type = %s\n' % sub['sel']
        g = sub['given'] if isinstance(sub['given'], dict) else {}
        for k in sorted(g):
            text += '    %s = %s\n' % (k, FX.raw_text(g[k], 'gas' if vec['kind'] == 'chemistry' else 'contribution', k, paths))
        if sub.get('unknownkey'):
            text += '    not_a_key = 1\n'
    return text


GRAPH_NL = 11           # rows of the chemistry file @P1


def section_graph(obj, kind):
    """What the sub-sections built, as far as the public interface of the component shows it."""
    import numpy as np
    g = {}
    if kind == 'chemistry':
        from taurex.data.profiles.chemistry.gas.gas import Gas
        held = []
        for v in vars(obj).values():
            for x in (v if isinstance(v, (list, tuple)) else []):
                if isinstance(x, Gas) and not any(x is h for h in held):
                    held.append(x)
        g['held'] = [[type(x).__name__, x.molecule] for x in held]
        try:
            obj.initialize_chemistry(nlayers=GRAPH_NL, temperature_profile=np.linspace(1500.0, 800.0, GRAPH_NL),
                                     pressure_profile=np.logspace(6, 0, GRAPH_NL))
            lst = lambda a: None if a is None else np.asarray(a, dtype=float).tolist()
            g.update(gases=list(obj.gases), active=list(obj.activeGases), inactive=list(obj.inactiveGases),
                     fit={k: FX.snapshot(v[2]()) for k, v in sorted(obj.fitting_parameters().items())},
                     active_mix=lst(obj.activeGasMixProfile), inactive_mix=lst(obj.inactiveGasMixProfile), mu=lst(obj.muProfile))
        except BaseException as ex:
            g['init_err'] = '%s: %s' % (type(ex).__name__, str(ex)[:120])
    elif kind == 'model':
        g['contribs'] = [[type(c).__name__, FX.snapshot(c)] for c in obj.contribution_list]
    return g


def _sub_objects(vec, classes, paths):
    """The objects of the sub-sections built through the library from the specification's classes and typed values."""
    out = []
    subkind = 'gas' if vec['kind'] == 'chemistry' else 'contribution'
    for b in vec.get('builtsubs') or []:
        kw = {k: FX.typed_py(tv, subkind, k, paths) for k, tv in (b['kwargs'] if isinstance(b['kwargs'], dict) else {}).items()}
        if subkind == 'gas':
            kw['molecule_name'] = b['name']
        out.append(classes[b['cls']](**kw))
    return out


def _effect(obj, kind):
    """Observable effect of the method chain: verif_apply at two points and, for temperatures, the profile."""
    import numpy as np
    eff = {}
    if hasattr(obj, 'verif_apply'):
        eff['apply'] = [float(obj.verif_apply(PROBE_X)), float(obj.verif_apply(0.0))]
    if kind == 'temperature':
        try:
            obj.initialize_profile(planet=None, nlayers=5, pressure_profile=np.logspace(6, 0, 5))
            eff['profile'] = [float(x) for x in np.asarray(obj.profile, dtype=float)]
        except BaseException as ex:
            eff['profile_err'] = '%s: %s' % (type(ex).__name__, str(ex)[:120])
    return eff


def _build_from_file(vec, paths, tmp, n):
    from taurex.parameter import ParameterParser
    kind = vec['kind']
    path = os.path.join(tmp, 'm%d.par' % n)
    with open(path, 'w') as f:
        f.write(mix_par_text(vec, paths))
    try:
        pp = ParameterParser()
        pp.read(path)
        if kind in ('gas', 'chemistry'):
            obj = pp.generate_chemistry_profile()
            if kind == 'gas':
                obj = obj._gases[0] if getattr(obj, '_gases', None) else None
        elif kind == 'temperature':
            obj = pp.generate_temperature_profile()
        elif kind == 'pressure':
            obj = pp.generate_pressure_profile()
        elif kind == 'planet':
            obj = pp.generate_planet()
        elif kind == 'star':
            obj = pp.generate_star()
        elif kind == 'model':
            obj = pp.generate_model()
        else:
            raise RuntimeError('kind ' + kind)
        return obj
    finally:
        os.unlink(path)


def run_mix_vector(vec, paths, tmp, n, classes, mixins):
    """File side and library side of one exported composite configuration."""
    kind = vec['kind']
    res = dict(n=n)
    del FX._REC[:]
    del _MIXREC[:]
    try:
        obj = _build_from_file(vec, paths, tmp, n)
        res['err'] = 'none'
        res['cls'] = type(obj).__name__
        res['bases'] = [b.__name__ for b in type(obj).__bases__]
        res['mro'] = [b.__name__ for b in type(obj).__mro__]
        oid = id(obj)
        res['inits'] = [[c, {k: FX.jsonable(v) for k, v in kw.items()}] for c, kw, i in _MIXREC if i == oid]
        res['baserec'] = [[c, {k: FX.jsonable(v) for k, v in kw.items()}] for c, kw, t, i in FX._REC if i == oid and c == vec.get('basecls')][:1]
        res['effect'] = _effect(obj, kind)
        if vec.get('subs'):
            subnames = {b['cls'] for b in (vec.get('builtsubs') or [])}
            res['subrec'] = [[c, {k: FX.jsonable(v) for k, v in kw.items()}] for c, kw, t, i in FX._REC if c in subnames]
            res['graph'] = section_graph(obj, kind)
    except BaseException as ex:
        res['err'] = type(ex).__name__
        res['msg'] = str(ex)[:200]
    # library side: enhance_class on the specification's classes, in the specification's order
    res['lib'] = None
    has_subs = bool(vec.get('subs'))
    if vec.get('err') == 'none' and (kind != 'model' or has_subs):
        from taurex.mixin import enhance_class
        try:
            kw = {}
            for owner, d in (vec.get('kwargs') or {}).items():
                for k, tv in (d if isinstance(d, dict) else {}).items():
                    kw[k] = FX.typed_py(tv, kind, k, paths)
            if kind == 'gas':
                kw['molecule_name'] = 'H2O'
            if kind == 'model':     # the other sections of the same file are not under test here: the parser builds them
                from taurex.parameter import ParameterParser
                path = os.path.join(tmp, 'ml%d.par' % n)
                with open(path, 'w') as f:
                    f.write(mix_par_text(vec, paths))
                pp = ParameterParser()
                pp.read(path)
                os.unlink(path)
                kw.update(planet=pp.generate_planet(), star=pp.generate_star(), chemistry=pp.generate_chemistry_profile(),
                          temperature_profile=pp.generate_temperature_profile(), pressure_profile=pp.generate_pressure_profile())
            ms = [mixins[m] for m in vec['bases'][:-1]]
            base = load_custom_class(vec['custom'], paths['custom_files']) if vec.get('custom') else classes[vec['bases'][-1]]
            del _MIXREC[:]
            lib = enhance_class(base, ms, **kw) if ms else base(**kw)
            res['lib'] = dict(err='none', bases=[b.__name__ for b in type(lib).__bases__], mro=[b.__name__ for b in type(lib).__mro__],
                              inits=[c for c, _, i in _MIXREC if i == id(lib)], effect=_effect(lib, kind))
            if has_subs:
                for o in _sub_objects(vec, classes, paths):
                    getattr(lib, SUB_ADD_METHOD[kind])(o)
                res['lib']['graph'] = section_graph(lib, kind)
            # the plain base object, built without any factory: reference value of the chain
            if kind != 'model' and not vec.get('custom'):
                bkw = {k: v for k, v in kw.items() if k in inspect.signature(classes[vec['bases'][-1]].__init__).parameters}
                res['base_effect'] = _effect(classes[vec['bases'][-1]](**bkw), kind)
        except BaseException as ex:
            res['lib'] = dict(err=type(ex).__name__, msg=str(ex)[:200])
    return res
