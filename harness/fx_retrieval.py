"""Fixtures for the retrieval properties C06 / C09 (no file of /repo is touched).

 * load_optimizers(): puts the recording doubles of pymultinest / pypolychord on sys.path
   *before* taurex.optimizer is imported (its __init__ try-imports the wrappers)
 * ToyModel: an exact linear ForwardModel  native_k = SUM_p Coef[p][k] * v[p]  with the invalid-model
   rules of spec/MC_Likelihood.tla and a fault-injecting switch
 * WnSpectrum: an observation given directly in wavenumber (real BaseSpectrum -> real FluxBinner)
 * transmission_setup(): a small real TransmissionModel over fixture opacities + ArraySpectrum
 * FakeNestleResult, nestle patching helpers
"""
import math
import os
import sys

import numpy as np

from .core import Machinery

DOUBLES = os.path.join(os.path.dirname(os.path.abspath(__file__)), 'doubles')


def silence():
    """taurex logs invalid models at ERROR level; keep the check output clean (fit() re-enables logging
    at the last set level)."""
    from taurex.log import setLogLevel
    setLogLevel(60)


def _load_double(name):
    """Register one double package in sys.modules without putting harness/doubles on sys.path
    (that directory also holds an mpi4py double which must stay invisible here: taurex.mpi would use it)."""
    import importlib.util
    if name in sys.modules:
        return sys.modules[name]
    path = os.path.join(DOUBLES, name)
    spec = importlib.util.spec_from_file_location(name, os.path.join(path, '__init__.py'),
                                                  submodule_search_locations=[path])
    mod = importlib.util.module_from_spec(spec)
    sys.modules[name] = mod
    spec.loader.exec_module(mod)
    return mod


def load_optimizers():
    silence()
    pymultinest = _load_double('pymultinest')
    pypolychord = _load_double('pypolychord')
    if not pymultinest.__file__.startswith(DOUBLES) or not pypolychord.__file__.startswith(DOUBLES):
        raise Machinery('expected the recording doubles of pymultinest/pypolychord, found real packages')
    import taurex.optimizer as O
    for n in ('NestleOptimizer', 'MultiNestOptimizer', 'PolyChordOptimizer'):
        if not hasattr(O, n):
            raise Machinery('taurex.optimizer was imported before the doubles were registered (%s missing)' % n)
    return O.NestleOptimizer, O.MultiNestOptimizer, O.PolyChordOptimizer


class Captured(Exception):
    """Raised by the sampler doubles' hooks once the callbacks are in hand."""


# ----------------------------------------------------------------------------------------------
# toy model (binding C of C06): same world as spec/MC_Likelihood.tla
# ----------------------------------------------------------------------------------------------

TOY = {
    'two': dict(names=['a', 'b', 'c'], fit=[True, True, False], mode=['linear', 'log', 'linear'],
                lo=[0, 0, 0], hi=[8, 2, 0], val0=[1, 1, 6],
                coef=[[1, 2, 3, 4], [1, 0, 0, 1], [1, 1, 0, 0]], data=[14, 12], sig=[2, 3]),
    'three': dict(names=['a', 'b', 'c', 'd'], fit=[True, True, False, True],
                  mode=['linear', 'log', 'linear', 'linear'],
                  lo=[0, 0, 0, 4], hi=[8, 2, 0, 1], val0=[1, 1, 6, 3],
                  coef=[[1, 2, 3, 4], [1, 0, 0, 1], [1, 1, 0, 0], [0, 1, 2, 0]], data=[15, 14], sig=[2, 3]),
}
TOY_NATIVE_WN = np.array([100.0, 110.0, 120.0, 130.0])      # uniform: native widths 10
TOY_BIN_WN = np.array([105.0, 125.0])                          # bins [95,115], [115,135]
TOY_BIN_WIDTH = np.array([20.0, 20.0])
TOY_CHEM_LIMIT = 50


def _toy_model_class():
    from taurex.model import ForwardModel
    from taurex.exceptions import InvalidModelException
    from taurex.data.profiles.chemistry.taurexchemistry import InvalidChemistryException
    from taurex.data.profiles.temperature.npoint import InvalidTemperatureException
    classes = dict(InvalidModel=InvalidModelException, InvalidChemistry=InvalidChemistryException,
                   InvalidTemperature=InvalidTemperatureException)

    class ToyModel(ForwardModel):
        def __init__(self, layout):
            super().__init__('ToyModel')
            w = TOY[layout]
            self.world = w
            self.values = [float(v) for v in w['val0']]
            self.coef = np.array(w['coef'], dtype=float)
            self.inject = None           # exception class name raised by the next model() call
            self.model_calls = 0
            for i, name in enumerate(w['names']):
                def fget(i=i):
                    return self.values[i]

                def fset(value, i=i):
                    self.values[i] = value
                # default bounds are linear-space bounds (the optimizer takes log10 for 'log' mode)
                lo, hi = w['lo'][i], w['hi'][i]
                b = (10.0 ** lo, 10.0 ** hi) if w['mode'][i] == 'log' else (float(lo), float(hi))
                self._fitting_parameters[name] = (name, name, fget, fset, w['mode'][i], False, b)

        def build(self):
            pass

        def initialize_profiles(self):
            pass

        def model(self, wngrid=None, cutoff_grid=True):
            self.model_calls += 1
            if self.inject is not None:
                k, self.inject = self.inject, None
                raise classes[k]('injected fault')
            v = self.values
            if v[0] + v[1] > TOY_CHEM_LIMIT:
                raise InvalidChemistryException
            if v[0] >= v[2]:
                raise InvalidTemperatureException
            native = np.array(v, dtype=float) @ self.coef
            return TOY_NATIVE_WN.copy(), native, None, None

    return ToyModel


def make_toy(layout):
    return _toy_model_class()(layout)


def _wn_spectrum_class():
    from taurex.spectrum import BaseSpectrum

    class WnSpectrum(BaseSpectrum):
        """Observation given in wavenumber: centres, full widths, values, error bars.
        create_binner() is inherited: the real FluxBinner over (wavenumberGrid, binWidths)."""

        def __init__(self, wn, width, data, err):
            super().__init__('WnSpectrum')
            self._wn = np.asarray(wn, dtype=float)
            self._w = np.asarray(width, dtype=float)
            self._d = np.asarray(data, dtype=float)
            self._e = np.asarray(err, dtype=float)

        spectrum = property(lambda s: s._d)
        wavenumberGrid = property(lambda s: s._wn)
        wavelengthGrid = property(lambda s: 10000 / s._wn)
        binWidths = property(lambda s: s._w)
        binEdges = property(lambda s: np.stack([s._wn - s._w / 2, s._wn + s._w / 2], axis=1).ravel())
        errorBar = property(lambda s: s._e)
        rawData = property(lambda s: np.stack([s._wn, s._d, s._e, s._w], axis=1))

    return WnSpectrum


def make_toy_obs(layout):
    w = TOY[layout]
    return _wn_spectrum_class()(TOY_BIN_WN, TOY_BIN_WIDTH, w['data'], w['sig'])


def make_wn_obs(wn, width, data, err):
    return _wn_spectrum_class()(wn, width, data, err)


# ----------------------------------------------------------------------------------------------
# a small real transmission model
# ----------------------------------------------------------------------------------------------

NATIVE_WN = np.linspace(1000.0, 2000.0, 41)


def register_opacities():
    from taurex.cache import OpacityCache
    from .fixtures import GridOpacity
    OpacityCache().clear_cache()
    T = [200.0, 1000.0, 3000.0]
    P = [1e-2, 1e2, 1e6]
    shape1 = 1.0 + np.sin(NATIVE_WN / 100.0) ** 2 + NATIVE_WN / 2000.0
    shape2 = 1.0 + np.cos(NATIVE_WN / 70.0) ** 2
    tfac = np.array([0.7, 1.0, 1.6])[None, :, None]
    x1 = np.ones((3, 3, 41)) * 3e-22 * shape1[None, None, :] * tfac
    x2 = np.ones((3, 3, 41)) * 2e-22 * shape2[None, None, :] * tfac
    OpacityCache().add_opacity(GridOpacity('H2O', NATIVE_WN, T, P, x1))
    OpacityCache().add_opacity(GridOpacity('CH4', NATIVE_WN, T, P, x2))


def make_transmission(temperature='isothermal', nlayers=8):
    """A fresh TransmissionModel (H2O + CH4 constant gases in H2/He) over the fixture opacities."""
    from taurex.model import TransmissionModel
    from taurex.chemistry import TaurexChemistry, ConstantGas
    from taurex.temperature import Isothermal, NPoint
    from taurex.planet import Planet
    from taurex.stellar import BlackbodyStar
    from taurex.contributions import AbsorptionContribution
    chem = TaurexChemistry(fill_gases=['H2', 'He'], ratio=0.17)
    chem.addGas(ConstantGas('H2O', 1e-4))
    chem.addGas(ConstantGas('CH4', 1e-5))
    if temperature == 'isothermal':
        tp = Isothermal(1000.0)
    else:
        tp = NPoint(T_surface=1400.0, T_top=800.0, P_surface=1e6, P_top=1e-1,
                    temperature_points=[1100.0], pressure_points=[1e3], smoothing_window=1)
    tm = TransmissionModel(planet=Planet(planet_mass=1.0, planet_radius=1.0), star=BlackbodyStar(5000.0, 1.0),
                           chemistry=chem, temperature_profile=tp, nlayers=nlayers,
                           atm_min_pressure=1e-1, atm_max_pressure=1e6)
    tm.add_contribution(AbsorptionContribution())
    tm.build()
    return tm


def make_array_obs(centres, widths_wn, data, err):
    """Real ArraySpectrum: columns wavelength(um), data, error, wavelength width."""
    from taurex.data.spectrum.array import ArraySpectrum
    centres = np.asarray(centres, dtype=float)
    widths_wn = np.asarray(widths_wn, dtype=float)
    lo = centres - widths_wn / 2
    hi = centres + widths_wn / 2
    wl = 10000.0 / centres
    wlw = 10000.0 / lo - 10000.0 / hi
    arr = np.stack([wl, np.asarray(data, dtype=float), np.asarray(err, dtype=float), wlw], axis=1)
    return ArraySpectrum(arr)


# ----------------------------------------------------------------------------------------------
# nestle double
# ----------------------------------------------------------------------------------------------

class FakeNestleResult(object):
    def __init__(self, samples, weights, logz=-12.5, logzerr=0.25, h=1.5):
        self.samples = np.array(samples, dtype=float)
        self.weights = np.array(weights, dtype=float)
        self.logz = logz
        self.logzerr = logzerr
        self.h = h
        self.niter = len(self.samples)
        self.ncall = len(self.samples)

    def summary(self):
        return 'recording double of nestle.sample: %d samples' % len(self.samples)


class NestlePatch(object):
    """Context manager replacing taurex.optimizer.nestle.nestle.sample by hook(loglike, prior, ndim, **kw)."""

    def __init__(self, hook):
        self.hook = hook

    def __enter__(self):
        import taurex.optimizer.nestle as tn
        self.mod = tn.nestle
        self.orig = self.mod.sample
        self.mod.sample = self.hook
        return self

    def __exit__(self, *a):
        self.mod.sample = self.orig
        return False


class quiet_stdout(object):
    """compute_fit() prints the sampler summary; keep the check output clean."""

    def __enter__(self):
        self._o = sys.stdout
        sys.stdout = open(os.devnull, 'w')

    def __exit__(self, *a):
        sys.stdout.close()
        sys.stdout = self._o
        return False


def gauss_const(err):
    """-sum(log(sigma*sqrt(2 pi))) in plain Python."""
    return -math.fsum(math.log(float(s) * math.sqrt(2.0 * math.pi)) for s in err)
