"""File writers for every opacity / CIA / k-table container TauREx reads (C14).

Each writer takes the *physical* table (SI pressures in Pa, cross-sections in cm^2 as the
in-memory InterpolatingOpacity fixtures do, CIA in SI) plus the unit tags the container
declares, and stores the numbers the container's convention asks for.  The unit factors are
passed in by the driver, which takes them from the TLA+ specification (OpacityCache.tla:
PressureFactor / XsecFactor), not from astropy or from the readers.
"""
import os
import pickle
from fractions import Fraction

import numpy as np


def _f(x):
    return float(Fraction(x[0], x[1])) if isinstance(x, (list, tuple)) else float(x)


# ------------------------------------------------------------------ cross-sections

def write_pickle_opacity(directory, stem, wn, temps, press_pa, xsec_cm2, bar_factor=(100000, 1)):
    """<stem>.pickle ; molecule name = sanitised first '.'-separated part of the stem;
    pressures stored in bar; xsecarr[P, T, wn] in cm^2."""
    d = dict(wno=np.asarray(wn, dtype=float), t=np.asarray(temps, dtype=float),
             p=np.asarray(press_pa, dtype=float) / _f(bar_factor),
             xsecarr=np.asarray(xsec_cm2, dtype=float), name=stem)
    fn = os.path.join(directory, stem + '.pickle')
    with open(fn, 'wb') as f:
        pickle.dump(d, f)
    return fn


def _units_attr(unit, unit_as):
    """The 'units' attribute as h5py stores a Python str (variable-length UTF-8) or a bytes object (fixed ASCII)."""
    return np.bytes_(unit) if unit_as == 'bytes' else unit


def write_hdf5_opacity(directory, stem, mol_name, wn, temps, press_pa, xsec_cm2, unit='bar', unit_factor=(100000, 1),
                       ext='.h5', name_as='bytes', stored_p=None, unit_as='str'):
    """HDF5 cross-section file: datasets bin_edges (the wavenumber grid), t, p (attribute 'units'),
    xsecarr[P, T, wn] (cm^2), mol_name.  stored_p: the numbers of the 'p' dataset as given by the
    specification (instead of press_pa / unit_factor)."""
    import h5py
    fn = os.path.join(directory, stem + ext)
    with h5py.File(fn, 'w') as f:
        f.create_dataset('bin_edges', data=np.asarray(wn, dtype=float))
        f.create_dataset('t', data=np.asarray(temps, dtype=float))
        p = f.create_dataset('p', data=np.asarray(stored_p, dtype=float) if stored_p is not None else np.asarray(press_pa, dtype=float) / _f(unit_factor))
        p.attrs['units'] = _units_attr(unit, unit_as)
        f.create_dataset('xsecarr', data=np.asarray(xsec_cm2, dtype=float))
        if name_as == 'bytes':
            f.create_dataset('mol_name', data=np.bytes_(mol_name))
        elif name_as == 'array':
            f.create_dataset('mol_name', data=np.array([mol_name.encode()]))
        else:
            f.create_dataset('mol_name', data=mol_name)
    return fn


def write_exotransmit(directory, mol, wn, temps, press_pa, xsec_cm2, bar_factor=(100000, 1), order='wavelength'):
    """Exo-Transmit text table 'opac<mol>.dat': line 1 temperatures, line 2 pressures (bar), then per wavelength
    (metres) one line with the wavelength followed by one line per pressure: pressure, cross-sections (m^2) per T.
    The file is written in ascending wavelength (= descending wavenumber), as Exo-Transmit does, unless order='wavenumber'."""
    wn = np.asarray(wn, dtype=float)
    x = np.asarray(xsec_cm2, dtype=float)
    pbar = np.asarray(press_pa, dtype=float) / _f(bar_factor)
    idx = list(range(len(wn)))
    if order == 'wavelength':
        idx = idx[::-1]
    lines = [' '.join(repr(float(t)) for t in temps), ' '.join(repr(float(p)) for p in pbar)]
    for k in idx:
        lines.append(repr(float(0.01 / wn[k])))             # wavelength in m for wavenumber in cm^-1
        for ip in range(len(pbar)):
            lines.append(' '.join([repr(float(pbar[ip]))] + [repr(float(x[ip, it, k] / 1e4)) for it in range(len(temps))]))
    fn = os.path.join(directory, 'opac%s.dat' % mol)
    with open(fn, 'w') as f:
        f.write('\n'.join(lines) + '\n')
    return fn


# ------------------------------------------------------------------------- CIA

def write_pickle_cia(directory, pair, wn, temps, xsec_si, suffix='_verif'):
    """<pair><suffix>.db : wno, t, xsecarr[T, wn] (used as is by PickleCIA)."""
    d = dict(wno=np.asarray(wn, dtype=float), t=np.asarray(temps, dtype=float), xsecarr=np.asarray(xsec_si, dtype=float))
    fn = os.path.join(directory, pair + suffix + '.db')
    with open(fn, 'wb') as f:
        pickle.dump(d, f)
    return fn


def write_hitran_cia(directory, pair, blocks, scale=(10000000000, 1), suffix='_2011'):
    """HITRAN .cia text.  blocks = [(T, wn_array, sigma_si_array)], each with its own wavenumber range;
    header columns: pair, wn start, wn end, number of points, T, maximum, resolution, comment.
    Values are stored in cm^5 molecule^-2 = SI value * 1e10 with %10.3E."""
    fn = os.path.join(directory, pair + suffix + '.cia')
    s = _f(scale)
    with open(fn, 'w') as f:
        for T, wn, sig in blocks:
            wn = np.asarray(wn, dtype=float)
            v = np.asarray(sig, dtype=float) * s
            f.write('%20s%10.3f%10.3f%7d%7.1f%10.3E %5s %s\n' % (pair, wn.min(), wn.max(), len(wn), T, v.max(), '-.999', 'verif'))
            for a, b in zip(wn, v):
                f.write('%10.4f %10.3E\n' % (a, b))
    return fn


# -------------------------------------------------------------------- k-tables

def write_pickle_ktable(directory, stem, name, wn, temps, press_pa, kcoeff_cm2, weights, bar_factor=(100000, 1)):
    d = dict(bin_centers=np.asarray(wn, dtype=float), ngauss=len(weights), t=np.asarray(temps, dtype=float),
             p=np.asarray(press_pa, dtype=float) / _f(bar_factor), kcoeff=np.asarray(kcoeff_cm2, dtype=float),
             weights=np.asarray(weights, dtype=float), name=name)
    fn = os.path.join(directory, stem + '.pickle')
    with open(fn, 'wb') as f:
        pickle.dump(d, f)
    return fn


def write_hdf5_ktable(directory, stem, wn, temps, press_pa, kcoeff_cm2, weights, unit='bar', unit_factor=(100000, 1), ext='.h5',
                      stored_p=None, unit_as='str'):
    """HDF5 k-table (ExoMol layout): bin_centers, ngauss, t, p (attribute 'units'), kcoeff[P, T, wn, g], weights;
    molecule = sanitised part of the file stem before the first '_'."""
    import h5py
    fn = os.path.join(directory, stem + ext)
    with h5py.File(fn, 'w') as f:
        f.create_dataset('bin_centers', data=np.asarray(wn, dtype=float))
        f.create_dataset('ngauss', data=len(weights))
        f.create_dataset('t', data=np.asarray(temps, dtype=float))
        p = f.create_dataset('p', data=np.asarray(stored_p, dtype=float) if stored_p is not None else np.asarray(press_pa, dtype=float) / _f(unit_factor))
        p.attrs['units'] = _units_attr(unit, unit_as)
        f.create_dataset('kcoeff', data=np.asarray(kcoeff_cm2, dtype=float))
        f.create_dataset('weights', data=np.asarray(weights, dtype=float))
    return fn
