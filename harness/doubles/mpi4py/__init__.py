"""Multi-process double of ``mpi4py`` for the verification harness (property C18).

mpi4py is not installed in the sandbox.  ``taurex.mpi`` does ``from mpi4py import MPI`` at call
time, so putting this package on ``sys.path`` of a *worker process* turns that process into one
simulated MPI rank (``taurex.mpi.get_rank`` / ``nprocs`` are ``lru_cache``d: one real process per
simulated rank, see harness/fx_mpi.py).  The communicator is attached to one end of a pipe whose
other end is held by the hub in the parent process.  Every collective

    allgather, allreduce, bcast, Bcast, gather, Barrier

sends the contribution through the pipe (``Connection.send`` pickles it), blocks until the hub has
the contribution of every rank, and receives the (pickled) result: **every exchanged value is
serialised**, including the rank's own contribution -- as with the real mpi4py lower-case
(pickle based) methods.  ``allreduce(op=SUM)`` folds with ``+`` in rank order (mpi4py reduces Python
objects in rank order; for lists ``+`` is concatenation).

Nothing here is imported by the parent process or by /repo itself.
"""
import functools
import operator

__version__ = '0.0-verif-double'


class _Op(object):
    def __init__(self, name, f):
        self.name = name
        self.f = f

    def __repr__(self):
        return 'MPI.%s' % self.name


class Exchange(RuntimeError):
    """A collective could not complete (timeout, aborted by the hub)."""


class _Comm(object):
    def __init__(self):
        self.rank = 0
        self.size = 1
        self.conn = None
        self.timeout = 120.0
        self.hooks = []          # callables (kind, sent_object, received_object)
        self.n_exchanges = 0
        self.epoch = 0           # set by the worker to the number of the case it runs: the hub never matches
                                 # collectives of different cases with each other

    # -- wiring (called by harness/fx_mpi.py in the worker)
    def _attach(self, rank, size, conn, timeout):
        self.rank, self.size, self.conn, self.timeout = rank, size, conn, timeout

    # -- mpi4py API
    def Get_rank(self):
        return self.rank

    def Get_size(self):
        return self.size

    def Split_type(self, *a, **k):
        return self

    def _coll(self, kind, obj, root=0):
        if self.conn is None:
            raise Exchange('communicator double is not attached to a hub')
        self.conn.send(('coll', kind, obj, root, self.epoch))          # pickled
        if not self.conn.poll(self.timeout):
            raise Exchange('rank %d: no reply to %s within %ss' % (self.rank, kind, self.timeout))
        msg = self.conn.recv()                              # unpickled
        if msg[0] != 'reply':
            raise Exchange('rank %d: %s aborted by the hub: %r' % (self.rank, kind, msg))
        self.n_exchanges += 1
        for h in self.hooks:
            h(kind, obj, msg[1])
        return msg[1]

    def allgather(self, sendobj):
        return self._coll('allgather', sendobj)

    def gather(self, sendobj, root=0):
        res = self._coll('allgather', sendobj)
        return res if self.rank == root else None

    def allreduce(self, sendobj, op=None):
        op = op or MPI.SUM
        return functools.reduce(op.f, self._coll('allgather', sendobj))

    def bcast(self, obj=None, root=0):
        return self._coll('bcast', obj if self.rank == root else None, root)

    def Bcast(self, buf, root=0):
        res = self._coll('bcast', buf if self.rank == root else None, root)
        if self.rank != root:
            buf[...] = res

    def Barrier(self):
        self._coll('allgather', None)

    barrier = Barrier


class _MPI(object):
    SUM = _Op('SUM', operator.add)
    COMM_TYPE_SHARED = 0
    Exchange = Exchange

    def __init__(self):
        self.COMM_WORLD = _Comm()


MPI = _MPI()
