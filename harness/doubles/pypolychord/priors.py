"""Prior helpers of the recording double (imported, never used, by taurex/optimizer/polychord.py)."""
import numpy as np


class UniformPrior(object):
    def __init__(self, a, b):
        self.a = a
        self.b = b

    def __call__(self, x):
        return self.a + (self.b - self.a) * np.asarray(x)
