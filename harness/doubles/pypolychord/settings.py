"""PolyChordSettings of the recording double: a plain attribute bag with the documented defaults."""


class PolyChordSettings(object):
    def __init__(self, nDims, nDerived, **kwargs):
        self.nDims = nDims
        self.nDerived = nDerived
        self.nlive = kwargs.pop('nlive', nDims * 25)
        self.num_repeats = kwargs.pop('num_repeats', nDims * 5)
        self.nprior = kwargs.pop('nprior', -1)
        self.do_clustering = kwargs.pop('do_clustering', True)
        self.feedback = kwargs.pop('feedback', 1)
        self.precision_criterion = kwargs.pop('precision_criterion', 0.001)
        self.logzero = kwargs.pop('logzero', -1e30)
        self.max_ndead = kwargs.pop('max_ndead', -1)
        self.boost_posterior = kwargs.pop('boost_posterior', 0.0)
        self.posteriors = kwargs.pop('posteriors', True)
        self.equals = kwargs.pop('equals', True)
        self.cluster_posteriors = kwargs.pop('cluster_posteriors', True)
        self.write_resume = kwargs.pop('write_resume', True)
        self.write_paramnames = kwargs.pop('write_paramnames', False)
        self.read_resume = kwargs.pop('read_resume', True)
        self.write_stats = kwargs.pop('write_stats', True)
        self.write_live = kwargs.pop('write_live', True)
        self.write_dead = kwargs.pop('write_dead', True)
        self.write_prior = kwargs.pop('write_prior', True)
        self.compression_factor = kwargs.pop('compression_factor', 0.36787944117144233)
        self.base_dir = kwargs.pop('base_dir', 'chains')
        self.file_root = kwargs.pop('file_root', 'test')
        self.seed = kwargs.pop('seed', -1)
        if kwargs:
            raise TypeError('Unexpected **kwargs in PolyChordSettings: %r' % kwargs)
