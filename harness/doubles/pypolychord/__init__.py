"""Recording double of `pypolychord` (not installed in this sandbox).

run_polychord(loglikelihood, nDims, nDerived, settings, prior=..., dumper=...) records its
arguments in CALLS and hands control to HOOK(call).  No sampling, no output files: the layout of
PolyChord's `.stats` / `clusters/` files could not be established offline, so only the callbacks
(property C06) are exercised through this double.
"""
import numpy as np

HOOK = None
CALLS = []


class DoubleMisuse(Exception):
    pass


def default_prior(cube):
    return cube.copy()


def default_dumper(live, dead, logweights, logZ, logZerr):
    pass


def run_polychord(loglikelihood, nDims, nDerived, settings, prior=default_prior, dumper=default_dumper):
    call = dict(loglikelihood=loglikelihood, prior=prior, nDims=nDims, nDerived=nDerived, settings=settings)
    CALLS.append(call)
    if HOOK is None:
        raise DoubleMisuse('pypolychord double: no HOOK installed')
    HOOK(call)


def call_prior(call, u):
    """PolyChord semantics: prior(hypercube ndarray) returns the physical parameters (length nDims)."""
    out = call['prior'](np.array(u, dtype=float))
    out = list(out)
    if len(out) != call['nDims']:
        raise DoubleMisuse('prior returned %d values for nDims=%d' % (len(out), call['nDims']))
    return [float(v) for v in out]


def call_loglike(call, x):
    """loglikelihood(theta ndarray) returns (logL, phi) with len(phi) == nDerived."""
    ret = call['loglikelihood'](np.array(x, dtype=float))
    logl, phi = ret
    if len(phi) != call['nDerived']:
        raise DoubleMisuse('loglikelihood returned %d derived values for nDerived=%d' % (len(phi), call['nDerived']))
    return logl
