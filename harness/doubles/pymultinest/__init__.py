"""Recording double of the `pymultinest` package (not installed in this sandbox).

Only what taurex/optimizer/multinest.py touches is provided:

  run(LogLikelihood=, Prior=, n_dims=, outputfiles_basename=, multimodal=, ...)
  Analyzer(n_params=, outputfiles_basename=).get_stats()

`run` does no sampling.  It records its arguments in CALLS and hands control to the harness
through HOOK(call) where call is a dict with the two callbacks, n_dims, the basename and all
other keyword arguments.  The hook drives the callbacks the way MultiNest does (a ctypes double
array that the prior callback transforms *in place*, then LogLikelihood(cube, ndim, nparams)) and
writes the output files MultiNest would leave behind (see write_outputs).

File layout written / read here (the columns the TauREx wrapper reads back):
  <base>.txt               rows:  weight   -2*loglike   param_1 .. param_n
  <base>post_separate.dat  per mode: two blank lines, then rows as above
  <base>stats.dat          the MultiNest summary in the layout parsed by PyMultiNest's Analyzer
The Analyzer below is a transcription from memory of PyMultiNest's `Analyzer.get_mode_stats`
(text split on blank lines, `Dim No.` tables); it cannot vouch for the Fortran writer.
"""
import ctypes
import io
import os

import numpy as np

HOOK = None
CALLS = []


class DoubleMisuse(Exception):
    pass


def make_cube(values):
    arr = (ctypes.c_double * len(values))()
    for i, v in enumerate(values):
        arr[i] = float(v)
    return arr


def run(LogLikelihood, Prior, n_dims, n_params=None, n_clustering_params=None, wrapped_params=None,
        importance_nested_sampling=True, multimodal=True, const_efficiency_mode=False,
        n_live_points=400, evidence_tolerance=0.5, sampling_efficiency=0.8,
        n_iter_before_update=100, null_log_evidence=-1e90, max_modes=100, mode_tolerance=-1e90,
        outputfiles_basename='chains/1-', seed=-1, verbose=False, resume=True, context=0,
        write_output=True, log_zero=-1e100, max_iter=0, init_MPI=False, dump_callback=None,
        use_MPI=True):
    call = dict(LogLikelihood=LogLikelihood, Prior=Prior, n_dims=n_dims,
                n_params=n_params if n_params is not None else n_dims,
                n_clustering_params=n_clustering_params, multimodal=multimodal,
                importance_nested_sampling=importance_nested_sampling,
                outputfiles_basename=outputfiles_basename, n_live_points=n_live_points,
                evidence_tolerance=evidence_tolerance, resume=resume, max_iter=max_iter)
    CALLS.append(call)
    if HOOK is None:
        raise DoubleMisuse('pymultinest double: no HOOK installed')
    HOOK(call)


def call_prior(call, u):
    """MultiNest semantics: the unit-cube array is transformed in place; return the values."""
    cube = make_cube(u)
    ret = call['Prior'](cube, call['n_dims'], call['n_params'])
    if ret is not None:
        raise DoubleMisuse('Prior callback must transform in place and return None')
    return [cube[i] for i in range(call['n_dims'])]


def call_loglike(call, x):
    cube = make_cube(x)
    return call['LogLikelihood'](cube, call['n_dims'], call['n_params'])


def _fmt(v):
    return '%26.18E' % float(v)


def write_outputs(basename, modes, logz=(-10.0, 0.1), multimodal=True):
    """modes: list of dict(samples[n,d], weights[n], loglike[n], mean[d], sigma[d], maxlike[d], map[d],
    logz=(v, e)).  Writes <base>.txt, <base>post_separate.dat, <base>stats.dat."""
    d = os.path.dirname(basename)
    if d:
        os.makedirs(d, exist_ok=True)
    rows = []
    for m in modes:
        for s, w, l in zip(m['samples'], m['weights'], m['loglike']):
            rows.append([w, -2.0 * l] + list(s))
    with open(basename + '.txt', 'w') as f:
        for r in rows:
            f.write(''.join(_fmt(v) for v in r) + '\n')
    with open(basename + 'post_separate.dat', 'w') as f:
        for m in modes:
            f.write('\n\n')
            for s, w, l in zip(m['samples'], m['weights'], m['loglike']):
                f.write(''.join(_fmt(v) for v in [w, -2.0 * l] + list(s)) + '\n')
    with open(basename + 'stats.dat', 'w') as f:
        f.write('Nested Sampling Global Log-Evidence           :   %s  +/-  %s\n' % (_fmt(logz[0]), _fmt(logz[1])))
        f.write('\n')
        f.write('Total Modes Found:%12d\n' % len(modes))
        for i, m in enumerate(modes):
            lz = m.get('logz', logz)
            f.write('\n\n')
            f.write('Mode%4d\n' % (i + 1))
            f.write('Strictly Local Log-Evidence   %s  +/-  %s\n' % (_fmt(lz[0]), _fmt(lz[1])))
            f.write('Local Log-Evidence   %s  +/-  %s\n' % (_fmt(lz[0]), _fmt(lz[1])))
            f.write('\n')
            f.write('Parameters\n')
            f.write('Dim No.       Mean        Sigma\n')
            for j, (a, b) in enumerate(zip(m['mean'], m['sigma'])):
                f.write('%4d%s%s\n' % (j + 1, _fmt(a), _fmt(b)))
            f.write('\n')
            f.write('Maximum Likelihood Parameters\n')
            f.write('Dim No.        Parameter\n')
            for j, a in enumerate(m['maxlike']):
                f.write('%4d%s\n' % (j + 1, _fmt(a)))
            f.write('\n')
            f.write('MAP Parameters\n')
            f.write('Dim No.        Parameter\n')
            for j, a in enumerate(m['map']):
                f.write('%4d%s\n' % (j + 1, _fmt(a)))


class Analyzer(object):
    def __init__(self, n_params, outputfiles_basename='chains/1-', verbose=True):
        self.outputfiles_basename = outputfiles_basename
        self.n_params = n_params
        self.data_file = '%s.txt' % self.outputfiles_basename
        self.stats_file = '%sstats.dat' % self.outputfiles_basename
        self.post_file = '%spost_separate.dat' % self.outputfiles_basename

    def get_data(self):
        return np.loadtxt(self.data_file, ndmin=2)

    @staticmethod
    def _read_error_into_dict(line, d):
        name, values = line.split('   ', 1)
        name = name.strip(': ').strip()
        values = values.strip(': ').strip()
        v, e = values.split(' +/- ')
        d[name.lower()] = float(v)
        d['%s error' % name.lower()] = float(e)

    @staticmethod
    def _read_table(txt, d=int):
        title, table = txt.split('\n', 1)
        header, table = table.split('\n', 1)
        data = np.loadtxt(io.StringIO(table), ndmin=2)
        if d is not None:
            if data.shape[1] - 1 != d and d is not int:
                raise DoubleMisuse('table width')
        return data

    def get_mode_stats(self):
        with open(self.stats_file) as f:
            lines = f.readlines()
        text = ''.join(lines)
        parts = text.split('\n\n\n')
        del parts[0]
        stats = {'modes': []}
        self._read_error_into_dict(lines[0], stats)
        if 'Nested Importance Sampling Global Log-Evidence' in lines[1]:
            self._read_error_into_dict(lines[1], stats)
        i = 0
        for p in parts:
            modelines = p.split('\n\n')
            mode = {'index': i}
            i += 1
            modelines1 = modelines[0].split('\n')
            self._read_error_into_dict(modelines1[1], mode)
            self._read_error_into_dict(modelines1[2], mode)
            t = self._read_table(modelines[1])
            mode['mean'] = t[:, 1].tolist()
            mode['sigma'] = t[:, 2].tolist()
            mode['maximum'] = self._read_table(modelines[2])[:, 1].tolist()
            mode['maximum a posterior'] = self._read_table(modelines[3])[:, 1].tolist()
            stats['modes'].append(mode)
        if 'nested importance sampling global log-evidence' in stats:
            stats['global evidence'] = stats['nested importance sampling global log-evidence']
            stats['global evidence error'] = stats['nested importance sampling global log-evidence error']
        else:
            stats['global evidence'] = stats['nested sampling global log-evidence']
            stats['global evidence error'] = stats['nested sampling global log-evidence error']
        return stats

    def get_stats(self):
        stats = self.get_mode_stats()
        post = self.get_data()
        marg = []
        for i in range(2, post.shape[1]):
            b = np.array(sorted(zip(post[:, 0], post[:, i]), key=lambda x: x[1]))
            b[:, 0] = b[:, 0].cumsum()
            marg.append({'median': float(np.interp(0.5, b[:, 0], b[:, 1]))})
        stats['marginals'] = marg
        return stats
