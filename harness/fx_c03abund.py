"""Fixtures for C03's abundance-MAGNITUDE dimension (spec/SourceLayers.tla, constants AbExps / AbOrd / AbFloor).

An exported input class gives, per component and block of layers, the exponent e of the mixing ratio (10^-e, lattice
1 .. 20) next to the support pattern.  It is realised on the real 6-layer non-isothermal model of fx_c03layers:

  * the mixing ratio of the species in a layer of exponent e is  mantissa(BASEMIX) x 10^-e  (the ordinary exponent keeps
    the base profile of fx_c03layers);
  * the cross-section / k-coefficient / CIA table the harness serves for that layer is larger by the same factor, so
    that the weighted opacity -- and with it the optical depth -- keeps the order-one magnitude of the base fixture at
    EVERY abundance.  Cross-sections and the CIA table are scaled layer by layer (the layers have distinct
    temperatures, the served function looks the layer up by temperature); a k-table can only be scaled as a whole and
    takes the factor of the TOP block (the rays tangent there cross nothing else).

Components that have an abundance of their own on the real model: H2O and CH4 (molecular absorption) and the partner
N2 of the pair H2-N2.  The pair H2-He is made of the fill gases, the grey haze's abundance IS its opacity and H- has no
fixture cross-section: classes that move those are not realisable (the chooser skips them).
Nothing here computes an expected value with the code under test."""
import math

import numpy as np

from .core import Machinery
from . import fx_c03layers as fxl
from .fx_c03layers import NLR, WN, RT, BASEMIX, LayerClass, RangeCIA, expand

ORD = 4
GAS_OF = {(0, 0): 'H2O', (0, 1): 'CH4', (1, 1): 'N2'}


def layer_of(T):
    k = int(np.argmin(np.abs(np.array(RT) - T)))
    if abs(RT[k] - T) > 1e-6 * RT[k]:
        raise Machinery('fixture: temperature %r is not a layer temperature' % (T,))
    return k


class ScaledCIA(RangeCIA):
    def __init__(self, pair, tmin, tmax, scale):
        super().__init__(pair, tmin, tmax)
        self._scale = list(scale)

    def value(self, temperature):
        return super().value(temperature) * self._scale[layer_of(temperature)]


class AbundanceClass(LayerClass):
    prefix = 'abundance'

    def __init__(self, a, e, mode, kname, third):
        super().__init__(a, mode, kname, third)
        self.e = [[tuple(c) for c in s] for s in e]
        self.scale = {}
        moved = []
        for s, comps in enumerate(self.e):
            for c, pat in enumerate(comps):
                if all(x == ORD for x in pat):
                    continue
                if (s, c) not in GAS_OF:
                    raise Machinery('abundance class of component %r is not realisable' % ((s, c),))
                g = GAS_OF[(s, c)]
                ex = expand(list(pat))
                mix, sc = [], []
                for k in range(NLR):
                    if ex[k] == ORD:
                        mix.append(self.prof[g][k])
                        sc.append(1.0)
                    else:
                        mant = BASEMIX[g][k] / 10.0 ** math.floor(math.log10(BASEMIX[g][k]))
                        mk = mant * 10.0 ** (-ex[k])
                        mix.append(mk if self.prof[g][k] != 0 else 0.0)
                        sc.append(BASEMIX[g][k] / mk)
                self.prof[g] = mix
                self.scale[g] = sc
                moved.append('%s=%s' % (g, ','.join(str(x) for x in pat)))
        if not moved:
            raise Machinery('abundance class without a component off the ordinary abundance')
        self.tag = self.tag + ':' + '+'.join(moved)
        if 'N2' in self.scale:
            self.cia['H2-N2'] = ScaledCIA('H2-N2', 100.0, 4000.0, self.scale['N2'])
        # a k-table is scaled as a whole: the factor of the top block
        self.kscale = {g: self.scale[g][-1] for g in ('H2O', 'CH4') if g in self.scale}

    def sc(self, g, k):
        if self.mode == 'ktables' and g in self.kscale:
            return self.kscale[g]
        return self.scale[g][k] if g in self.scale else 1.0

    def xsec(self, gas):
        base = fxl.xsec_T(gas)
        sc = self.scale.get(gas)

        def f(T, P):
            return base(T, P) * (sc[layer_of(T)] if sc else 1.0)
        return f

    def enter(self, env):
        if self.mode == 'ktables':
            env.enter('ktables', self.kname, kscale=self.kscale)
        else:
            env.enter('xsec', xsec=self.xsec)

    def tables(self, s, at, dens=True):
        n, mix, T, P = (at['n'] if dens else np.ones(NLR)), at['mix'], at['T'], at['P']
        if s == 'abs':
            if self.mode == 'ktables':
                w = fxl.KREAL[self.kname][0]
                return [[(fxl.kcoef(g, self.kname) * self.sc(g, k) * mix[g][k] * n[k]).tolist() for k in range(NLR)]
                        for g in ('H2O', 'CH4')], w
            return [[(self.xsec(g)(T[k], P[k]) * mix[g][k] * n[k]).tolist() for k in range(NLR)] for g in ('H2O', 'CH4')], None
        return super().tables(s, at, dens)
