"""C12: temperature profiles that live inside forward models (spec/ProfileOwner.tla, MC_ProfileOwner.tla,
Trace_ProfileOwner.tla).

"TemperatureProfile.profile after initialize_profile(planet, nlayers, pressure)": inside a forward model the
planet, the layer count and the pressure grid are not the profile's own -- the model hands them over in
initialize_profiles() at the start of every evaluation, and they change between evaluations through the MODEL's
fitting parameters (planet_radius, planet_mass, atm_max_pressure, atm_min_pressure) or because a new model (other
layer count, same count) is built around the same planet and profile objects; one profile object may serve two
models (a transmission and an emission model, each with its own planet and pressure object).

TLC generates the walks (MC_ProfileOwner, -simulate); they are replayed on real models for every built-in profile
class; every evaluation is `model.initialize_profiles(); model.temperatureProfile` and is compared with
  * a freshly built model (fresh planet, profile, pressure objects) at the current settings of THAT model, and
  * the absolute clauses for the current settings: one value per layer of the current layer count, finite and
    positive, inside the control range, isothermal constant, Guillot = published closed form for the CURRENT
    gravity G M / R^2 and the CURRENT layer pressures (independent evaluation of the driver);
Trace_ProfileOwner.tla re-derives the current settings from the logged set / rebuild events and accepts an
evaluation only if the references were computed for them and the profile equals them (canary included).
"""
import math

import numpy as np

from . import core
from .core import Machinery, validate_trace
from .history import digest

# values of the model-owned settings (index = value in the spec)
RADII = [1.0, 1.4, 0.8]            # Rjup
MASSES = [1.0, 0.5, 2.2]           # Mjup
PMAX = [1e5, 1e6, 1e4]             # Pa
PMIN = [1e-2, 1e-1, 1e-4]          # Pa
MODEL_PARAM = {1: 'planet_radius', 2: 'planet_mass', 3: 'atm_max_pressure', 4: 'atm_min_pressure'}
VALUES = {1: RADII, 2: MASSES, 3: PMAX, 4: PMIN}
RTOL_CLOSED = 1e-8


class Kind:
    """one built-in profile class: how to build it for a control value, the model fitting parameter its control
    is written through, the two layer counts models are built with, its control temperatures."""

    def __init__(self, name, make, ctl_param, ctl_values, layers, controls, irrelevant=False):
        self.name, self.make, self.ctl_param, self.ctl_values = name, make, ctl_param, ctl_values
        self.layers, self.controls, self.irrelevant = layers, controls, irrelevant


def kinds(C):
    arr = [1900.0, 1500.0, 1450.0, 900.0, 400.0]
    rod = [1800.0, 1500.0, 1300.0, 1000.0, 800.0, 600.0]
    gp = dict(T_irr=1500.0, kappa_irr=0.01, kappa_v1=0.005, kappa_v2=0.0008, alpha=0.5, T_int=100.0)
    return [
        Kind('guillot:kappa_irr', lambda v: C['guillot'](**dict(gp, kappa_irr=v)), 'kappa_irr', [0.01, 0.05, 0.002], (8, 11),
             lambda v: dict(gp, kappa_irr=v)),
        Kind('guillot:T_irr', lambda v: C['guillot'](**dict(gp, T_irr=v)), 'T_irr', [1500.0, 2200.0, 900.0], (11, 8),
             lambda v: dict(gp, T_irr=v)),
        Kind('npoint1', lambda v: C['npoint'](T_surface=1500.0, T_top=500.0, temperature_points=[v], pressure_points=[1e2],
                                              limit_slope=1000.0, smoothing_window=10), 'T_point1', [1200.0, 700.0, 1000.0], (9, 12),
             lambda v: [1500.0, v, 500.0]),
        Kind('rodgers', lambda v: C['rodgers'](temperature_layers=list(rod), correlation_length=v), 'correlation_length',
             [5.0, 1.5, 0.7], (6, 6), lambda v: rod),
        Kind('array:pp', lambda v: C['array'](tp_array=list(arr), p_points=[1e5, 1e4, 1e2, 1e0, 1e-1]), 'planet_distance',
             [1.0, 2.0, 3.0], (7, 5), lambda v: arr, irrelevant=True),
        Kind('iso', lambda v: C['iso'](T=v), 'T', [800.0, 1500.0, 2100.5], (5, 7), lambda v: [v]),
    ]


def layer_pressures(pmax, pmin, n):
    """layer pressures of the documented log-uniform grid: geometric mean of adjacent levels (own evaluation)"""
    a, b = math.log10(pmax), math.log10(pmin)
    lev = [10.0 ** (a + (b - a) * i / n) for i in range(n + 1)]
    return [math.sqrt(lev[i] * lev[i + 1]) for i in range(n)]


def gravity(r, m):
    from taurex.constants import G, RJUP, MJUP      # physical constants are input data
    return G * m * MJUP / (r * RJUP) ** 2


class World:
    """the long-lived objects of one walk: ONE profile object, one planet per model, the models"""

    def __init__(self, X, kind, own, ctl):
        self.X, self.kind = X, kind
        self.own = [list(s) for s in own]
        self.ctl = ctl
        self.tp = kind.make(kind.ctl_values[ctl])
        self.planets = [X['Planet'](planet_mass=MASSES[s[1]], planet_radius=RADII[s[0]]) for s in self.own]
        self.models = [None] * len(self.own)
        for o in range(len(self.own)):
            self.build(o)

    def build(self, o):
        s = self.own[o]
        self.models[o] = make_model(self.X, o, self.planets[o], self.tp, self.kind.layers[s[4]], PMAX[s[2]], PMIN[s[3]])

    def set(self, o, k, v):
        self.own[o][k - 1] = v
        self.models[o][MODEL_PARAM[k]] = VALUES[k][v]

    def set_ctl(self, v, via):
        self.ctl = v
        self.models[via][self.kind.ctl_param] = self.kind.ctl_values[v]

    def rebuild(self, o, n):
        self.own[o][4] = n
        self.build(o)

    def evaluate(self, o):
        m = self.models[o]
        m.initialize_profiles()
        return np.array(m.temperatureProfile, dtype=float)


def make_model(X, o, planet, tp, n, pmax, pmin):
    chem = X['TaurexChemistry'](fill_gases=['H2', 'He'], ratio=0.17)
    common = dict(planet=planet, star=X['BlackbodyStar'](), temperature_profile=tp, chemistry=chem, nlayers=n,
                  atm_min_pressure=pmin, atm_max_pressure=pmax)
    m = X['EmissionModel'](ngauss=4, **common) if o % 2 else X['TransmissionModel'](**common)
    m.build()
    return m


def fresh_profile(X, kind, o, s, ctl):
    planet = X['Planet'](planet_mass=MASSES[s[1]], planet_radius=RADII[s[0]])
    m = make_model(X, o, planet, kind.make(kind.ctl_values[ctl]), kind.layers[s[4]], PMAX[s[2]], PMIN[s[3]])
    m.initialize_profiles()
    return np.array(m.temperatureProfile, dtype=float)


def absolute(kind, s, ctl, prof, guillot_indep):
    """number of layers of `prof` that violate the value clauses of the statement for the settings s, ctl"""
    n = kind.layers[s[4]]
    if prof.ndim != 1:
        return -1, 1, 'not a vector'
    bad = ~np.isfinite(prof) | ~(prof > 0)
    detail = ''
    if prof.shape[0] == n:
        c = kind.controls(kind.ctl_values[ctl])
        if kind.name.startswith('guillot'):
            p = dict(tirr=c['T_irr'], tint=c['T_int'], kir=c['kappa_irr'], kv1=c['kappa_v1'], kv2=c['kappa_v2'], alpha=c['alpha'])
            T4, _ = guillot_indep(p, layer_pressures(PMAX[s[2]], PMIN[s[3]], n), gravity(RADII[s[0]], MASSES[s[1]]))
            exp = np.array(T4) ** 0.25
            off = ~(np.abs(prof - exp) <= RTOL_CLOSED * exp)
            if off.any():
                i = int(np.argmax(off))
                detail = 'layer %d: model %r K, closed form for g=%.4g m/s2 %r K' % (i, float(prof[i]), gravity(RADII[s[0]], MASSES[s[1]]), float(exp[i]))
            bad = bad | off
        else:
            lo, hi = min(c), max(c)
            off = ~((prof >= lo * (1 - 1e-9)) & (prof <= hi * (1 + 1e-9)))
            if off.any():
                detail = 'controls [%r, %r], profile min %r max %r' % (lo, hi, float(np.nanmin(prof)), float(np.nanmax(prof)))
            bad = bad | off
    return int(prof.shape[0]), int(bad.sum()), detail


def walks_from_tlc(n, seed, depth=10):
    res = core.run_tlc('MC_ProfileOwner', 'SIM_ProfileOwner.cfg', workers=1, simulate='num=%d' % n, depth=depth + 3, seed=seed)
    if res.violated:
        raise Machinery('ProfileOwner violates %s on a simulated walk\n%s' % (res.violated, res.error_trace))
    seen, out = set(), []
    for w in res.tagged('WALK'):
        k = repr(w)
        if k not in seen:
            seen.add(k)
            out.append(w)
    if len(out) < max(1, n // 2):
        raise Machinery('TLC produced only %d owner walks' % len(out))
    return out, res


def densify(w):
    """the same walk with an evaluation of the model concerned after every change (also a behaviour of the spec)"""
    no = len(w['own'])
    out = []
    for i, st in enumerate(w['walk']):
        out.append(st)
        if st[0] in ('set', 'rebuild'):
            out.append(['eval', st[1], 0, 0])
        elif st[0] == 'ctl':
            out.append(['eval', 1 + i % no, 0, 0])
    return dict(own=w['own'], ctl=w['ctl'], walk=out)


BLANK = dict(own=[], ctl=0, lay=[], o=0, k=0, v=0, at=[], dig=0, fresh=0, exc=0, len=0, bad=0)


def replay_walk(X, kind, w, guillot_indep, ids, cache, tid):
    """-> events, trail, first difference"""
    ev = lambda **kw: dict(BLANK, tid=tid, **kw)
    events = [ev(ev='init', own=[list(s) for s in w['own']], ctl=w['ctl'], lay=list(kind.layers))]
    trail, first = [], ''
    def broken(o, s, c, what, e):
        # models of valid settings that cannot be built are a verdict (an evaluation that raised), not a crash
        a = 'EXC-BUILD:' + type(e).__name__
        events.append(ev(ev='eval', o=o, at=list(s) + [c], dig=ids.setdefault(a, len(ids) + 1), fresh=ids.setdefault('built', len(ids) + 1), exc=1))
        trail.append('%s!' % what)
        return '%s raised %s: %s' % (what, type(e).__name__, str(e)[:120])

    try:
        world = World(X, kind, w['own'], w['ctl'])
    except Exception as e:
        return events, trail, broken(1, w['own'][0], w['ctl'], 'build', e)
    for i, (op, o, k, v) in enumerate(w['walk']):
        if op == 'set':
            trail.append('m%d[%s]=%r' % (o, MODEL_PARAM[k], VALUES[k][v]))
            try:
                world.set(o - 1, k, v)
            except Exception as e:
                trail.append('SETTER-RAISED:%s' % type(e).__name__)
            events.append(ev(ev='set', o=o, k=k, v=v))
        elif op == 'ctl':
            via = i % len(world.models)
            trail.append('m%d[%s]=%r' % (via + 1, kind.ctl_param, kind.ctl_values[v]))
            try:
                world.set_ctl(v, via)
            except Exception as e:
                trail.append('SETTER-RAISED:%s' % type(e).__name__)
            events.append(ev(ev='ctl', v=v))
        elif op == 'rebuild':
            trail.append('m%d=rebuilt(nlayers=%d)' % (o, kind.layers[v]))
            try:
                world.rebuild(o - 1, v)
            except Exception as e:
                events.append(ev(ev='rebuild', o=o, v=v))
                return events, trail, broken(o, world.own[o - 1], world.ctl, 'rebuild', e)
            events.append(ev(ev='rebuild', o=o, v=v))
        else:
            s, c = list(world.own[o - 1]), world.ctl
            key = (kind.name, o % 2, tuple(s), None if kind.irrelevant else c)
            if key not in cache:
                try:
                    ref = fresh_profile(X, kind, o - 1, s, c)
                    cache[key] = (digest(ref), ref)
                except Exception as e:
                    cache[key] = ('EXC:' + type(e).__name__, None)
            b = cache[key][0]
            exc, ln, bad, detail = 0, 0, 0, ''
            try:
                prof = world.evaluate(o - 1)
                a = digest(prof)
                ln, bad, detail = absolute(kind, s, c, prof, guillot_indep)
            except Exception as e:
                a, exc, prof = 'EXC:' + type(e).__name__, 1, None
            ia = ids.setdefault(a, len(ids) + 1)
            ib = ids.setdefault(b, len(ids) + 1)
            good = ia == ib and (exc or (ln == kind.layers[s[4]] and bad == 0))
            trail.append('eval(m%d)%s' % (o, '' if good else '!'))
            if not good and not first:
                if exc:
                    first = 'long-lived model raised %s, fresh model: %s' % (a, b[:80])
                elif ln != kind.layers[s[4]]:
                    first = '%d values for %d layers' % (ln, kind.layers[s[4]])
                elif bad:
                    first = '%d layer(s) off for R=%r Rjup M=%r Mjup P=%r..%r Pa: %s' % (bad, RADII[s[0]], MASSES[s[1]], PMAX[s[2]], PMIN[s[3]], detail)
                else:
                    ref = cache[key][1]
                    if ref is not None and ref.shape == prof.shape:
                        j = int(np.argmax(np.abs(prof - ref)))
                        first = 'layer %d: long-lived model %r K, freshly built model %r K (R=%r Rjup M=%r Mjup P=%r..%r Pa)' % (
                            j, float(prof[j]), float(ref[j]), RADII[s[0]], MASSES[s[1]], PMAX[s[2]], PMIN[s[3]])
                    else:
                        first = 'long-lived %s... vs fresh %s...' % (a[:100], b[:100])
            events.append(ev(ev='eval', o=o, at=s + [c], dig=ia, fresh=ib, exc=exc, len=ln, bad=bad))
    return events, trail, first


def run_owner(ctx, X, guillot_indep, nwalks, clause='model_profile_current'):
    walks, res = walks_from_tlc(nwalks, ctx.seed + 12)
    ctx.add_tlc('simulate-owner-walks', res, counts=False)
    walks = walks[:nwalks]
    allw = walks + [densify(w) for w in walks]
    ks = kinds(X['C'])
    ids, cache, events, meta = {}, {}, [], {}
    tid = 0
    for kind in ks:
        for w in allw:
            tid += 1
            evs, trail, first = replay_walk(X, kind, w, guillot_indep, ids, cache, tid)
            events += evs
            meta[tid] = dict(kind=kind.name, walk=w, trail=trail, first=first)
    # canaries (own tids): references computed for settings that are not current / a digest that differs
    canaries = {}
    for t, m in meta.items():
        tr = [dict(e) for e in events if e['tid'] == t]
        if any(e['ev'] == 'eval' and e['exc'] == 0 for e in tr) and not m['first']:
            for name in ('stale-settings', 'other-digest', 'layer-off'):
                tid += 1
                c = [dict(e, tid=tid) for e in tr]
                e = next(e for e in c if e['ev'] == 'eval' and e['exc'] == 0)
                if name == 'stale-settings':
                    e['at'] = [(e['at'][0] + 1) % 3] + list(e['at'][1:])
                elif name == 'other-digest':
                    e['dig'] = e['dig'] + 100000
                else:
                    e['bad'] = 1
                canaries[tid] = name
                events += c
            break
    if not canaries and not ctx.has_violations():
        raise Machinery('no accepted evaluation for the owner canaries')
    ok, bad, res2 = validate_trace('Trace_ProfileOwner', 'Trace_ProfileOwner.cfg', events, timeout=1200)
    ctx.add_tlc('trace-owner', res2, counts=False)
    badt = {b['tid'] for b in bad}
    if res2.postcondition_false or res2.violated:
        raise Machinery('owner trace not fully consumed:\n' + res2.out[-1200:])
    missed = [n for t, n in canaries.items() if t not in badt]
    if missed:
        raise Machinery('canary accepted: owner trace validation is vacuous (%r)' % missed)
    # independent of TLC: the harness's own comparison must agree with the verdict of the trace spec
    for t, m in meta.items():
        if (t in badt) != bool(m['first']) and not (t in badt and any('SETTER-RAISED' in x for x in m['trail'])):
            raise Machinery('trace spec and harness disagree on walk %d (%s): %r / %r' % (t, m['kind'], t in badt, m['first']))
        ctx.verdict(clause, t not in badt, cls='model:%s:%s' % (m['kind'], '>'.join(m['trail'][-3:]) if t in badt else ''),
                    detail='%s inside forward models after %s: %s' % (m['kind'], ' '.join(m['trail']), m['first']),
                    vector=dict(owner=m['kind'], walk=m['walk']))
    ctx.traces += len(meta)
    nev = sum(1 for e in events if e['ev'] == 'eval' and e['tid'] in meta)
    return len(meta), nev, len(cache)


def replay_owner(ctx, X, guillot_indep, vec, clause='model_profile_current'):
    kind = {k.name: k for k in kinds(X['C'])}.get(vec['owner'])
    if kind is None:
        raise Machinery('unknown owner scenario %r' % vec['owner'])
    _, trail, first = replay_walk(X, kind, vec['walk'], guillot_indep, {}, {}, 1)
    ctx.verdict(clause, not first, cls='model:%s:replay' % kind.name, detail='%s: %s' % (' '.join(trail), first), vector=vec)
