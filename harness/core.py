"""Shared machinery of the TauREx model-based verification harness.

 * running TLC (exhaustive check, vector export, simulation, trace validation)
 * verdict bookkeeping (every vector / trace / behaviour gets a verdict, the
   failing clause is named), known-findings handling, evidence files
 * exit codes: 0 held, 1 violation (VIOLATION line printed), 2 machinery failure
"""
import json
import os
import re
import shutil
import subprocess
import sys
import tempfile
import time
from fractions import Fraction

VERIF = os.path.dirname(os.path.dirname(os.path.abspath(__file__)))
SPEC = os.path.join(VERIF, 'spec')
REPO = os.environ.get('TAUREX_REPO', '/repo')
TLA_CP = '/opt/veriftools/tla/tla2tools.jar:/opt/veriftools/tla/CommunityModules-deps.jar'


class Machinery(Exception):
    """The checking machinery itself failed (exit 2): nothing is concluded."""


# ----------------------------------------------------------------------------
# TLC
# ----------------------------------------------------------------------------

class TLCResult:
    def __init__(self):
        self.rc = None
        self.out = ''
        self.generated = 0
        self.distinct = 0
        self.depth = 0
        self.printed = []          # parsed PrintT payloads  (tag, obj)
        self.violated = None       # name of violated invariant / property
        self.postcondition_false = False
        self.action_cov = {}       # action name -> (distinct, total)
        self.wall = 0.0
        self.error_trace = ''

    def tagged(self, tag):
        return [o for t, o in self.printed if t == tag]


_PRINT_RE = re.compile(r'^<<"([A-Za-z0-9_]+)", (".*")>>$')


def _parse_printed(line):
    m = _PRINT_RE.match(line)
    if not m:
        return None
    try:
        inner = json.loads(m.group(2))
        return m.group(1), json.loads(inner)
    except Exception:
        return None


def run_tlc(module, cfg, *, workers=16, timeout=1200, simulate=None, depth=None,
            env=None, coverage=False, seed=None, deque=False, extra=None,
            spec_dir=SPEC, heap='6g', allow_violation=False):
    """Run TLC on spec/<module>.tla with spec/<cfg> (or an absolute cfg path).

    simulate: None for breadth-first model checking, else "num=N" string.
    Returns TLCResult.  Raises Machinery on parse errors, TLC crashes, timeouts.
    """
    cfg_path = cfg if os.path.isabs(cfg) else os.path.join(spec_dir, cfg)
    if not os.path.exists(cfg_path):
        raise Machinery('missing cfg %s' % cfg_path)
    meta = tempfile.mkdtemp(prefix='tlcmeta_')
    cmd = ['java', '-XX:+UseParallelGC', '-Xmx' + heap]
    if deque:
        cmd.append('-Dtlc2.tool.queue.IStateQueue=StateDeque')
    cmd += ['-cp', TLA_CP, 'tlc2.TLC', '-workers', str(workers), '-metadir', meta,
            '-noGenerateSpecTE', '-config', cfg_path]
    if coverage:
        cmd += ['-coverage', '1']
    if simulate is not None:
        cmd += ['-simulate', simulate]
    if depth is not None:
        cmd += ['-depth', str(depth)]
    if seed is not None:
        cmd += ['-seed', str(seed)]
    if extra:
        cmd += list(extra)
    cmd.append(os.path.join(spec_dir, module + '.tla'))
    e = dict(os.environ)
    e.pop('JAVA_TOOL_OPTIONS', None)
    if env:
        e.update({k: str(v) for k, v in env.items()})
    res = TLCResult()
    t0 = time.time()
    for attempt in range(3):
        os.makedirs(meta, exist_ok=True)
        try:
            p = subprocess.run(cmd, cwd=spec_dir, env=e, stdout=subprocess.PIPE,
                               stderr=subprocess.STDOUT, timeout=timeout, text=True)
        except subprocess.TimeoutExpired:
            shutil.rmtree(meta, ignore_errors=True)
            subprocess.run(['pkill', '-f', meta], check=False)
            raise Machinery('TLC timeout after %ss on %s/%s' % (timeout, module, cfg))
        finally:
            shutil.rmtree(meta, ignore_errors=True)
        if p.returncode not in (-9, 137):
            break
        # SIGKILL from outside (the kernel's OOM killer when many JVMs share the machine): not a result, run it again
        time.sleep(20 * (attempt + 1))
    res.wall = time.time() - t0
    res.rc = p.returncode
    res.out = p.stdout
    for line in p.stdout.splitlines():
        if line.startswith('<<"'):
            pr = _parse_printed(line)
            if pr:
                res.printed.append(pr)
                continue
        m = re.match(r'^(\d+) states generated, (\d+) distinct states found', line)
        if m:
            res.generated = int(m.group(1))
            res.distinct = int(m.group(2))
        m = re.match(r'^The depth of the complete state graph search is (\d+)', line)
        if m:
            res.depth = int(m.group(1))
        m = re.match(r'^Error: Invariant (\S+) is violated', line)
        if m:
            res.violated = m.group(1)
        m = re.match(r'^Error: Action property (\S+) is violated', line)
        if m:
            res.violated = m.group(1)
        if 'Temporal properties were violated' in line:
            res.violated = res.violated or 'temporal'
        if re.search(r'Postcondition \S+.* is false', line) or 'The postcondition' in line and 'false' in line:
            res.postcondition_false = True
        m = re.match(r'^<(\w+) line \d+, col \d+ to line \d+, col \d+ of module (\w+)>: (\d+):(\d+)', line)
        if m:
            res.action_cov[m.group(1)] = (int(m.group(3)), int(m.group(4)))
    if res.violated:
        i = p.stdout.find('Error:')
        res.error_trace = p.stdout[i:i + 6000]
    bad_rc = res.rc not in (0,) and not res.violated and not res.postcondition_false
    if bad_rc or (res.rc != 0 and 'Parsing or semantic analysis failed' in p.stdout):
        raise Machinery('TLC failed rc=%s on %s/%s:\n%s' % (res.rc, module, os.path.basename(cfg_path), p.stdout[-3000:]))
    if res.violated and not allow_violation:
        pass  # callers decide: a violated invariant of the *design* is reported by them
    return res


def sany(module, spec_dir=SPEC):
    p = subprocess.run(['java', '-cp', TLA_CP, 'tla2sany.SANY', module + '.tla'], cwd=spec_dir,
                       stdout=subprocess.PIPE, stderr=subprocess.STDOUT, text=True, timeout=120)
    if p.returncode != 0 or 'Semantic errors' in p.stdout or 'Parse Error' in p.stdout:
        raise Machinery('SANY rejected %s:\n%s' % (module, p.stdout[-2000:]))


def write_cfg(text):
    """Write a temporary cfg (literal constants emitted by a driver); caller removes."""
    fd, path = tempfile.mkstemp(prefix='verifcfg_', suffix='.cfg')
    with os.fdopen(fd, 'w') as f:
        f.write(text)
    return path


# ----------------------------------------------------------------------------
# numbers
# ----------------------------------------------------------------------------

def frac(v):
    """JSON value from TLC -> Fraction (ints or [n,d] pairs)."""
    if isinstance(v, (list, tuple)) and len(v) == 2:
        return Fraction(int(v[0]), int(v[1]))
    return Fraction(int(v))


def close(a, b, rel=1e-9, abs_=0.0):
    a = float(a)
    b = float(b)
    if a != a or b != b:
        return False
    return abs(a - b) <= max(abs_, rel * max(abs(a), abs(b)))


# ----------------------------------------------------------------------------
# verdict bookkeeping
# ----------------------------------------------------------------------------

class Ctx:
    def __init__(self, pid, tier, seed):
        self.pid = pid
        self.tier = tier
        self.seed = seed
        self.t0 = time.time()
        self.states = 0
        self.transitions = 0
        self.traces = 0
        self.evaluations = 0
        self.samples = []
        self.clauses = {}          # clause -> dict(n=, bad=)
        self.violations = []       # dicts
        self.known_hits = {}       # finding id -> count
        self.tlc_runs = []
        self.notes = []
        self.assumptions = []
        self.bounds = {}
        self.exhaustive = False
        self.findings = load_findings(pid)
        self.replay_mode = False
        self.viol_classes = {}

    # -- TLC runs are accumulated into the evidence
    def add_tlc(self, label, res, counts=True):
        if counts:
            self.states += res.distinct
            self.transitions += res.generated
        self.tlc_runs.append(dict(run=label, distinct_states=res.distinct, states_generated=res.generated,
                                  depth=res.depth, wall_s=round(res.wall, 2),
                                  actions={k: v[1] for k, v in res.action_cov.items()} or None))

    def check_spec(self, label, module, cfg, *, invariants_must_hold=True, need_actions=(), **kw):
        """Exhaustive TLC run of a design-level config.  A violated invariant of the design
        on the unchanged spec is a machinery failure unless the caller expects it."""
        res = run_tlc(module, cfg, coverage=bool(need_actions), **kw)
        self.add_tlc(label, res)
        if res.violated and invariants_must_hold:
            raise Machinery('spec %s/%s violates %s\n%s' % (module, cfg, res.violated, res.error_trace))
        for a in need_actions:
            if res.action_cov.get(a, (0, 0))[1] == 0:
                raise Machinery('vacuous: action %s of %s never taken in %s' % (a, module, cfg))
        if res.distinct == 0:
            raise Machinery('TLC reported 0 states for %s/%s' % (module, cfg))
        return res

    def check_proofs(self, module, theorems=''):
        """TLAPS: unbounded companions of invariants TLC checks on small domains (spec/proofs)."""
        n, wall = run_tlapm(module)
        self.tlc_runs.append(dict(run='tlaps-proof %s%s' % (module, (' (' + theorems + ')') if theorems else ''),
                                  distinct_states=0, states_generated=0, depth=0, wall_s=round(wall, 2),
                                  actions=None, obligations_proved=n))
        self.note('TLAPS proved %d obligations of spec/proofs/%s.tla%s' % (n, module, (': ' + theorems) if theorems else ''))
        return n

    def expect_refuted(self, label, module, cfg, invariant, **kw):
        """Non-vacuity self-test: TLC must find a counterexample to `invariant`."""
        res = run_tlc(module, cfg, allow_violation=True, **kw)
        self.add_tlc(label, res, counts=False)
        if res.violated != invariant:
            raise Machinery('expected TLC to refute %s in %s/%s, got %r' % (invariant, module, cfg, res.violated))
        return res

    # -- verdicts
    def verdict(self, clause, ok, *, cls='', detail='', vector=None, sample=False):
        c = self.clauses.setdefault(clause, dict(n=0, bad=0, known=0))
        c['n'] += 1
        self.evaluations += 1
        if sample or (ok and len(self.samples) < 6 and c['n'] == 1):
            self.add_sample(dict(clause=clause, case=vector, ok=bool(ok)))
        if ok:
            return True
        kf = self.match_finding(clause, cls, vector)
        if kf is not None:
            c['known'] += 1
            h = self.known_hits.setdefault(kf['id'], dict(n=0, what=kf['what'], first=detail))
            h['n'] += 1
            return False
        c['bad'] += 1
        self.viol_classes[(clause, cls)] = self.viol_classes.get((clause, cls), 0) + 1
        if self.viol_classes[(clause, cls)] <= 3 and len(self.violations) < 60:
            self.violations.append(dict(clause=clause, cls=cls, detail=detail, vector=vector))
        return False

    def has_violations(self):
        return any(c['bad'] for c in self.clauses.values())

    def add_sample(self, s):
        if len(self.samples) < 12:
            self.samples.append(_jsonable(s))

    def match_finding(self, clause, cls, vector):
        for f in self.findings:
            if f.get('status') != 'known':
                continue
            if f.get('clause') and not re.fullmatch(f['clause'], clause):
                continue
            if f.get('cls') and not re.fullmatch(f['cls'], cls or ''):
                continue
            return f
        return None

    def note(self, s):
        self.notes.append(s)

    # -- finish
    def finish(self):
        wall = time.time() - self.t0
        nviol = sum(c['bad'] for c in self.clauses.values())
        for fid, h in sorted(self.known_hits.items()):
            print('KNOWN-FINDING: property=%s %s [%s; %d case(s) this run; e.g. %s]' %
                  (self.pid, h['what'], fid, h['n'], str(h['first'])[:200]))
        replay_path = None
        if nviol:
            os.makedirs(os.path.join(VERIF, 'replay'), exist_ok=True)
            replay_path = os.path.join(VERIF, 'replay', '%s-%s-%d.json' % (self.pid, self.tier, self.seed))
            with open(replay_path, 'w') as f:
                json.dump(_jsonable(dict(property=self.pid, tier=self.tier, seed=self.seed,
                                         violations=self.violations)), f, indent=1)
        if not self.replay_mode:
            self.write_evidence(wall, nviol)
        for c, d in sorted(self.clauses.items()):
            print('  clause %-34s cases=%-7d violations=%-5d known=%d' % (c, d['n'], d['bad'], d['known']))
        print('%s %s: states=%d transitions=%d traces=%d evaluations=%d wall=%.1fs' %
              (self.pid, self.tier, self.states, self.transitions, self.traces, self.evaluations, wall))
        if nviol:
            for (cl, cs), n in sorted(self.viol_classes.items()):
                print('  violation class %s [%s]: %d case(s)' % (cl, cs, n))
            for v in self.violations[:5]:
                print('  violated %s [%s]: %s' % (v['clause'], v['cls'], str(v['detail'])[:300]))
            print('VIOLATION property=%s replay=%s' % (self.pid, replay_path))
            return 1
        return 0

    def write_evidence(self, wall, nviol):
        if not self.samples:
            self.samples.append(dict(note='no sample recorded'))
        ev = dict(
            property_id=self.pid, tier=self.tier, seed=int(self.seed), level='model_checking',
            coverage=dict(
                states=int(self.states), transitions=int(self.transitions),
                traces_validated_against_impl=int(self.traces),
                samples=self.samples,
                evaluations=int(self.evaluations),
                exhaustive=bool(self.exhaustive),
                clauses={k: dict(cases=v['n'], violations=v['bad'], known_finding_cases=v['known'])
                         for k, v in sorted(self.clauses.items())},
                tlc_runs=self.tlc_runs,
                tlaps_obligations_proved=sum(r.get('obligations_proved', 0) for r in self.tlc_runs),
                bounds=self.bounds,
                known_findings_hit=sorted(self.known_hits),
                notes=self.notes,
            ),
            assumptions=self.assumptions,
            wall_s=round(wall, 2),
            violations=int(nviol),
        )
        os.makedirs(os.path.join(VERIF, 'evidence'), exist_ok=True)
        with open(os.path.join(VERIF, 'evidence', self.pid + '.json'), 'w') as f:
            json.dump(_jsonable(ev), f, indent=1)


def _jsonable(o):
    import numpy as np
    if isinstance(o, dict):
        return {str(k): _jsonable(v) for k, v in o.items()}
    if isinstance(o, (list, tuple)):
        return [_jsonable(v) for v in o]
    if isinstance(o, Fraction):
        return [o.numerator, o.denominator]
    if isinstance(o, np.ndarray):
        return _jsonable(o.tolist())
    if isinstance(o, (np.integer,)):
        return int(o)
    if isinstance(o, (np.floating, float)):
        x = float(o)
        if x != x:
            return 'nan'
        if x in (float('inf'), float('-inf')):
            return 'inf' if x > 0 else '-inf'
        return x
    if isinstance(o, (np.bool_,)):
        return bool(o)
    if isinstance(o, (str, int, bool)) or o is None:
        return o
    return repr(o)


def load_findings(pid):
    path = os.path.join(VERIF, 'known_findings.json')
    if not os.path.exists(path):
        return []
    with open(path) as f:
        data = json.load(f)
    return [x for x in data.get('findings', []) if x.get('property') == pid]


# ----------------------------------------------------------------------------
# trace validation helpers
# ----------------------------------------------------------------------------

def validate_trace(module, cfg, events, *, env=None, timeout=900, deque=False, workers=1):
    """Write events as ndjson, run the trace spec.  Returns (accepted, bad_ids, res).
    Trace specs print <<"BAD", json>> for every rejected event/trace id and
    <<"DONE", json>> with the number of consumed lines."""
    fd, path = tempfile.mkstemp(prefix='veriftrace_', suffix='.ndjson')
    with os.fdopen(fd, 'w') as f:
        for e in events:
            f.write(json.dumps(e, separators=(',', ':')) + '\n')
    try:
        ev = {'TRACE_FILE': path}
        if env:
            ev.update(env)
        res = run_tlc(module, cfg, workers=workers, env=ev, timeout=timeout, deque=deque, allow_violation=True)
    finally:
        os.unlink(path)
    bad = res.tagged('BAD')
    accepted = (res.rc == 0) and not res.postcondition_false and not res.violated and not bad
    return accepted, bad, res


def run_tlapm(module, timeout=900):
    """Check spec/proofs/<module>.tla with the TLA+ proof system (tlapm, SMT back end) in a scratch copy.
    Returns (obligations_proved, wall).  Anything but 'All N obligations proved' is a machinery failure:
    the proofs are about the specification, not about the implementation."""
    src = os.path.join(SPEC, 'proofs', module + '.tla')
    if not os.path.exists(src):
        raise Machinery('missing proof module %s' % src)
    d = tempfile.mkdtemp(prefix='tlapm_')
    t0 = time.time()
    try:
        shutil.copy(src, d)
        try:
            p = subprocess.run(['tlapm', '--toolbox', '0', '0', module + '.tla'], cwd=d, stdout=subprocess.PIPE,
                               stderr=subprocess.STDOUT, timeout=timeout, text=True)
        except FileNotFoundError:
            raise Machinery('tlapm not found on PATH')
        except subprocess.TimeoutExpired:
            raise Machinery('tlapm timeout after %ss on %s' % (timeout, module))
        m = re.search(r'All (\d+) obligations? proved', p.stdout)
        if p.returncode != 0 or not m:
            raise Machinery('tlapm could not prove %s:\n%s' % (module, p.stdout[-1500:]))
        return int(m.group(1)), time.time() - t0
    finally:
        shutil.rmtree(d, ignore_errors=True)



def int_scaled(x, S):
    m = int(round(float(x) * S))
    if abs(m) >= 2 ** 30:
        raise Machinery('scaled value does not fit 32-bit TLC ints: %r*%r' % (x, S))
    return m
