"""C10 -- two dimensions of the quantifier added in round 3 (bindings of spec/MC_MolMass.tla and spec/MC_PowerLaw.tla).

names:     WHICH gases are in the mixture and what the process was asked before.  TLC generates processes that build
           chemistry objects one after the other whose gas names coincide under a lossy normalisation (case folding,
           anagram, counts dropped, two-character prefix), reads every formula character by character and exports
           the composition and the exact mixture; the real TaurexChemistry objects are built in that order in this
           process and their mean molecular weight / the molecular masses are compared.
power law: WHICH of the four control values of PowerGas the user supplied (the others come from the table of known
           species) and by which route (constructor, fitting parameter, item, python property; before the first or
           between evaluations of one long-lived gas, alone or inside a TaurexChemistry).  TLC decides which value is in
           force for every coefficient; the profile must be one finite positive value per layer, at most the deep value
           in force, and equal to the profile of a fresh gas of a species WITHOUT table entry that is handed all four
           values in force explicitly.
"""
import random
from fractions import Fraction

import numpy as np

from .core import Machinery, frac, close

REL = 1e-12
RTOL = 1e-9


def _classes():
    from taurex.data.profiles.chemistry.taurexchemistry import TaurexChemistry
    from taurex.data.profiles.chemistry.gas.constantgas import ConstantGas
    from taurex.data.profiles.chemistry.gas.powergas import PowerGas
    return TaurexChemistry, ConstantGas, PowerGas


def _err(e):
    return '%s: %s' % (type(e).__name__, str(e)[:100])


# ----------------------------------------------------------------------------------------------------------------
# names (spec/MC_MolMass.tla)
# ----------------------------------------------------------------------------------------------------------------

def comp_mass(comp):
    """mass in amu of a TLC composition [[element, count], ..] with the repository's element table as data"""
    from taurex.util.util import mass as table
    tot = Fraction(0)
    for el, cnt in comp:
        if el not in table:
            raise Machinery('element %s not in the weight table' % el)
        tot += Fraction(repr(float(table[el]))) * int(cnt)
    return tot


def run_names_vector(ctx, v, rng, fill_mass):
    """one TLC behaviour: chemistry objects built one after the other in THIS process"""
    from taurex.constants import AMU
    from taurex.util import get_molecular_weight
    TaurexChemistry, ConstantGas, _ = _classes()
    ratio = frac(v['ratio'])
    keys = '+'.join(sorted(v['keys'])) or 'none'
    nobj = len(v['objs'])
    for k, o in enumerate(v['objs']):
        cls = 'names:%s:object%d-of-%d:ngas%d' % (keys, k + 1, nobj, len(o['names']))
        vec = dict(v, kind='names', at=k)
        ok = lambda clause, cond, detail='': ctx.verdict(clause, bool(cond), cls=cls, detail=detail, vector=vec)
        n = rng.choice([2, 3, 5])
        masses = list(fill_mass) + [comp_mass(c) for c in o['comps']]
        exp = [frac(m) for m in o['mix']]
        try:
            chem = TaurexChemistry(fill_gases=['H2', 'He'], ratio=float(ratio))
            for nm, a in zip(o['names'], o['ab']):
                chem.addGas(ConstantGas(nm, mix_ratio=float(frac(a))))
            chem.initialize_chemistry(n, np.linspace(1500.0, 900.0, n), np.logspace(6, 0, n), None)
            mix = np.asarray(chem.mixProfile, dtype=float)
            mu = np.asarray(chem.muProfile, dtype=float)
            gases = list(chem.gases)
        except Exception as e:       # a valid mixture (total 3/16 at most) that does not evaluate
            ok('one_row_per_gas', False, 'gases %r: %s' % (o['names'], _err(e)))
            continue
        if not ok('one_row_per_gas', mix.shape == (len(exp), n) and gases == ['H2', 'He'] + list(o['names']),
                  'shape %r gases %r' % (mix.shape, gases)):
            continue
        bad = [(g, l, mix[g, l], str(exp[g])) for g in range(len(exp)) for l in range(n)
               if not close(mix[g, l], float(exp[g]), rel=REL, abs_=1e-15)]
        ok('mix_value', not bad, 'first mismatch (gas, layer, got, exact) %r' % (bad[:1],))
        ok('sums_to_one', np.all(np.abs(mix.sum(axis=0) - 1.0) <= 1e-12), 'sums %r' % mix.sum(axis=0))
        mu_exp = float(sum(e * m for e, m in zip(exp, masses))) * AMU
        ok('mu_weighted_sum', mu.shape == (n,) and all(close(mu[l], mu_exp, rel=REL) for l in range(n)),
           'gases %r: mu %r amu, ratio-weighted sum of the molecular masses %r amu' % (gases, (mu / AMU)[:2], mu_exp / AMU))
        for nm, c in zip(o['names'], o['comps']):
            try:
                got = [get_molecular_weight(nm) / AMU, chem.get_molecular_mass(nm) / AMU]
            except Exception as e:
                got = [_err(e)]
            want = float(comp_mass(c))
            ctx.verdict('molecular_mass_formula', all(isinstance(g, float) and close(g, want, rel=REL) for g in got),
                        cls='molecule:%s:%s' % (nm, keys), detail='%s: got %r, formula read by the spec %r -> %r amu' % (nm, got, c, want),
                        vector=vec)


def run_names_vectors(ctx, vecs, fill_mass):
    """the behaviours are replayed in a seeded order: the process-global history differs from seed to seed"""
    order = list(vecs)
    random.Random(ctx.seed * 9176 + 31).shuffle(order)
    for k, v in enumerate(order):
        rs = v.get('rs', ctx.seed * 100003 + k)
        run_names_vector(ctx, dict(v, rs=rs), random.Random(rs), fill_mass)
    return len(order)


# ----------------------------------------------------------------------------------------------------------------
# power law (spec/MC_PowerLaw.tla)
# ----------------------------------------------------------------------------------------------------------------

KNOWN = ['H2', 'H2O', 'TiO', 'VO', 'H-', 'Na', 'K']           # species with tabulated coefficients (documented)
UNKNOWN = ['CH4', 'NH3', 'CO2']
KW = dict(s='mix_ratio_surface', a='alpha', b='beta', g='gamma')
SUFFIX = dict(s='surface', a='alpha', b='beta', g='gamma')
PROP = dict(s='mixRatioSurface', a='alpha', b='beta', g='gamma')
GRIDS = [(2, 6.0, 0.0), (3, 5.0, -1.0), (5, 6.0, -2.0), (7, 7.0, 1.0), (12, 6.0, -1.0), (40, 6.0, -4.0)]
TEMPS = [(1500.0, 800.0), (2000.0, 2000.0), (2800.0, 2200.0), (900.0, 2600.0)]


def table_of(ptype):
    """tabulated (alpha, beta, gamma, deep value) of a species: input data, read from the repository"""
    _, _, PowerGas = _classes()
    a, b, g, s = PowerGas('H2O').check_known(ptype)
    if None in (a, b, g, s):
        return None
    return dict(a=float(a), b=float(b), g=float(g), s=float(s))


def user_values(tab):
    """physical values of the value indices 1, 2 of the spec: on both sides of the tabulated value"""
    if tab is None:
        return dict(s=[1e-7, 2e-3], a=[0.8, 2.3], b=[1.5e4, 5.5e4], g=[6.0, 20.0])
    s = tab['s']
    return dict(s=[s * 10 ** -2.5, min(s * 10 ** 1.5, (s + 1.0) / 2.0)], a=[0.8, 2.3], b=[1.5e4, 5.5e4], g=[6.0, 20.0])


def run_power_vector(ctx, v, rng):
    TaurexChemistry, ConstantGas, PowerGas = _classes()
    known = v['known']
    if known:
        if rng.random() < 0.7:
            mol = rng.choice(KNOWN)
            ptype, tabkey, spc = 'auto', mol, 'known'
        else:
            mol, tabkey = rng.choice(UNKNOWN), rng.choice(KNOWN)
            ptype, spc = tabkey, 'known-type'
    else:
        mol = rng.choice(UNKNOWN)
        ptype, tabkey, spc = 'auto', mol, 'unknown'
    tab = table_of(tabkey)
    if (tab is not None) != known:
        raise Machinery('table of known power-law species: %s expected %s' % (tabkey, 'known' if known else 'unknown'))
    uv = user_values(tab)
    route = rng.choice(['fit', 'item', 'prop'])
    host = 'chem' if rng.random() < 0.3 else 'gas'
    vec = dict(v, kind='powerlaw', mol=mol, ptype=ptype, route=route, host=host, grids=[])
    kw = {KW[c]: uv[c][i - 1] for c, i in v['start'].items() if i}
    try:
        gas = PowerGas(mol, profile_type=ptype, **kw)
        chem = None
        if host == 'chem':
            chem = TaurexChemistry(fill_gases=['H2', 'He'] if mol != 'H2' else ['He', 'N2'], ratio=0.2)
            chem.addGas(ConstantGas('CO', mix_ratio=1e-4))
            chem.addGas(gas)
    except Exception as e:
        ctx.verdict('power_one_value_per_layer', False, cls='powerlaw:%s:construct' % spc, detail='constructor %r: %s' % (kw, _err(e)), vector=vec)
        return
    last = 'ctor'
    for e in v['log']:
        if e['op'] == 'write':
            c, val = e['c'], uv[e['c']][e['v'] - 1]
            name = '%s_%s' % (mol, SUFFIX[c])
            last = 'after-write-' + route
            try:
                if route == 'fit':
                    (chem or gas).fitting_parameters()[name][3](val)
                elif route == 'item':
                    gas[name] = val
                else:
                    setattr(gas, PROP[c], val)
            except Exception as ex:
                ctx.verdict('power_control_values_in_force', False, cls='powerlaw:%s:write:%s' % (spc, route),
                            detail='writing %s=%r raised %s' % (name, val, _err(ex)), vector=vec)
            continue
        eff = e['eff']
        nsup = sum(1 for c in eff if eff[c]['src'] == 'user')
        cls = 'powerlaw:%s:%s:%s:%s' % (spc, {0: 'all-tabulated', 4: 'all-supplied'}.get(nsup, 'partial'), last, host)
        gi, ti = rng.randrange(len(GRIDS)), rng.randrange(len(TEMPS))
        vec['grids'].append([gi, ti])
        n, pa, pb = GRIDS[gi]
        P, T = np.logspace(pa, pb, n), np.linspace(TEMPS[ti][0], TEMPS[ti][1], n)
        ok = lambda clause, cond, detail='': ctx.verdict(clause, bool(cond), cls=cls, detail=detail, vector=vec)
        err, prof = '', None
        try:
            if chem is not None:
                chem.initialize_chemistry(n, T, P, None)
            else:
                gas.initialize_profile(n, T, P, None)
            prof = np.array(gas.mixProfile, dtype=float)
        except Exception as ex:
            err = _err(ex)
        if e['st'] == 'rejected':      # no law is defined for these settings; the next evaluation of this object still counts
            continue
        vals = {c: (uv[c][eff[c]['idx'] - 1] if eff[c]['src'] == 'user' else tab[c]) for c in eff}
        what = '%s(profile_type=%s) %s, n=%d' % (mol, ptype, ', '.join('%s=%s:%g' % (c, eff[c]['src'], vals[c]) for c in 'sabg'), n)
        if not ok('power_one_value_per_layer', prof is not None and prof.shape == (n,) and np.all(np.isfinite(prof)),
                  '%s: %s' % (what, err or 'profile %r' % (prof,))):
            continue
        deep = vals['s']
        ok('power_at_most_deep_value', np.all(prof > 0.0) and np.all(prof <= deep * (1 + REL)),
           '%s: max of profile %r, deep-atmosphere value in force %r' % (what, float(prof.max()), deep))
        try:
            # a species WITHOUT table entry handed all four values: no table can leak into the reference
            ref = PowerGas(UNKNOWN[0], profile_type='auto', **{KW[c]: vals[c] for c in vals})
            ref.initialize_profile(n, T, P, None)
            rp = np.array(ref.mixProfile, dtype=float)
            same = rp.shape == prof.shape and all(close(prof[l], rp[l], rel=RTOL) for l in range(n))
            det = 'profile[0] %r, fresh gas given all four values in force %r' % (float(prof[0]), float(rp[0]) if rp.shape else rp)
        except Exception as ex:
            same, det = False, 'fresh gas with all four values: ' + _err(ex)
        ok('power_control_values_in_force', same, '%s: %s' % (what, det))
        if chem is not None:
            try:
                row = np.asarray(chem.mixProfile)[list(chem.gases).index(mol)]
                same = np.array_equal(row, prof)
            except Exception as ex:
                same = False
            ok('trace_untouched', same, '%s: row of the mixture differs from the gas profile' % what)


def run_power_vectors(ctx, vecs):
    for k, v in enumerate(vecs):
        rs = v.get('rs', ctx.seed * 100019 + k)
        run_power_vector(ctx, dict(v, rs=rs), random.Random(rs))
    return len(vecs)
