"""Fixtures for C03's layer-by-layer / opacity-mode dimension (spec/SourceLayers.tla).

 * doc_trans: the documented transmittance of a set of components, written once over any numeric type; it is
   validated against every vector TLC exports from SourceLayers (exact, Fractions) before it is used with floats;
 * a real 6-layer NON-isothermal transmission model whose sources realise an exported input class: every component
   has, per block of layers, either its base opacity or exactly none
     - molecular absorption (H2O, CH4): mixing-ratio profiles with exact zeros (ArrayGas), served from exact
       temperature/pressure dependent cross-sections or from pickle k-tables written here (opacity_method = ktables);
     - CIA pair H2-He: a table that covers only part of the temperatures of the atmosphere (rule 2 of
       CIA.compute_cia: zero outside its temperature grid); pair H2-N2: the partner N2 absent in some layers;
     - a grey haze slab (FlatMie between two pressure levels) or H- (free electrons absent in some layers).
Nothing here computes an expected value with the code under test."""
import math
import os
import shutil
import tempfile

import numpy as np

from taurex.cia.cia import CIA
from taurex.contributions import AbsorptionContribution, CIAContribution, FlatMieContribution
from taurex.contributions.hm import HydrogenIon
from taurex.data.profiles.chemistry import TaurexChemistry, ConstantGas
from taurex.data.profiles.chemistry.gas.arraygas import ArrayGas
from taurex.data.profiles.temperature.temparray import TemperatureArray

from .core import Machinery
from .fixtures import LayerOpacity
from . import fx_emission as fxe
from .fx_model import make_transmission, chord_table

NLR = 6
WN = np.array([800.0, 1600.0, 2400.0, 3200.0, 4000.0])
RT = [1500.0, 1400.0, 1300.0, 900.0, 800.0, 700.0]          # bottom -> top
BASEMIX = {'H2O': [1e-4, 2e-4, 1.5e-4, 3e-4, 1e-4, 2.5e-4],
           'CH4': [2e-4, 1e-4, 3e-4, 1.5e-4, 2.5e-4, 1e-4],
           'N2': [2e-2, 3e-2, 1e-2, 2.5e-2, 1.5e-2, 3e-2],
           'e-': [2e-5, 1e-5, 3e-5, 2e-5, 1e-5, 3e-5]}
XS = {'H2O': 3e-27, 'CH4': 1e-27}
SHAPE = {'H2O': np.array([1.0, 0.3, 2.0, 0.7, 1.5]), 'CH4': np.array([0.2, 1.7, 0.4, 1.1, 0.9])}
CIA_BASE = {'H2-He': 4e-54 * np.array([1.0, 1.4, 0.6, 1.2, 0.8]), 'H2-N2': 6e-53 * np.array([0.7, 1.1, 1.6, 0.5, 1.3])}
# temperature range of the H2-He table per support pattern (deep block 1300..1500 K, upper block 700..900 K)
TRANGE = {(1, 1): (600.0, 1600.0), (0, 1): (600.0, 1000.0), (1, 0): (1200.0, 1600.0), (0, 0): (2000.0, 3000.0)}
HAZE = 3e-31
SLAB_LEVEL = 10.0 ** 2.5          # pressure level between the two blocks of a 6-layer 1e5..1 Pa atmosphere
# k-table quadrature of the real fixtures per k-configuration of the spec: (weights, multipliers)
KREAL = {'degenerate': ([0.1, 0.4, 0.3, 0.2], [1.0, 1.0, 1.0, 1.0]),
         'generic': ([0.1, 0.4, 0.3, 0.2], [0.0, 0.2, 1.5, 6.0])}


def xsec_T(gas):
    def f(T, P):
        return XS[gas] * SHAPE[gas] * (P / 1e3) ** 0.25 * (T / 1000.0) ** 0.5       # m^2, exact per layer
    return f


def kcoef(gas, kname):
    """k[w][g] in m^2 (constant over the table's pressure / temperature nodes: interpolation is the identity)"""
    mult = np.array(KREAL[kname][1])
    return 2.0 * XS[gas] * SHAPE[gas][:, None] * mult[None, :]


class RangeCIA(CIA):
    """A pair given on [tmin, tmax]; outside of its temperature grid the table is zero (rule 2 of the interface)."""

    def __init__(self, pair, tmin, tmax):
        super().__init__('RangeCIA', pair)
        self._t = np.array([tmin, tmax])
        self._base = CIA_BASE[pair]

    wavenumberGrid = property(lambda s: WN)
    temperatureGrid = property(lambda s: s._t)

    def value(self, temperature):
        if temperature < self._t[0] or temperature > self._t[-1]:
            return np.zeros_like(WN)
        return self._base * (temperature / 1000.0) ** 0.5

    def compute_cia(self, temperature):
        return self.value(temperature)


# ----------------------------------------------------------------------------
# the documented formula (validated against TLC, then used with floats)
# ----------------------------------------------------------------------------

def doc_trans(comps, seg, weights=None, expneg=None):
    """comps: component tables A[k][w] (weights None) or A[k][w][g]; seg[j][i] the i-th chord segment of the ray
    tangent in layer j (it crosses layer j+i).  T[j][w] of the components taken together."""
    n = len(seg)
    nw = len(comps[0][0])
    out = []
    for j in range(n):
        row = []
        for w in range(nw):
            if weights is None:
                t = 0
                for A in comps:
                    for k in range(j, n):
                        t = t + A[k][w] * seg[j][k - j]
                row.append(expneg(t))
            else:
                acc = 0
                for g in range(len(weights)):
                    t = 0
                    for A in comps:
                        for k in range(j, n):
                            t = t + A[k][w][g] * seg[j][k - j]
                    acc = acc + weights[g] * expneg(t)
                row.append(acc / sum(weights))
        out.append(row)
    return out


def validate_evaluator(vectors):
    """doc_trans == the spec's exact values on every exported vector (sources, components, the whole model)."""
    from fractions import Fraction
    ex = lambda t: Fraction(1, 2 ** t)
    fr = lambda p: Fraction(p[0], p[1])
    for v in vectors:
        a, kc, seg2 = v['a'], v['kc'], v['seg2']
        nl = len(a[0][0])
        seg = [[1 if i == 0 else seg2 for i in range(nl - j)] for j in range(nl)]
        total = [[Fraction(1)] for _ in range(nl)]
        for s, comps in enumerate(a):
            isk = v['mode'] == 'ktables' and s == 0
            if isk:
                tabs = [[[[m * x for m in kc['mul']]] for x in c] for c in comps]
                wts = [Fraction(x) for x in kc['w']]
            else:
                tabs = [[[x] for x in c] for c in comps]
                wts = None
            got = doc_trans(tabs, seg, wts, ex)
            want = [[fr(p)] for p in v['out']['src'][s]]
            if got != want:
                raise Machinery('harness evaluator disagrees with SourceLayers on source %d of %r: %r vs %r' % (s + 1, v, got, want))
            for c in range(len(comps)):
                gotc = doc_trans([tabs[c]], seg, wts, ex)
                if gotc != [[fr(p)] for p in v['out']['comp'][s][c]]:
                    raise Machinery('harness evaluator disagrees with SourceLayers on component %d/%d of %r' % (s + 1, c + 1, v))
            total = [[total[j][0] * got[j][0]] for j in range(nl)]
        if total != [[fr(p)] for p in v['out']['all']]:
            raise Machinery('harness evaluator: product over sources disagrees with SourceLayers on %r' % (v,))


# ----------------------------------------------------------------------------
# opacity environment (cross-sections | k-tables)
# ----------------------------------------------------------------------------

class OpacityEnv:
    """mode 'xsec': exact T/P dependent cross-sections in OpacityCache; mode 'ktables': pickle k-tables of the
    k-configuration `kname` in a private directory.  leave() restores the global opacity mode."""

    def __init__(self):
        self.root = tempfile.mkdtemp(prefix='verif_c03k_')
        self.dirs = {}
        from taurex.cache import GlobalCache
        self.prev = (GlobalCache()['opacity_method'], GlobalCache()['ktable_path'])

    def kdir(self, kname, kscale=None):
        """kscale: {gas: factor} -- the whole table of a gas times a factor (abundance-magnitude classes)"""
        key = (kname, tuple(sorted((kscale or {}).items())))
        if key not in self.dirs:
            d = os.path.join(self.root, '%s_%d' % (kname, len(self.dirs)))
            os.makedirs(d)
            w = KREAL[kname][0]
            for gas in ('H2O', 'CH4'):
                k = np.broadcast_to(kcoef(gas, kname)[None, None] * 1e4 * (kscale or {}).get(gas, 1.0), (2, 2, len(WN), len(w)))     # cm^2
                fxe.write_pickle_ktable(d, gas, WN, [50.0, 5000.0], [1e-3, 1e7], k, w)
            self.dirs[key] = d
        return self.dirs[key]

    def enter(self, mode, kname=None, xsec=None, kscale=None):
        from taurex.cache import OpacityCache
        if mode == 'ktables':
            fxe.set_mode('ktables', self.kdir(kname, kscale))
        else:
            fxe.set_mode('xsec')
            OpacityCache().clear_cache()
            for g in ('H2O', 'CH4'):
                OpacityCache().add_opacity(LayerOpacity(g, WN, (xsec or xsec_T)(g)))

    def leave(self):
        from taurex.cache import GlobalCache
        from taurex.cache.ktablecache import KTableCache
        GlobalCache()['opacity_method'] = self.prev[0]
        GlobalCache()['ktable_path'] = self.prev[1]
        KTableCache().clear_cache()
        shutil.rmtree(self.root, ignore_errors=True)


# ----------------------------------------------------------------------------
# a real model realising an input class
# ----------------------------------------------------------------------------

def expand(pat):
    """spec layers (blocks) -> the 6 real layers"""
    nl = len(pat)
    return [pat[k * nl // NLR] for k in range(NLR)]


class LayerClass:
    """One exported input class (support pattern of every component) on the real model."""
    SRC = ('abs', 'cia', 'third')

    def __init__(self, a, mode, kname, third):
        self.a = [[tuple(c) for c in s] for s in a]
        self.mode, self.kname, self.third = mode, kname, third
        self.tag = '%s%s:%s:%s' % (mode, (':' + kname) if kname else '',
                                   '/'.join(','.join(''.join(str(x) for x in c) for c in s) for s in self.a), third)
        self.prof = {'H2O': self._p('H2O', self.a[0][0]), 'CH4': self._p('CH4', self.a[0][1]),
                     'N2': self._p('N2', self.a[1][1])}
        if third == 'hm':
            self.prof['e-'] = self._p('e-', self.a[2][0])
        self.cia = {'H2-He': RangeCIA('H2-He', *TRANGE[self.a[1][0]]), 'H2-N2': RangeCIA('H2-N2', 100.0, 4000.0)}

    @staticmethod
    def _p(gas, pat):
        return [b * x for b, x in zip(BASEMIX[gas], expand(pat))]

    def install(self):
        from taurex.cache import CIACache
        for pair, c in self.cia.items():      # add_cia() refuses to replace a pair
            CIACache().cia_dict[pair] = c

    def contribution(self, s):
        if s == 'abs':
            return AbsorptionContribution()
        if s == 'cia':
            return CIAContribution(cia_pairs=['H2-He', 'H2-N2'])
        if self.third == 'hm':
            return HydrogenIon()
        pat = self.a[2][0]
        return FlatMieContribution(flat_mix_ratio=HAZE if any(pat) else 0.0,
                                   flat_bottomP=-1 if pat[0] else SLAB_LEVEL, flat_topP=-1 if pat[-1] else SLAB_LEVEL)

    def build(self, sources):
        self.install()
        chem = TaurexChemistry(fill_gases=['H2', 'He'], ratio=0.17)
        for g in ('H2O', 'CH4', 'N2'):
            chem.addGas(ArrayGas(g, mix_ratio_array=list(self.prof[g])))
        if self.third == 'hm':
            chem.addGas(ConstantGas('H', mix_ratio=5e-2))
            chem.addGas(ArrayGas('e-', mix_ratio_array=list(self.prof['e-'])))
        m = make_transmission(NLR, chemistry=chem, temperature=TemperatureArray(tp_array=list(RT)), pmin=1e0, pmax=1e5)
        for s in sources:
            m.add_contribution(self.contribution(s))
        m.build()
        return m

    def name_of(self, s):
        return dict(abs='Absorption', cia='CIA', third='HydrogenIon' if self.third == 'hm' else 'Mie')[s]

    def components_of(self, s):
        return dict(abs=['H2O', 'CH4'], cia=['H2-He', 'H2-N2'], third=['HydrogenIon' if self.third == 'hm' else 'Flat'])[s]

    # -- documented weighting from the fixtures, layer by layer
    def atmosphere(self, m):
        chem = m.chemistry
        mix = {g: np.asarray(chem.get_gas_mix_profile(g), dtype=float) for g in ('H2O', 'CH4', 'N2', 'H2', 'He')}
        for g in ('H2O', 'CH4', 'N2'):
            want = np.array(self.prof[g])
            if not (mix[g].shape == want.shape and np.all(np.abs(mix[g] - want) <= 1e-12 * want) and np.all((mix[g] == 0) == (want == 0))):
                raise Machinery('fixture: mixing profile of %s not reproduced: %r vs %r' % (g, mix[g], want))
        T = np.asarray(m.temperatureProfile, dtype=float)
        if not np.allclose(T, RT, rtol=1e-12):
            raise Machinery('fixture: temperature profile not reproduced: %r' % (T,))
        r = (m.planet.fullRadius + np.asarray(m.altitude_boundaries)).tolist()
        return dict(mix=mix, T=T, P=np.asarray(m.pressureProfile, dtype=float), n=np.asarray(m.densityProfile, dtype=float),
                    seg=chord_table(r, 'old'))

    def tables(self, s, at, dens=True):
        """-> (list of component tables A[k][w] or A[k][w][g], weights or None); None when the source has no
        fixture formula (H-).  dens=False: the weighted opacity itself (cross-section x mixing ratio(s)), without the
        density factor of the optical depth"""
        n, mix, T, P = (at['n'] if dens else np.ones(NLR)), at['mix'], at['T'], at['P']
        if s == 'abs':
            if self.mode == 'ktables':
                w = KREAL[self.kname][0]
                return [[(kcoef(g, self.kname) * mix[g][k] * n[k]).tolist() for k in range(NLR)] for g in ('H2O', 'CH4')], w
            return [[(xsec_T(g)(T[k], P[k]) * mix[g][k] * n[k]).tolist() for k in range(NLR)] for g in ('H2O', 'CH4')], None
        if s == 'cia':
            out = []
            for pair, (g1, g2) in (('H2-He', ('H2', 'He')), ('H2-N2', ('H2', 'N2'))):
                out.append([(self.cia[pair].value(T[k]) * mix[g1][k] * mix[g2][k] * n[k] ** 2).tolist() for k in range(NLR)])
            return out, None
        if self.third == 'flat':
            inslab = expand(self.a[2][0])
            return [[(np.full(len(WN), HAZE * inslab[k] * n[k])).tolist() for k in range(NLR)]], None
        return None, None


def expneg(t):
    return math.exp(-t)
