"""C20 over histories (spec/KTableHistory.tla, spec/Functional.tla, the `twin` event of Trace_KTable.tla).

Long-lived k-table objects and long-lived forward models are evaluated again and again -- on another requested
wavenumber grid (the full grid, runs of native points of the same length at different positions, the same start
with another length, the same end points at another density, points between native points, points beyond the
native range), at another temperature / pressure, after a mixing ratio or a temperature parameter changed, under
the other opacity mode, after another directory of tables was selected -- and every evaluation
  * must equal the evaluation of a freshly loaded / freshly built object (history.run_history), and
  * is paired with its cross-section twin (the same numbers served as cross-sections): `observe` returns both
    and logs one `twin` event per evaluation, validated by TLC (equality for degenerate tables; unit interval and
    Jensen bound against the weight-averaged coefficient for generic tables in transmission).
Every object OWNS the table / cross-section objects it has loaded: they are put into the cache singletons through
their public API (clear_cache / add_opacity) for the object's own evaluations only, so that building the fresh
reference never resets what the long-lived object carries.
Nothing here computes an expected value with the function under test."""
import math
import os
import pickle
import traceback

import numpy as np

from . import fx_emission as fx
from . import history
from .core import Machinery

CAP = 2 ** 30
S_T = 10 ** 9
EXP_M10 = math.exp(-10.0)


# ----------------------------------------------------------------------------
# grids, windows, tables
# ----------------------------------------------------------------------------

def uniform_native(n=41, start=600.0, step=100.0):
    return start + step * np.arange(n)


def geometric_native(n=37, start=500.0, ratio=1.06):
    return np.round(start * ratio ** np.arange(n), 6)


class Win:
    """A requested wavenumber grid (None: no grid passed); `label` is what the evidence shows."""

    def __init__(self, label, grid):
        self.label = label
        self.grid = None if grid is None else np.array(grid, dtype=float)

    def __repr__(self):
        return self.label


def run_of(native, start, npts, step=1):
    g = native[start:start + npts * step:step]
    return Win('native[%d:+%d%s]' % (start, npts, '' if step == 1 else ':%d' % step), g)


def between(native, start, npts):
    g = 0.5 * (native[start:start + npts] + native[start + 1:start + npts + 1])
    return Win('between[%d:+%d]' % (start, npts), g)


def linwin(lo, hi, n):
    return Win('lin[%g..%g]x%d' % (lo, hi, n), np.linspace(lo, hi, n))


FULL = Win('full', None)


def collisions(windows):
    """which under-keyed memo classes of spec/KTableHistory.tla a set of windows can expose"""
    out = set()
    ws = [w for w in windows if w.grid is not None]
    for i, a in enumerate(ws):
        for b in ws[i + 1:]:
            if np.array_equal(a.grid, b.grid):
                continue
            if len(a.grid) == len(b.grid):
                out.add('size')
            if a.grid[0] == b.grid[0]:
                out.add('first')
            if a.grid[0] == b.grid[0] and a.grid[-1] == b.grid[-1]:
                out.add('ends')
    if any(w.grid is None for w in windows):
        out.add('full')
    return out


def coefficients(native, seed, npress=4, ntemp=4):
    """Band-like coefficients x[P, T, wn] in cm^2: every window of a few native points has transparent and opaque
    wavenumbers for the model atmospheres below; they depend on pressure and temperature."""
    rs = np.random.RandomState(2020 + seed)
    press = np.logspace(1, 6, npress)                       # Pa
    temps = np.array([300.0, 900.0, 1500.0, 2400.0][:ntemp])
    idx = np.arange(native.shape[0])
    band = 10 ** (-25.3 + 3.6 * np.sin(idx / (1.9 + 0.35 * seed)) ** 2 + 0.3 * rs.uniform(-1, 1, native.shape[0]))
    x = band[None, None, :] * (1.0 + 0.5 * np.arange(npress)[:, None, None]) * (1.0 + 0.3 * np.arange(ntemp)[None, :, None])
    return press, temps, x


class TableSet:
    """<root>/set<idx>/k: pickle k-tables, <root>/set<idx>/x: the twin numbers as pickle cross-sections
    (degenerate: the common value; generic: the weight-averaged coefficient)."""

    def __init__(self, root, idx, grids, weights, spread):
        self.idx = idx
        self.kdir = os.path.join(root, 'set%d' % idx, 'k')
        self.xdir = os.path.join(root, 'set%d' % idx, 'x')
        os.makedirs(self.kdir)
        os.makedirs(self.xdir)
        self.weights = np.array(weights, dtype=float)
        if abs(self.weights.sum() - 1.0) > 1e-15:
            raise Machinery('weights of table set %d do not sum to one' % idx)
        self.ng = len(weights)
        self.degenerate = spread == 0
        self.grids = {m: np.array(g, dtype=float) for m, g in grids.items()}
        for j, (mol, native) in enumerate(sorted(self.grids.items())):
            press, temps, x = coefficients(native, 3 * idx + j)
            k = np.repeat(x[..., None], self.ng, axis=-1)
            if spread > 0:
                k = k * 10 ** (spread * (np.linspace(0.0, 1.0, self.ng) - 0.5))[None, None, None, :]
                xs = np.tensordot(k, self.weights, axes=([3], [0]))
            else:
                xs = x
            fx.write_pickle_ktable(self.kdir, mol, native, temps, press, k, self.weights)
            with open(os.path.join(self.xdir, '%s.R100.pickle' % mol), 'wb') as f:
                pickle.dump(dict(t=temps, p=press / 1e5, name=mol, wno=np.array(native), xsecarr=xs), f)
        self.tmin, self.tmax = 300.0, 2400.0

    def __repr__(self):
        return 'set%d(ng=%d,%s)' % (self.idx, self.ng, 'degenerate' if self.degenerate else 'generic')


def use_paths(ts, mode):
    """the global settings a user changes: paths of both kinds of tables and the opacity mode (no cache is emptied)"""
    from taurex.cache import GlobalCache
    gc = GlobalCache()
    gc['ktable_path'] = ts.kdir
    gc['xsec_path'] = ts.xdir
    gc['opacity_method'] = mode


def install(ktabs, xops):
    """make the cache singletons hold exactly the objects this holder has loaded so far"""
    from taurex.cache import OpacityCache
    from taurex.cache.ktablecache import KTableCache
    kc, oc = KTableCache(), OpacityCache()
    kc.clear_cache()
    oc.clear_cache()
    for o in ktabs.values():
        kc.add_opacity(o)
    for o in xops.values():
        oc.add_opacity(o)
    return kc, oc


# ----------------------------------------------------------------------------
# twin events
# ----------------------------------------------------------------------------

class TwinLog:
    def __init__(self, ctx):
        self.ctx = ctx
        self.events = []          # (event, cls, detail, vector)
        self.licensed = 0
        self.raised = 0

    def add(self, ev, cls, detail, vec):
        ev = dict(ev, ev='twin')
        self.events.append((ev, cls, detail, vec))

    def code_raised(self, ex, cls, vec):
        """the code under test raised on a valid configuration: a violation; the harness raised: machinery"""
        if isinstance(ex, Machinery):
            raise ex
        tb = traceback.extract_tb(ex.__traceback__)
        if '/harness/' in tb[-1].filename:
            raise Machinery('history scenario failed inside the harness: %r\n%s' % (ex, ''.join(traceback.format_tb(ex.__traceback__)[-3:])))
        self.raised += 1
        self.ctx.verdict('evaluates_without_error', False, cls=cls,
                         detail='%s: %s at %s:%s' % (type(ex).__name__, ex, os.path.basename(tb[-1].filename), tb[-1].name), vector=vec)


def reldev(a, b):
    """largest relative difference in units of 1e-12 (capped); shapes must agree"""
    a, b = np.asarray(a, dtype=float), np.asarray(b, dtype=float)
    if a.shape != b.shape or a.size == 0 or not (np.all(np.isfinite(a)) and np.all(np.isfinite(b))):
        return CAP
    den = np.maximum(np.abs(b), 1e-300)
    return int(min(CAP, math.ceil(float(np.max(np.abs(a - b) / den)) * 1e12)))


def absdev(a, b):
    a, b = np.asarray(a, dtype=float), np.asarray(b, dtype=float)
    if a.shape != b.shape or a.size == 0 or not (np.all(np.isfinite(a)) and np.all(np.isfinite(b))):
        return CAP
    return int(min(CAP, math.ceil(float(np.max(np.abs(a - b))) * 1e12)))


class Holder:
    def __init__(self, init):
        self.init = [repr(v) for v in init]
        self.trail = []
        self.ktabs, self.xops = {}, {}

    def vector(self, scenario):
        return dict(history=scenario, init=list(self.init), trail=list(self.trail), twin=True)


# ----------------------------------------------------------------------------
# object level: KTable.opacity(T, P, wngrid) on one loaded table object
# ----------------------------------------------------------------------------

class TableScenario(history.Scenario):
    """settings: requested grid, temperature, pressure (arguments of KTable.opacity / Opacity.opacity)"""

    def __init__(self, name, log, ts, mol, windows, temps, press):
        self.name, self.log, self.ts, self.mol = name, log, ts, mol
        self.dims = [list(windows), list(temps), list(press)]
        self.evals = 0

    def fresh(self, values):
        from taurex.cache import OpacityCache
        from taurex.cache.ktablecache import KTableCache
        h = Holder(values)
        h.cfg = list(values)
        use_paths(self.ts, 'ktables')
        install({}, {})
        h.kt = KTableCache()[self.mol]          # loaded from ktable_path by the cache, as a model does
        h.xo = OpacityCache()[self.mol]
        install({}, {})
        return h

    def set(self, h, d, value, values):
        h.cfg[d] = value
        h.trail.append('set%d=%r' % (d, value))

    def observe(self, h):
        win, T, P = h.cfg
        h.trail.append('eval')
        vec = h.vector(self.name)
        cls = '%s:%r:%s' % (self.name, self.ts, win.label)
        try:
            k = h.kt.opacity(T, P, None if win.grid is None else np.array(win.grid))
            x = h.xo.opacity(T, P, None if win.grid is None else np.array(win.grid))
        except Exception as ex:
            self.log.code_raised(ex, cls, vec)
            raise
        k, x = np.asarray(k, dtype=float), np.asarray(x, dtype=float)
        self.evals += 1
        nreq = len(self.ts.grids[self.mol]) if win.grid is None else len(win.grid)
        if self.ts.degenerate:
            ok_shape = k.ndim == 2 and x.ndim == 1 and k.shape[0] == x.shape[0]
            dev = max(reldev(k[:, g], x) for g in range(k.shape[1])) if ok_shape else CAP
            self.log.add(dict(rel='equal', nk=int(k.shape[0]), nx=int(x.shape[0]), nreq=nreq, gdev=0,
                              ng=int(k.shape[1]) if k.ndim == 2 else 0, ngw=self.ts.ng, dev=dev, slack=0, lo=0, tmin=0, tmax=0, S=S_T),
                         cls, 'T=%g P=%g: k-table %r vs cross-section %r' % (T, P, k[:3].tolist(), x[:3].tolist()), vec)
        return dict(k=k, x=x)


# ----------------------------------------------------------------------------
# model level: model(wngrid=..) of a long-lived forward model and its twin
# ----------------------------------------------------------------------------

OTHER = {'ktables': 'xsec', 'xsec': 'ktables'}


class ModelScenario(history.Scenario):
    """settings (<= 3) among: 'window' (grid passed to model(wngrid=..)), 'mode' (the global opacity_method under
    which the primary long-lived model is evaluated; its long-lived twin is evaluated under the other one),
    'T' (temperature-profile parameter), 'mix' (mixing ratio of the first molecule), 'mix2', 'kset'."""
    NLAYERS = 6

    def __init__(self, name, log, kind, settings, values, defaults):
        self.name, self.log, self.kind = name, log, kind
        self.settings = list(settings)
        self.dims = [list(values[s]) for s in self.settings]
        self.defaults = dict(defaults)
        self.evals = 0
        self.clip = {}

    def _cfg(self, values):
        c = dict(self.defaults)
        c.update(dict(zip(self.settings, values)))
        return c

    def _build(self, c, mode):
        from taurex.model import EmissionModel, DirectImageModel, TransmissionModel
        from taurex.chemistry import TaurexChemistry, ConstantGas
        from taurex.temperature import NPoint, Isothermal
        from taurex.contributions import AbsorptionContribution
        from taurex.planet import Planet
        from taurex.stellar import BlackbodyStar
        use_paths(c['kset'], mode)
        chem = TaurexChemistry(fill_gases=['H2', 'He'], ratio=0.17)
        mols = sorted(c['kset'].grids)
        chem.addGas(ConstantGas(mols[0], c['mix']))
        if len(mols) > 1:
            chem.addGas(ConstantGas(mols[1], c['mix2']))
        if self.kind == 'transmission':
            tp = Isothermal(T=c['T'])
        else:
            tp = NPoint(T_surface=c['T'], T_top=0.5 * self.defaults['T'])
        kw = dict(planet=Planet(planet_mass=1.0, planet_radius=1.0), star=BlackbodyStar(temperature=5500.0, radius=0.9),
                  chemistry=chem, temperature_profile=tp, nlayers=self.NLAYERS, atm_min_pressure=1e1, atm_max_pressure=1e6)
        if self.kind == 'emission':
            m = EmissionModel(ngauss=3, **kw)
        elif self.kind == 'direct':
            m = DirectImageModel(ngauss=2, **kw)
        else:
            m = TransmissionModel(**kw)
        m.add_contribution(AbsorptionContribution())
        m.build()
        return m

    def fresh(self, values):
        c = self._cfg(values)
        h = Holder(values)
        h.cfg = c
        install({}, {})
        h.m = self._build(c, c['mode'])                # primary: constructed under the mode it is first used in
        h.t = self._build(c, OTHER[c['mode']])         # twin: the other mode
        return h

    def set(self, h, d, value, values):
        s = self.settings[d]
        h.cfg[s] = value
        h.trail.append('set%d=%r' % (d, value))
        if s == 'T':
            for m in (h.m, h.t):
                m['T' if self.kind == 'transmission' else 'T_surface'] = value
        elif s == 'mix':
            for m in (h.m, h.t):
                m[sorted(h.cfg['kset'].grids)[0]] = value
        elif s == 'mix2':
            for m in (h.m, h.t):
                m[sorted(h.cfg['kset'].grids)[1]] = value
        elif s == 'kset':          # another directory of tables: the user points the paths there and empties the caches
            h.ktabs, h.xops = {}, {}
        # 'window' is an argument of model(); 'mode' is the global setting, applied at the evaluation

    def observe(self, h):
        c = h.cfg
        ts, win = c['kset'], c['window']
        h.trail.append('eval')
        vec = h.vector(self.name)
        cls = '%s:%r:%s' % (self.name, ts, win.label)
        km, xm = (h.m, h.t) if c['mode'] == 'ktables' else (h.t, h.m)
        kc, oc = install(h.ktabs, h.xops)
        grid = None if win.grid is None else np.array(win.grid)
        try:
            try:
                use_paths(ts, 'ktables')
                gk, yk, tk, _ = km.model(wngrid=grid)
                use_paths(ts, 'xsec')
                gx, yx, tx, _ = xm.model(wngrid=grid)
            finally:
                h.ktabs, h.xops = dict(kc.opacity_dict), dict(oc.opacity_dict)
                install({}, {})
        except Exception as ex:
            self.log.code_raised(ex, cls, vec)
            raise
        gk, yk, tk = np.array(gk, dtype=float), np.array(yk, dtype=float), np.array(tk, dtype=float)
        gx, yx, tx = np.array(gx, dtype=float), np.array(yx, dtype=float), np.array(tx, dtype=float)
        self.evals += 1
        self.clip.setdefault(ts.idx, {})[win.label] = len(gk)
        ev = dict(nk=len(gk), nx=len(gx), nreq=0, gdev=absdev(gk, gx) if gk.shape == gx.shape else CAP,
                  ng=ts.ng, ngw=int(len(np.atleast_1d(h.ktabs[sorted(ts.grids)[0]].weights))),
                  dev=0, slack=0, lo=0, tmin=0, tmax=0, S=S_T)
        ev['gdev'] = min(CAP, int(math.ceil(ev['gdev'] / 1e3)))          # units of 1e-9 cm-1
        detail = 'mode of the primary model %s; k-table %r vs cross-section %r' % (c['mode'], yk[:3].tolist(), yx[:3].tolist())
        if ts.degenerate:
            ev['rel'] = 'equal'
            if self.kind == 'transmission':
                ev['dev'] = max(reldev(yk, yx), absdev(tk, tx))
            else:
                ev['dev'] = reldev(yk, yx)
                # licensed: the cross-section emission branch zeroes transmittances once the optical depth is >= 10 at
                # EVERY wavenumber of the evaluated grid; the k-table branch does not
                col = np.sum(np.asarray(xm.contribution_list[0].sigma_xsec) *
                             (np.asarray(xm.densityProfile) * np.asarray(xm.deltaz))[:, None], axis=0)
                if col.min() >= 10.0 - 1e-6:
                    tt = np.asarray(xm.temperatureProfile, dtype=float)
                    ratio = max(fx.planck_b(w, tt.max()) / fx.planck_b(w, tt.min()) for w in gx)
                    ev['slack'] = int(min(CAP, math.ceil(self.NLAYERS * EXP_M10 * ratio * 1e12)))
                    self.log.licensed += 1
            self.log.add(ev, cls, detail, vec)
        elif self.kind == 'transmission' and tk.shape == tx.shape and tk.size:
            ev['rel'] = 'jensen'
            ev['lo'] = int(max(-CAP, min(CAP, math.floor(float(np.min(tk - tx)) * S_T))))
            ev['tmin'] = int(max(-CAP, min(CAP, math.floor(float(tk.min()) * S_T))))
            ev['tmax'] = int(max(-CAP, min(CAP, math.ceil(float(tk.max()) * S_T))))
            self.log.add(ev, cls, detail + '; min(Tk - Tx) = %r' % float(np.min(tk - tx)), vec)
        return dict(grid_k=gk, k=yk, tau_k=tk, grid_x=gx, x=yx, tau_x=tx)


# ----------------------------------------------------------------------------
# the scenarios
# ----------------------------------------------------------------------------

def scenarios(ctx, root, log, thorough=False):
    un = uniform_native()
    ge = geometric_native()
    coarse = uniform_native(n=21, start=650.0, step=190.0)
    W4 = [0.05, 0.15, 0.3, 0.5]
    A = TableSet(root, 0, {'H2O': un}, W4, 0.0)                                   # degenerate, uniform grid
    B = TableSet(root, 1, {'H2O': un}, [0.4, 0.3, 0.2, 0.1], 2.0)                 # generic, same number of points, other weights
    other = uniform_native(n=33, start=650.0, step=120.0)
    C = TableSet(root, 2, {'H2O': other}, [0.25, 0.25, 0.5], 0.0)                 # degenerate, 3 points, another native grid
    G = TableSet(root, 3, {'H2O': ge}, [2.0 / 3.0, 1.0 / 3.0], 0.0)               # degenerate, constant-resolution grid
    D = TableSet(root, 4, {'H2O': un, 'CH4': coarse}, W4, 0.0)                    # two molecules on different native grids
    Tn, Pn = [900.0, 1234.5, 2100.0], [1e3, 3.7e4, 1e6]
    # object level
    sc = [TableScenario('table:runs', log, G, 'H2O', [run_of(ge, 4, 9), run_of(ge, 20, 9), run_of(ge, 4, 15)], Tn, Pn),
          TableScenario('table:between', log, G, 'H2O', [between(ge, 3, 7), between(ge, 18, 7), run_of(ge, 3, 7)], Tn, Pn),
          TableScenario('table:density', log, A, 'H2O', [run_of(un, 5, 9), run_of(un, 5, 5, 2), FULL], Tn, Pn),
          TableScenario('table:generic', log, B, 'H2O', [run_of(un, 8, 6), run_of(un, 25, 6), linwin(450.0, 1150.0, 6)], Tn, Pn)]
    # model level
    Wrun = [run_of(un, 4, 8), run_of(un, 24, 8), run_of(un, 4, 14)]
    Wfull = [FULL, run_of(un, 6, 10), run_of(un, 27, 10)]
    Wlin = [linwin(1030.0, 1970.0, 9), linwin(3030.0, 3970.0, 9), linwin(1030.0, 1970.0, 5)]
    MODES = ['ktables', 'xsec']
    Tt, Te = [800.0, 1300.0, 1900.0], [1100.0, 1500.0, 2000.0]
    MIX, MIX2 = [2e-4, 1e-5, 3e-3], [5e-5, 1e-3, 1e-6]
    V = dict(mode=MODES, mix=MIX, mix2=MIX2, kset=[A, B, C])
    dflt = dict(window=Wrun[0], mode='ktables', T=1300.0, mix=2e-4, mix2=5e-5, kset=A)
    M = ModelScenario
    sc += [M('transmission:windows', log, 'transmission', ['window', 'mode', 'T'], dict(V, window=Wrun, T=Tt), dflt),
           M('emission:windows', log, 'emission', ['window', 'mode', 'mix'], dict(V, window=Wfull), dict(dflt, T=1500.0)),
           M('transmission:tables', log, 'transmission', ['window', 'kset', 'mix'], dict(V, window=Wlin), dflt),
           M('emission:tables', log, 'emission', ['window', 'kset', 'T'], dict(V, window=Wrun, T=Te), dict(dflt, T=1500.0)),
           M('transmission:two-grids', log, 'transmission', ['window', 'mode', 'mix2'], dict(V, window=Wfull), dict(dflt, kset=D)),
           M('emission:two-grids', log, 'emission', ['window', 'T', 'mix2'], dict(V, window=Wlin, T=Te), dict(dflt, kset=D, T=1500.0))]
    if thorough:
        sc += [TableScenario('table:beyond', log, A, 'H2O', [linwin(350.0, 1050.0, 8), linwin(4250.0, 4950.0, 8), run_of(un, 0, 8)], Tn, Pn),
               TableScenario('table:second-molecule', log, D, 'CH4', [run_of(coarse, 2, 6), run_of(coarse, 11, 6), between(coarse, 2, 6)], Tn, Pn),
               M('direct:windows', log, 'direct', ['window', 'mode', 'T'], dict(V, window=Wrun, T=Te), dict(dflt, T=1500.0)),
               M('transmission:mix-T', log, 'transmission', ['mix', 'T', 'window'], dict(V, window=Wfull, T=Tt), dflt),
               M('emission:mode-tables', log, 'emission', ['mode', 'kset', 'window'], dict(V, window=Wlin), dict(dflt, T=1500.0))]
    return sc


def self_check(scs, log):
    """the window alphabet of spec/KTableHistory.tla is realised: equal sizes at different positions (also after
    the model's own clipping), same start / same end points, the full grid; the licensed clamp is the exception"""
    seen = set()
    for s in scs:
        wins = s.dims[s.settings.index('window')] if isinstance(s, ModelScenario) and 'window' in s.settings else \
            (s.dims[0] if isinstance(s, TableScenario) else [])
        seen |= collisions(wins)
        if s.evals == 0:
            raise Machinery('history scenario %s was never evaluated' % s.name)
        if isinstance(s, ModelScenario) and 'window' in s.settings:
            same = False
            for per_set in s.clip.values():
                sizes = sorted(per_set.values())
                same = same or any(a == b for a, b in zip(sizes, sizes[1:]))
            if not same:
                raise Machinery('%s: no two windows clip to equally many native points: %r' % (s.name, s.clip))
    missing = {'size', 'first', 'ends', 'full'} - seen
    if missing:
        raise Machinery('window classes of KTableHistory not realised by the scenarios: %r' % sorted(missing))
    n = len(log.events)
    if n == 0 and not log.raised:
        raise Machinery('no twin event recorded')
    if log.licensed * 5 > n:
        raise Machinery('more than a fifth of the twin evaluations fall under the exp(-10) licence (%d of %d)' % (log.licensed, n))
