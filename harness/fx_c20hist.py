"""C20 over histories (spec/KTableHistory.tla, spec/Functional.tla, the `twin` event of Trace_KTable.tla).

Long-lived k-table objects and long-lived forward models are evaluated again and again -- on another requested
wavenumber grid (the full grid, runs of native points of the same length at different positions, the same start
with another length, the same end points at another density, points between native points, points beyond the
native range), at another temperature / pressure, after a mixing ratio or a temperature parameter changed, under
the other opacity mode, after another directory of tables was selected -- and every evaluation
  * must equal the evaluation of a freshly loaded / freshly built object (history.run_history), and
  * is paired with its cross-section twin (the same numbers served as cross-sections): `observe` returns both
    and logs one `twin` event per evaluation, validated by TLC (equality for degenerate tables; unit interval and
    Jensen bound against the weight-averaged coefficient for generic tables in transmission).
Every evaluation happens under an EVALUATION CONFIGURATION (class Cfg: temperature-interpolation scheme, the route
through which it reaches the table objects of both kinds, further global keys), applied identically to both twins;
scenarios with a 'config' setting change it between evaluations, on tables of every container (pickle, HDF5).
Every object OWNS the table / cross-section objects it has loaded: they are put into the cache singletons through
their public API (clear_cache / add_opacity) for the object's own evaluations only, so that building the fresh
reference never resets what the long-lived object carries.
Every model holds a CONTRIBUTION LIST (class CList, spec/KTableHistory.tla: "k" the molecular absorption, "c1".."c3"
continuum contributions -- Rayleigh, flat Mie, CIA -- in the order they were added); scenarios with a 'contribs'
setting change it between evaluations, both twins always hold the same list.
Nothing here computes an expected value with the function under test."""
import math
import os
import pickle
import traceback

import numpy as np

from . import fx_emission as fx
from . import history
from .core import Machinery

CAP = 2 ** 30
S_T = 10 ** 9
EXP_M10 = math.exp(-10.0)


# ----------------------------------------------------------------------------
# grids, windows, tables
# ----------------------------------------------------------------------------

def uniform_native(n=41, start=600.0, step=100.0):
    return start + step * np.arange(n)


def geometric_native(n=37, start=500.0, ratio=1.06):
    return np.round(start * ratio ** np.arange(n), 6)


class Win:
    """A requested wavenumber grid (None: no grid passed); `label` is what the evidence shows."""

    def __init__(self, label, grid):
        self.label = label
        self.grid = None if grid is None else np.array(grid, dtype=float)

    def __repr__(self):
        return self.label


def run_of(native, start, npts, step=1):
    g = native[start:start + npts * step:step]
    return Win('native[%d:+%d%s]' % (start, npts, '' if step == 1 else ':%d' % step), g)


def between(native, start, npts):
    g = 0.5 * (native[start:start + npts] + native[start + 1:start + npts + 1])
    return Win('between[%d:+%d]' % (start, npts), g)


def linwin(lo, hi, n):
    return Win('lin[%g..%g]x%d' % (lo, hi, n), np.linspace(lo, hi, n))


FULL = Win('full', None)


def collisions(windows):
    """which under-keyed memo classes of spec/KTableHistory.tla a set of windows can expose"""
    out = set()
    ws = [w for w in windows if w.grid is not None]
    for i, a in enumerate(ws):
        for b in ws[i + 1:]:
            if np.array_equal(a.grid, b.grid):
                continue
            if len(a.grid) == len(b.grid):
                out.add('size')
            if a.grid[0] == b.grid[0]:
                out.add('first')
            if a.grid[0] == b.grid[0] and a.grid[-1] == b.grid[-1]:
                out.add('ends')
    if any(w.grid is None for w in windows):
        out.add('full')
    return out


def coefficients(native, seed, npress=4, ntemp=4):
    """Band-like coefficients x[P, T, wn] in cm^2: every window of a few native points has transparent and opaque
    wavenumbers for the model atmospheres below; they depend on pressure and temperature."""
    rs = np.random.RandomState(2020 + seed)
    press = np.logspace(1, 6, npress)                       # Pa
    temps = np.array([300.0, 900.0, 1500.0, 2400.0][:ntemp])
    idx = np.arange(native.shape[0])
    band = 10 ** (-25.3 + 3.6 * np.sin(idx / (1.9 + 0.35 * seed)) ** 2 + 0.3 * rs.uniform(-1, 1, native.shape[0]))
    x = band[None, None, :] * (1.0 + 0.5 * np.arange(npress)[:, None, None]) * (1.0 + 0.3 * np.arange(ntemp)[None, :, None])
    return press, temps, x


def write_hdf5_ktable(path, name, wn, temps, press_pa, kcoeff_cm2, weights):
    """HDF5KTable layout: kcoeff[P, T, wn, g] in cm^2, pressures with a unit attribute; the molecule is the file stem
    up to the first underscore."""
    import h5py
    fn = os.path.join(path, '%s_R100.h5' % name)
    with h5py.File(fn, 'w') as f:
        f['bin_centers'] = np.asarray(wn, dtype=float)
        f['ngauss'] = len(weights)
        f['t'] = np.asarray(temps, dtype=float)
        f.create_dataset('p', data=np.asarray(press_pa, dtype=float) / 1e5).attrs['units'] = 'bar'
        f['kcoeff'] = np.asarray(kcoeff_cm2, dtype=float)
        f['weights'] = np.asarray(weights, dtype=float)
    return fn


def write_hdf5_xsec(path, name, wn, temps, press_pa, xsec_cm2):
    """HDF5Opacity layout: xsecarr[P, T, wn] in cm^2."""
    import h5py
    fn = os.path.join(path, '%s.h5' % name)
    with h5py.File(fn, 'w') as f:
        f['bin_edges'] = np.asarray(wn, dtype=float)
        f['t'] = np.asarray(temps, dtype=float)
        f.create_dataset('p', data=np.asarray(press_pa, dtype=float) / 1e5).attrs['units'] = 'bar'
        f['xsecarr'] = np.asarray(xsec_cm2, dtype=float)
        f['mol_name'] = name
    return fn


def write_cia(root):
    """<root>/cia/H2-H2.db (PickleCIA layout: xsecarr[T, wn]): a smooth band, growing with temperature"""
    d = os.path.join(root, 'cia')
    if not os.path.isdir(d):
        os.makedirs(d)
        wno = np.linspace(300.0, 5200.0, 50)
        t = np.array([200.0, 1000.0, 2000.0, 3200.0])
        x = CIA_SCALE * (0.2 + np.exp(-((wno[None, :] - 2400.0) / 900.0) ** 2)) * (1.0 + t[:, None] / 2000.0)
        with open(os.path.join(d, 'H2-H2.db'), 'wb') as f:
            pickle.dump(dict(wno=wno, t=t, xsecarr=x), f)
    return d


CIA_SCALE = 2e-57          # vertical column optical depth of the scenario atmospheres: 0.1 .. 0.5


class TableSet:
    """<root>/set<idx>/k: k-tables, <root>/set<idx>/x: the twin numbers as cross-sections (degenerate: the common
    value; generic: the weight-averaged coefficient); container 'pickle' (PickleKTable / PickleOpacity files) or
    'hdf5' (HDF5KTable / HDF5Opacity files)."""

    def __init__(self, root, idx, grids, weights, spread, container='pickle'):
        self.idx = idx
        self.container = container
        self.kdir = os.path.join(root, 'set%d' % idx, 'k')
        self.xdir = os.path.join(root, 'set%d' % idx, 'x')
        self.ciadir = write_cia(root)
        os.makedirs(self.kdir)
        os.makedirs(self.xdir)
        self.weights = np.array(weights, dtype=float)
        if abs(self.weights.sum() - 1.0) > 1e-15:
            raise Machinery('weights of table set %d do not sum to one' % idx)
        self.ng = len(weights)
        self.degenerate = spread == 0
        self.grids = {m: np.array(g, dtype=float) for m, g in grids.items()}
        self.kfile, self.xfile = {}, {}
        for j, (mol, native) in enumerate(sorted(self.grids.items())):
            press, temps, x = coefficients(native, 3 * idx + j)
            k = np.repeat(x[..., None], self.ng, axis=-1)
            if spread > 0:
                k = k * 10 ** (spread * (np.linspace(0.0, 1.0, self.ng) - 0.5))[None, None, None, :]
                xs = np.tensordot(k, self.weights, axes=([3], [0]))
            else:
                xs = x
            if container == 'hdf5':
                self.kfile[mol] = write_hdf5_ktable(self.kdir, mol, native, temps, press, k, self.weights)
                self.xfile[mol] = write_hdf5_xsec(self.xdir, mol, native, temps, press, xs)
            else:
                self.kfile[mol] = fx.write_pickle_ktable(self.kdir, mol, native, temps, press, k, self.weights)
                self.xfile[mol] = os.path.join(self.xdir, '%s.R100.pickle' % mol)
                with open(self.xfile[mol], 'wb') as f:
                    pickle.dump(dict(t=temps, p=press / 1e5, name=mol, wno=np.array(native), xsecarr=xs), f)
            self.tnodes, self.pnodes = np.array(temps, dtype=float), np.array(press, dtype=float)
        self.tmin, self.tmax = 300.0, 2400.0

    def __repr__(self):
        return 'set%d(ng=%d,%s%s)' % (self.idx, self.ng, 'degenerate' if self.degenerate else 'generic',
                                      '' if self.container == 'pickle' else ',' + self.container)


# ----------------------------------------------------------------------------
# the evaluation configuration (spec/KTableHistory.tla: interp, route, extra)
# ----------------------------------------------------------------------------

INTERPS = ('linear', 'exp')
ROUTES = ('global', 'api', 'ctor', 'setter')
EXTRAS = ('none', 'stream', 'deactive')
EXTRA_KEYS = ('xsec_interpolation', 'xsec_in_memory', 'deactive_molecules')


class Cfg:
    """interp: the temperature-interpolation scheme; route: how it reaches the table objects of both kinds
    ('global': the GlobalCache key read at discovery, 'api': OpacityCache.set_interpolation, 'ctor': constructor
    argument, objects handed to the caches, 'setter': set_interpolation_mode on the objects already loaded);
    extra: 'stream' (memory mode off), 'deactive' (the second molecule de-activated)."""

    def __init__(self, interp='linear', route='global', extra='none'):
        if interp not in INTERPS or route not in ROUTES or extra not in EXTRAS:
            raise Machinery('not a configuration of KTableHistory: %r' % ((interp, route, extra),))
        self.interp, self.route, self.extra = interp, route, extra

    def __repr__(self):
        return '%s/%s%s' % (self.interp, self.route, '' if self.extra == 'none' else '/' + self.extra)

    def triple(self):
        return [self.interp, self.route, self.extra]


BASE = Cfg()


def use_paths(ts, mode, c=BASE):
    """the global settings a user changes: paths of both kinds of tables, the opacity mode and the keys of the
    evaluation configuration (no cache is emptied)"""
    from taurex.cache import GlobalCache
    gc = GlobalCache()
    gc['ktable_path'] = ts.kdir
    gc['xsec_path'] = ts.xdir
    gc['opacity_method'] = mode
    for key in EXTRA_KEYS:
        gc.variable_dict.pop(key, None)
    if c.route in ('global', 'api'):
        gc['xsec_interpolation'] = c.interp
    if c.extra == 'stream':
        gc['xsec_in_memory'] = False
    if c.extra == 'deactive' and len(ts.grids) > 1:
        gc['deactive_molecules'] = sorted(ts.grids)[1:]


def clear_config():
    from taurex.cache import GlobalCache
    for key in EXTRA_KEYS:
        GlobalCache().variable_dict.pop(key, None)


def establish(ts, c, ktabs=None, xops=None):
    """Configuration c is established through its route for the tables of both kinds of `ts`; returns the loaded
    objects (ktabs, xops).  Route 'setter' keeps the objects already loaded and changes them in place; route 'api'
    leaves them in the caches and calls OpacityCache.set_interpolation, which has to make them follow; the other
    routes load the files again, from ktable_path / xsec_path through the caches ('ctor': constructed with the scheme
    as argument and handed to the caches)."""
    from taurex.cache import OpacityCache
    from taurex.cache.ktablecache import KTableCache
    kc, oc = KTableCache(), OpacityCache()
    use_paths(ts, 'ktables', c)
    mols = sorted(ts.grids)
    if c.extra == 'deactive':
        mols = mols[:1]
    if c.route == 'setter':
        install(ktabs or {}, xops or {})
        for mol in mols:
            kc[mol], oc[mol]
        for o in list(kc.opacity_dict.values()) + list(oc.opacity_dict.values()):
            o.set_interpolation_mode(c.interp)
    elif c.route == 'ctor':
        install({}, {})
        if ts.container == 'hdf5':
            from taurex.opacity.ktables import HDF5KTable
            from taurex.opacity import HDF5Opacity
            mem = c.extra != 'stream'
            for mol in mols:
                kc.add_opacity(HDF5KTable(ts.kfile[mol], c.interp, mem))
                oc.add_opacity(HDF5Opacity(ts.xfile[mol], c.interp, mem))
        else:
            from taurex.opacity.ktables import PickleKTable
            from taurex.opacity import PickleOpacity
            for mol in mols:
                kc.add_opacity(PickleKTable(ts.kfile[mol], c.interp))
                oc.add_opacity(PickleOpacity(ts.xfile[mol], c.interp))
    elif c.route == 'api':
        # the documented call for a running session: the tables of BOTH kinds the session has loaded stay in the caches
        # and the call itself must make every loaded (and future) table follow the scheme
        install(ktabs or {}, xops or {})
        oc.set_interpolation(c.interp)
        if c.extra == 'stream':
            oc.set_memory_mode(False)
        for mol in mols:
            kc[mol], oc[mol]
    else:
        install({}, {})          # the key is written directly: the user empties both caches
        for mol in mols:
            kc[mol], oc[mol]
    out = dict(kc.opacity_dict), dict(oc.opacity_dict)
    for mol in mols:
        if mol not in out[0] or mol not in out[1]:
            raise Machinery('%r: tables of %s not loaded under %r' % (ts, mol, c))
    install({}, {})
    return out


def cached():
    """the table objects the cache singletons hold now"""
    from taurex.cache import OpacityCache
    from taurex.cache.ktablecache import KTableCache
    return dict(KTableCache().opacity_dict), dict(OpacityCache().opacity_dict)


def install(ktabs, xops):
    """make the cache singletons hold exactly the objects this holder has loaded so far"""
    from taurex.cache import OpacityCache
    from taurex.cache.ktablecache import KTableCache
    kc, oc = KTableCache(), OpacityCache()
    kc.clear_cache()
    oc.clear_cache()
    for o in ktabs.values():
        kc.add_opacity(o)
    for o in xops.values():
        oc.add_opacity(o)
    return kc, oc


# ----------------------------------------------------------------------------
# the contribution list (spec/KTableHistory.tla: clist)
# ----------------------------------------------------------------------------

KINDS = ('k', 'c1', 'c2', 'c3')


class CList:
    """kinds: sequence over KINDS with 'k' (AbsorptionContribution: k-tables in one twin, cross-sections in the other)
    exactly once; 'c1' RayleighContribution, 'c2' FlatMieContribution, 'c3' CIAContribution (H2-H2, pickle file found
    through the CIA cache), added to the model in this order."""

    def __init__(self, kinds):
        self.kinds = tuple(kinds)
        if list(self.kinds).count('k') != 1 or len(set(self.kinds)) != len(self.kinds) or set(self.kinds) - set(KINDS):
            raise Machinery('not a contribution list of KTableHistory: %r' % (kinds,))

    def __repr__(self):
        return '+'.join(self.kinds)

    def seq(self):
        return list(self.kinds)


K_ONLY = CList(('k',))
MIE_MIX = 5e-32          # flat Mie opacity: vertical column optical depth of the scenario atmospheres about 0.5


def add_contributions(m, ts, cl):
    """the contributions of list cl are added to model m in the order of the list (public API)"""
    from taurex.contributions import AbsorptionContribution, RayleighContribution, FlatMieContribution, CIAContribution
    for kind in cl.kinds:
        if kind == 'k':
            m.add_contribution(AbsorptionContribution())
        elif kind == 'c1':
            m.add_contribution(RayleighContribution())
        elif kind == 'c2':
            m.add_contribution(FlatMieContribution(flat_mix_ratio=MIE_MIX))
        else:
            from taurex.cache import CIACache
            CIACache().set_cia_path(ts.ciadir)
            m.add_contribution(CIAContribution(cia_pairs=['H2-H2']))


def held_list(m):
    """the list a built model actually holds, in the spec's alphabet (None: something else)"""
    names = {'Absorption': 'k', 'Rayleigh': 'c1', 'Mie': 'c2', 'CIA': 'c3'}
    out = [names.get(c.name) for c in m.contribution_list]
    return None if None in out else out


# ----------------------------------------------------------------------------
# twin events
# ----------------------------------------------------------------------------

class TwinLog:
    def __init__(self, ctx):
        self.ctx = ctx
        self.events = []          # (event, cls, detail, vector)
        self.licensed = 0
        self.raised = 0

    def add(self, ev, cls, detail, vec):
        ev = dict(ev, ev='twin')
        self.events.append((ev, cls, detail, vec))

    def code_raised(self, ex, cls, vec):
        """the code under test raised on a valid configuration: a violation; the harness raised: machinery"""
        if isinstance(ex, Machinery):
            raise ex
        tb = traceback.extract_tb(ex.__traceback__)
        if '/harness/' in tb[-1].filename:
            raise Machinery('history scenario failed inside the harness: %r\n%s' % (ex, ''.join(traceback.format_tb(ex.__traceback__)[-3:])))
        self.raised += 1
        self.ctx.verdict('evaluates_without_error', False, cls=cls,
                         detail='%s: %s at %s:%s' % (type(ex).__name__, ex, os.path.basename(tb[-1].filename), tb[-1].name), vector=vec)


def reldev(a, b):
    """largest relative difference in units of 1e-12 (capped); shapes must agree"""
    a, b = np.asarray(a, dtype=float), np.asarray(b, dtype=float)
    if a.shape != b.shape or a.size == 0 or not (np.all(np.isfinite(a)) and np.all(np.isfinite(b))):
        return CAP
    den = np.maximum(np.abs(b), 1e-300)
    return int(min(CAP, math.ceil(float(np.max(np.abs(a - b) / den)) * 1e12)))


def absdev(a, b):
    a, b = np.asarray(a, dtype=float), np.asarray(b, dtype=float)
    if a.shape != b.shape or a.size == 0 or not (np.all(np.isfinite(a)) and np.all(np.isfinite(b))):
        return CAP
    return int(min(CAP, math.ceil(float(np.max(np.abs(a - b))) * 1e12)))


class Holder:
    def __init__(self, init):
        self.init = [repr(v) for v in init]
        self.trail = []
        self.ktabs, self.xops = {}, {}

    def vector(self, scenario):
        return dict(history=scenario, init=list(self.init), trail=list(self.trail), twin=True)


# ----------------------------------------------------------------------------
# object level: KTable.opacity(T, P, wngrid) on one loaded table object
# ----------------------------------------------------------------------------

def table_twin_event(ts, k, x, nreq, c):
    """one `twin` event (rel = "equal") for the results of KTable.opacity / Opacity.opacity on a degenerate table"""
    k, x = np.asarray(k, dtype=float), np.asarray(x, dtype=float)
    ok_shape = k.ndim == 2 and x.ndim == 1 and k.shape[0] == x.shape[0]
    dev = max(reldev(k[:, g], x) for g in range(k.shape[1])) if ok_shape else CAP
    return dict(rel='equal', nk=int(k.shape[0]), nx=int(x.shape[0]), nreq=nreq, gdev=0,
                ng=int(k.shape[1]) if k.ndim == 2 else 0, ngw=ts.ng, dev=dev, slack=0, lo=0, tmin=0, tmax=0, S=S_T,
                ck=c.triple(), cx=c.triple(), lk=['k'], lx=['k'])


class TableScenario(history.Scenario):
    """settings (3) among: 'window' (requested grid), 'T', 'P' (arguments of KTable.opacity / Opacity.opacity) and
    'config' (the evaluation configuration, established through its route for both objects)"""

    def __init__(self, name, log, ts, mol, windows, temps, press, configs=None, vary=('window', 'T', 'P')):
        self.name, self.log, self.ts, self.mol = name, log, ts, mol
        vals = dict(window=list(windows), T=list(temps), P=list(press), config=list(configs or [BASE]))
        self.settings = list(vary)
        self.dims = [vals[k] for k in self.settings]
        self.defaults = {k: v[0] for k, v in vals.items()}
        self.evals = 0

    def _cfg(self, values):
        c = dict(self.defaults)
        c.update(dict(zip(self.settings, values)))
        return c

    def fresh(self, values):
        h = Holder(values)
        h.cfg = self._cfg(values)
        h.ktabs, h.xops = establish(self.ts, h.cfg['config'])      # loaded from ktable_path / xsec_path by the caches
        return h

    def set(self, h, d, value, values):
        s = self.settings[d]
        h.cfg[s] = value
        h.trail.append('set%d=%r' % (d, value))
        if s == 'config':
            h.ktabs, h.xops = establish(self.ts, value, h.ktabs, h.xops)

    def observe(self, h):
        win, T, P, c = h.cfg['window'], h.cfg['T'], h.cfg['P'], h.cfg['config']
        h.trail.append('eval')
        vec = h.vector(self.name)
        cls = '%s:%r:%s' % (self.name, self.ts, win.label) + ('' if 'config' not in self.settings else ':%r' % c)
        use_paths(self.ts, 'ktables', c)
        try:
            k = h.ktabs[self.mol].opacity(T, P, None if win.grid is None else np.array(win.grid))
            x = h.xops[self.mol].opacity(T, P, None if win.grid is None else np.array(win.grid))
        except Exception as ex:
            self.log.code_raised(ex, cls, vec)
            raise
        k, x = np.asarray(k, dtype=float), np.asarray(x, dtype=float)
        self.evals += 1
        nreq = len(self.ts.grids[self.mol]) if win.grid is None else len(win.grid)
        if self.ts.degenerate:
            self.log.add(table_twin_event(self.ts, k, x, nreq, c),
                         cls, 'T=%g P=%g under %r: k-table %r vs cross-section %r' % (T, P, c, k[:3].tolist(), x[:3].tolist()), vec)
        return dict(k=k, x=x)


# ----------------------------------------------------------------------------
# model level: model(wngrid=..) of a long-lived forward model and its twin
# ----------------------------------------------------------------------------

OTHER = {'ktables': 'xsec', 'xsec': 'ktables'}


class ModelScenario(history.Scenario):
    """settings (<= 3) among: 'window' (grid passed to model(wngrid=..)), 'mode' (the global opacity_method under
    which the primary long-lived model is evaluated; its long-lived twin is evaluated under the other one),
    'T' (temperature-profile parameter), 'mix' (mixing ratio of the first molecule), 'mix2', 'kset' (directory of
    tables, of either container), 'config' (the evaluation configuration, established through its route for the
    tables of both kinds: both twins are evaluated under it), 'contribs' (the contribution list, class CList: both
    models are built again with the contributions added in that order; the loaded tables stay)."""
    NLAYERS = 6

    def __init__(self, name, log, kind, settings, values, defaults):
        self.name, self.log, self.kind = name, log, kind
        self.settings = list(settings)
        self.dims = [list(values[s]) for s in self.settings]
        self.defaults = dict(defaults)
        self.evals = 0
        self.clip = {}

    def _cfg(self, values):
        c = dict(self.defaults)
        c.update(dict(zip(self.settings, values)))
        return c

    def _build(self, c, mode):
        from taurex.model import EmissionModel, DirectImageModel, TransmissionModel
        from taurex.chemistry import TaurexChemistry, ConstantGas
        from taurex.temperature import NPoint, Isothermal
        from taurex.contributions import AbsorptionContribution
        from taurex.planet import Planet
        from taurex.stellar import BlackbodyStar
        use_paths(c['kset'], mode, c.get('config', BASE))
        chem = TaurexChemistry(fill_gases=['H2', 'He'], ratio=0.17)
        mols = sorted(c['kset'].grids)
        chem.addGas(ConstantGas(mols[0], c['mix']))
        if len(mols) > 1:
            chem.addGas(ConstantGas(mols[1], c['mix2']))
        if self.kind == 'transmission':
            tp = Isothermal(T=c['T'])
        else:
            tp = NPoint(T_surface=c['T'], T_top=0.5 * self.defaults['T'])
        kw = dict(planet=Planet(planet_mass=1.0, planet_radius=1.0), star=BlackbodyStar(temperature=5500.0, radius=0.9),
                  chemistry=chem, temperature_profile=tp, nlayers=self.NLAYERS, atm_min_pressure=1e1, atm_max_pressure=1e6)
        if self.kind == 'emission':
            m = EmissionModel(ngauss=3, **kw)
        elif self.kind == 'direct':
            m = DirectImageModel(ngauss=2, **kw)
        else:
            m = TransmissionModel(**kw)
        add_contributions(m, c['kset'], c.get('contribs', K_ONLY))
        m.build()
        return m

    def fresh(self, values):
        c = self._cfg(values)
        h = Holder(values)
        h.cfg = c
        install({}, {})
        h.m = self._build(c, c['mode'])                # primary: constructed under the mode it is first used in
        h.t = self._build(c, OTHER[c['mode']])         # twin: the other mode
        if 'config' in self.settings:
            h.ktabs, h.xops = establish(c['kset'], c['config'])
        return h

    def set(self, h, d, value, values):
        s = self.settings[d]
        h.cfg[s] = value
        h.trail.append('set%d=%r' % (d, value))
        if s == 'T':
            for m in (h.m, h.t):
                m['T' if self.kind == 'transmission' else 'T_surface'] = value
        elif s == 'mix':
            for m in (h.m, h.t):
                m[sorted(h.cfg['kset'].grids)[0]] = value
        elif s == 'mix2':
            for m in (h.m, h.t):
                m[sorted(h.cfg['kset'].grids)[1]] = value
        elif s == 'kset':          # another directory of tables: the user points the paths there and empties the caches
            h.ktabs, h.xops = {}, {}
            if 'config' in self.settings:
                h.ktabs, h.xops = establish(value, h.cfg['config'])
        elif s == 'config':        # the configuration is established through its route (tables loaded again, or set in place)
            h.ktabs, h.xops = establish(h.cfg['kset'], value, h.ktabs, h.xops)
        elif s == 'contribs':      # another list of contributions: the twin pair is built again; the session's tables stay
            install(h.ktabs, h.xops)
            h.m = self._build(h.cfg, h.cfg['mode'])
            h.t = self._build(h.cfg, OTHER[h.cfg['mode']])
            h.ktabs, h.xops = cached()
            install({}, {})
        # 'window' is an argument of model(); 'mode' is the global setting, applied at the evaluation

    def observe(self, h):
        c = h.cfg
        ts, win, conf = c['kset'], c['window'], c.get('config', BASE)
        h.trail.append('eval')
        vec = h.vector(self.name)
        cls = '%s:%r:%s' % (self.name, ts, win.label) + ('' if 'config' not in self.settings else ':%r' % conf) \
            + ('' if 'contribs' not in self.settings else ':%r' % c['contribs'])
        km, xm = (h.m, h.t) if c['mode'] == 'ktables' else (h.t, h.m)
        kc, oc = install(h.ktabs, h.xops)
        grid = None if win.grid is None else np.array(win.grid)
        try:
            try:
                use_paths(ts, 'ktables', conf)
                rk = km.model(wngrid=grid)
                use_paths(ts, 'xsec', conf)
                rx = xm.model(wngrid=grid)
            finally:
                h.ktabs, h.xops = dict(kc.opacity_dict), dict(oc.opacity_dict)
                install({}, {})
        except Exception as ex:
            self.log.code_raised(ex, cls, vec)
            raise
        self.evals += 1
        detail = 'mode of the primary model %s, configuration %r' % (c['mode'], conf)
        out = model_twin(self.log, self.kind, self.NLAYERS, ts, h.ktabs, rk, rx, xm, conf, cls, detail, vec, km=km,
                         contribs=c.get('contribs', K_ONLY))
        self.clip.setdefault(ts.idx, {})[win.label] = len(out['grid_k'])
        return out


def model_twin(log, kind, nlayers, ts, ktabs, rk, rx, xm, conf, cls, detail, vec, clause=None, km=None, contribs=K_ONLY):
    """One evaluation of a k-table model (rk) and of its cross-section twin (rx = the results of model(); xm: the
    cross-section model, km: the k-table model) under configuration `conf`, both holding the contribution list
    `contribs`: logs the `twin` event (equality for a degenerate table, unit interval and Jensen bound for a generic
    table in transmission) and returns what was observed."""
    gk, yk, tk = (np.array(v, dtype=float) for v in rk[:3])
    gx, yx, tx = (np.array(v, dtype=float) for v in rx[:3])
    # the lists the two built models hold (build() may reorder: a stable sort on Contribution.order, equal for these)
    lk = contribs.seq() if km is None else held_list(km)
    lx = held_list(xm)
    if lk != contribs.seq() or lx != contribs.seq():
        raise Machinery('the models do not hold the contribution list %r: %r / %r' % (contribs, lk, lx))
    ev = dict(nk=len(gk), nx=len(gx), nreq=0, gdev=absdev(gk, gx) if gk.shape == gx.shape else CAP,
              ng=ts.ng, ngw=int(len(np.atleast_1d(ktabs[sorted(ts.grids)[0]].weights))),
              dev=0, slack=0, lo=0, tmin=0, tmax=0, S=S_T, ck=conf.triple(), cx=conf.triple(), lk=lk, lx=lx)
    if clause:
        ev['_clause'] = clause
    ev['gdev'] = min(CAP, int(math.ceil(ev['gdev'] / 1e3)))          # units of 1e-9 cm-1
    detail += '; k-table %r vs cross-section %r' % (yk[:3].tolist(), yx[:3].tolist())
    if ts.degenerate:
        ev['rel'] = 'equal'
        if kind == 'transmission':
            ev['dev'] = max(reldev(yk, yx), absdev(tk, tx))
        else:
            ev['dev'] = reldev(yk, yx)
            # licensed: the cross-section emission branch zeroes transmittances once the optical depth is >= 10 at
            # EVERY wavenumber of the evaluated grid (all contributions together); the k-table branch does not
            col = column_depth(xm)
            if col.min() >= 10.0 - 1e-6:
                tt = np.asarray(xm.temperatureProfile, dtype=float)
                ratio = max(fx.planck_b(w, tt.max()) / fx.planck_b(w, tt.min()) for w in gx)
                ev['slack'] = int(min(CAP, math.ceil(nlayers * EXP_M10 * ratio * 1e12)))
                log.licensed += 1
        log.add(ev, cls, detail, vec)
    elif kind == 'transmission' and tk.shape == tx.shape and tk.size:
        ev['rel'] = 'jensen'
        diff = tk - tx
        if len(lx) > 1:
            # licensed: path_integral stops adding contributions to a path whose optical depth exceeds 10 at every
            # wavenumber; the cross-section twin (larger optical depth) stops no later than the k-table twin, so a
            # transmittance of the twin below exp(-10) is no lower bound for the k-table one (which stays in [0, 1])
            diff = np.where(tx < EXP_M10, np.maximum(diff, 0.0), diff)
        ev['lo'] = int(max(-CAP, min(CAP, math.floor(float(np.min(diff)) * S_T))))
        ev['tmin'] = int(max(-CAP, min(CAP, math.floor(float(tk.min()) * S_T))))
        ev['tmax'] = int(max(-CAP, min(CAP, math.ceil(float(tk.max()) * S_T))))
        log.add(ev, cls, detail + '; min(Tk - Tx) = %r' % float(np.min(tk - tx)), vec)
    return dict(grid_k=gk, k=yk, tau_k=tk, grid_x=gx, x=yx, tau_x=tx)


def column_depth(m):
    """vertical optical depth of the whole column per wavenumber of the grid a cross-section model was last evaluated
    on, all its contributions together (CIA: density squared)"""
    rho, dz = np.asarray(m.densityProfile, dtype=float), np.asarray(m.deltaz, dtype=float)
    col = 0.0
    for c in m.contribution_list:
        w = rho * rho * dz if c.name == 'CIA' else rho * dz
        col = col + np.sum(np.asarray(c.sigma_xsec, dtype=float) * w[:, None], axis=0)
    return col


# ----------------------------------------------------------------------------
# the scenarios
# ----------------------------------------------------------------------------

def pick(lists, pred, what):
    for v in lists:
        if pred(v):
            return CList(v['list'])
    raise Machinery('the exported alphabet of contribution lists has no list with %s' % what)


def scenarios(ctx, root, log, thorough=False, lists=None):
    un = uniform_native()
    ge = geometric_native()
    coarse = uniform_native(n=21, start=650.0, step=190.0)
    W4 = [0.05, 0.15, 0.3, 0.5]
    A = TableSet(root, 0, {'H2O': un}, W4, 0.0)                                   # degenerate, uniform grid
    B = TableSet(root, 1, {'H2O': un}, [0.4, 0.3, 0.2, 0.1], 2.0)                 # generic, same number of points, other weights
    other = uniform_native(n=33, start=650.0, step=120.0)
    C = TableSet(root, 2, {'H2O': other}, [0.25, 0.25, 0.5], 0.0)                 # degenerate, 3 points, another native grid
    G = TableSet(root, 3, {'H2O': ge}, [2.0 / 3.0, 1.0 / 3.0], 0.0)               # degenerate, constant-resolution grid
    D = TableSet(root, 4, {'H2O': un, 'CH4': coarse}, W4, 0.0)                    # two molecules on different native grids
    Tn, Pn = [900.0, 1234.5, 2100.0], [1e3, 3.7e4, 1e6]
    # object level
    sc = [TableScenario('table:runs', log, G, 'H2O', [run_of(ge, 4, 9), run_of(ge, 20, 9), run_of(ge, 4, 15)], Tn, Pn),
          TableScenario('table:between', log, G, 'H2O', [between(ge, 3, 7), between(ge, 18, 7), run_of(ge, 3, 7)], Tn, Pn),
          TableScenario('table:density', log, A, 'H2O', [run_of(un, 5, 9), run_of(un, 5, 5, 2), FULL], Tn, Pn),
          TableScenario('table:generic', log, B, 'H2O', [run_of(un, 8, 6), run_of(un, 25, 6), linwin(450.0, 1150.0, 6)], Tn, Pn)]
    # model level
    Wrun = [run_of(un, 4, 8), run_of(un, 24, 8), run_of(un, 4, 14)]
    Wfull = [FULL, run_of(un, 6, 10), run_of(un, 27, 10)]
    Wlin = [linwin(1030.0, 1970.0, 9), linwin(3030.0, 3970.0, 9), linwin(1030.0, 1970.0, 5)]
    MODES = ['ktables', 'xsec']
    Tt, Te = [800.0, 1300.0, 1900.0], [1100.0, 1500.0, 2000.0]
    MIX, MIX2 = [2e-4, 1e-5, 3e-3], [5e-5, 1e-3, 1e-6]
    V = dict(mode=MODES, mix=MIX, mix2=MIX2, kset=[A, B, C])
    dflt = dict(window=Wrun[0], mode='ktables', T=1300.0, mix=2e-4, mix2=5e-5, kset=A)
    M = ModelScenario
    sc += [M('transmission:windows', log, 'transmission', ['window', 'mode', 'T'], dict(V, window=Wrun, T=Tt), dflt),
           M('emission:windows', log, 'emission', ['window', 'mode', 'mix'], dict(V, window=Wfull), dict(dflt, T=1500.0)),
           M('transmission:tables', log, 'transmission', ['window', 'kset', 'mix'], dict(V, window=Wlin), dflt),
           M('emission:tables', log, 'emission', ['window', 'kset', 'T'], dict(V, window=Wrun, T=Te), dict(dflt, T=1500.0)),
           M('transmission:two-grids', log, 'transmission', ['window', 'mode', 'mix2'], dict(V, window=Wfull), dict(dflt, kset=D)),
           M('emission:two-grids', log, 'emission', ['window', 'T', 'mix2'], dict(V, window=Wlin, T=Te), dict(dflt, kset=D, T=1500.0))]
    # the evaluation configuration changes between evaluations (scheme x route x memory mode), tables of both containers,
    # temperatures on a node / between nodes / above the table, pressures between nodes / on the last node / below
    H = TableSet(root, 5, {'H2O': other}, [0.25, 0.25, 0.5], 0.0, container='hdf5')
    Tc, Pc = [900.0, 1234.5, 2600.0], [3.7e4, 1e6, 1.0]
    CP = [Cfg('linear', 'global'), Cfg('exp', 'api'), Cfg('exp', 'setter')]
    CH = [Cfg('exp', 'ctor', 'stream'), Cfg('linear', 'setter'), Cfg('exp', 'global')]
    CT = [Cfg('linear', 'api'), Cfg('exp', 'global'), Cfg('exp', 'ctor')]
    CE = [Cfg('exp', 'setter'), Cfg('linear', 'global'), Cfg('exp', 'api', 'stream')]
    sc += [TableScenario('table:config-pickle', log, A, 'H2O', [between(un, 5, 7)], Tc, Pc, configs=CP, vary=('config', 'T', 'P')),
           TableScenario('table:config-hdf5', log, H, 'H2O', [between(other, 3, 7), run_of(other, 10, 7), FULL], Tc, [3.7e4],
                         configs=CH, vary=('config', 'T', 'window')),
           M('transmission:config', log, 'transmission', ['config', 'kset', 'T'], dict(V, config=CT, kset=[A, H], T=[1300.0, 900.0, 2600.0]),
             dict(dflt, window=Wlin[0])),
           M('emission:config', log, 'emission', ['config', 'mode', 'T'], dict(V, config=CE, T=Te), dict(dflt, kset=H, T=1500.0, window=Wlin[0]))]
    # the contribution list changes between evaluations (lists of the alphabet exported by TLC): a continuum term
    # before / after the molecular one, two or more of them, in both families
    if lists:
        LT = [pick(lists, lambda v: v['ncont'] == 1 and not v['kfirst'], 'one continuum term before k'),
              pick(lists, lambda v: v['ncont'] == 2 and not v['kfirst'] and not v['klast'], 'k between two continuum terms'),
              pick(lists, lambda v: v['ncont'] == 2 and v['kfirst'], 'two continuum terms after k')]
        LE = [pick(lists, lambda v: v['ncont'] == 2 and v['kfirst'], 'two continuum terms after k'),
              pick(lists, lambda v: v['ncont'] == 2 and v['klast'], 'two continuum terms before k'),
              pick(lists, lambda v: v['ncont'] >= 3, 'three continuum terms')]
        sc += [M('transmission:contributions', log, 'transmission', ['contribs', 'mode', 'window'], dict(V, contribs=LT, window=Wlin), dflt),
               M('emission:contributions', log, 'emission', ['contribs', 'mode', 'T'], dict(V, contribs=LE, T=Te),
                 dict(dflt, T=1500.0, window=Wfull[1]))]
    if thorough:
        if lists:
            sc += [M('direct:contributions', log, 'direct', ['contribs', 'kset', 'mix'], dict(V, contribs=LE[::-1], kset=[A, H, C]),
                     dict(dflt, T=1500.0, window=Wlin[0]))]
        HD = TableSet(root, 6, {'H2O': un, 'CH4': coarse}, W4, 0.0, container='hdf5')
        sc += [TableScenario('table:config-hdf5-P', log, HD, 'CH4', [between(coarse, 2, 6)], Tc, Pc, configs=CT, vary=('config', 'T', 'P')),
               M('direct:config', log, 'direct', ['config', 'T', 'kset'], dict(V, config=CH, kset=[H, A], T=Te), dict(dflt, T=1500.0, window=Wlin[0]))]
        sc += [TableScenario('table:beyond', log, A, 'H2O', [linwin(350.0, 1050.0, 8), linwin(4250.0, 4950.0, 8), run_of(un, 0, 8)], Tn, Pn),
               TableScenario('table:second-molecule', log, D, 'CH4', [run_of(coarse, 2, 6), run_of(coarse, 11, 6), between(coarse, 2, 6)], Tn, Pn),
               M('direct:windows', log, 'direct', ['window', 'mode', 'T'], dict(V, window=Wrun, T=Te), dict(dflt, T=1500.0)),
               M('transmission:mix-T', log, 'transmission', ['mix', 'T', 'window'], dict(V, window=Wfull, T=Tt), dflt),
               M('emission:mode-tables', log, 'emission', ['mode', 'kset', 'window'], dict(V, window=Wlin), dict(dflt, T=1500.0))]
    return sc


# ----------------------------------------------------------------------------
# binding A of the contribution-list dimension: every exported list, both families
# ----------------------------------------------------------------------------

LIST_CLAUSE = 'twin_under_contributions'


class ListSweep:
    """Every list of the alphabet exported by TLC (EX_KTableHistory_cfg.cfg, tag LST) is realised in a twin pair of
    models of every family -- a degenerate table (equality) and a generic one (transmission: unit interval and
    Jensen bound against the weight-averaged coefficient) -- and logged as a `twin` event."""

    def __init__(self, ctx, root, log, thorough):
        self.ctx, self.log, self.thorough = ctx, log, thorough
        un = uniform_native()
        self.sets = [TableSet(root, 20, {'H2O': un}, [0.05, 0.15, 0.3, 0.5], 0.0),
                     TableSet(root, 21, {'H2O': un}, [0.4, 0.3, 0.2, 0.1], 2.0)]
        if thorough:
            self.sets.append(TableSet(root, 22, {'H2O': un}, [0.25, 0.25, 0.5], 0.0, container='hdf5'))
        self.kinds = ['transmission', 'emission'] + (['direct'] if thorough else [])
        self.win = linwin(1030.0, 3970.0, 13)
        self.seen = set()         # (kind, set index, list id)
        self.depth = {}           # (kind, term) -> (smallest peak, largest floor) of its vertical column optical depth
        self.done = 0

    def scenario(self, kind, ts):
        return ModelScenario('lists:%s' % kind, self.log, kind, ['contribs'], dict(contribs=[K_ONLY]),
                             dict(window=self.win, mode='ktables', T=1300.0 if kind == 'transmission' else 1500.0,
                                  mix=2e-4, mix2=5e-5, kset=ts, contribs=K_ONLY))

    def one(self, v, kind, si):
        ts = self.sets[si]
        cl = CList(v['list'])
        vec = dict(v, contribs_sweep=True, kind=kind, set=si)
        cls = 'lists:%s:%r:%r' % (kind, ts, cl)
        sc = self.scenario(kind, ts)
        c = sc._cfg([cl])
        try:
            install({}, {})
            km, xm = sc._build(c, 'ktables'), sc._build(c, 'xsec')
            try:
                use_paths(ts, 'ktables')
                rk = km.model(wngrid=np.array(self.win.grid))
                ktabs = cached()[0]
                use_paths(ts, 'xsec')
                rx = xm.model(wngrid=np.array(self.win.grid))
            finally:
                install({}, {})
        except Exception as ex:
            self.log.code_raised(ex, cls, vec)
            return
        out = model_twin(self.log, kind, sc.NLAYERS, ts, ktabs, rk, rx, xm, BASE, cls, 'contribution list %r' % cl, vec,
                         clause=LIST_CLAUSE, km=km, contribs=cl)
        rho, dz = np.asarray(xm.densityProfile, dtype=float), np.asarray(xm.deltaz, dtype=float)
        for kd, cn in zip(held_list(xm), xm.contribution_list):          # vertical column optical depth per term
            w = rho * rho * dz if kd == 'c3' else rho * dz
            col = np.sum(np.asarray(cn.sigma_xsec, dtype=float) * w[:, None], axis=0)
            lo, hi = self.depth.get((kind, kd), (np.inf, 0.0))
            self.depth[(kind, kd)] = (min(lo, float(col.max())), max(hi, float(col.min())))
        self.seen.add((kind, si, v['id']))
        self.done += 1

    def run(self, lists):
        for v in lists:
            if not (v['twin'] is True and v['orderfree'] is True):
                raise Machinery('unexpected content of an exported contribution list: %r' % v)
            for kind in self.kinds:
                for si in range(len(self.sets)):
                    self.one(v, kind, si)

    def self_check(self, lists):
        """the alphabet is realised and not vacuous: a continuum term before the molecular one, one after it, two or
        more of them; every continuum term enters the spectrum of the cross-section twin"""
        if not (any(not v['kfirst'] for v in lists) and any(not v['klast'] for v in lists) and any(v['ncont'] >= 2 for v in lists)
                and any(v['ncont'] >= 2 and not v['kfirst'] for v in lists) and any(v['ncont'] >= 2 and not v['klast'] for v in lists)):
            raise Machinery('the exported alphabet of contribution lists lacks a position class: %r' % [v['list'] for v in lists])
        for kind in self.kinds:
            for si in range(len(self.sets)):
                for v in lists:
                    if (kind, si, v['id']) not in self.seen:
                        raise Machinery('contribution list %r not realised for %s / table set %d' % (v['list'], kind, si))
            for kd in sorted({k for v in lists for k in v['list']}):
                lo, hi = self.depth.get((kind, kd), (0.0, np.inf))
                if kd != 'k' and not (lo >= 1e-5 and hi < 5.0):
                    raise Machinery('%s: the column optical depth of continuum term %s is %r .. %r: it does not enter the '
                                    'spectrum, or saturates it (vacuous)' % (kind, kd, lo, hi))


def run_lists(ctx, lists, root, log, thorough):
    sw = ListSweep(ctx, root, log, thorough)
    try:
        sw.run(lists)
    finally:
        install({}, {})
    return sw


def replay_lists(ctx, vecs, root, log):
    sw = ListSweep(ctx, root, log, True)
    try:
        for v in vecs:
            sw.one(v, v['kind'], v['set'])
    finally:
        install({}, {})
    return sw


def self_check(scs, log):
    """the window alphabet of spec/KTableHistory.tla is realised: equal sizes at different positions (also after
    the model's own clipping), same start / same end points, the full grid; the licensed clamp is the exception"""
    seen = set()
    for s in scs:
        wins = s.dims[s.settings.index('window')] if 'window' in s.settings else []
        seen |= collisions(wins)
        if s.evals == 0:
            raise Machinery('history scenario %s was never evaluated' % s.name)
        if isinstance(s, ModelScenario) and 'window' in s.settings:
            same = False
            for per_set in s.clip.values():
                sizes = sorted(per_set.values())
                same = same or any(a == b for a, b in zip(sizes, sizes[1:]))
            if not same:
                raise Machinery('%s: no two windows clip to equally many native points: %r' % (s.name, s.clip))
    missing = {'size', 'first', 'ends', 'full'} - seen
    if missing:
        raise Machinery('window classes of KTableHistory not realised by the scenarios: %r' % sorted(missing))
    # the configuration alphabet of KTableHistory inside the walks: both schemes, every route, both containers
    cs, containers = [], set()
    for s in scs:
        if 'config' in s.settings:
            cs += s.dims[s.settings.index('config')]
            if isinstance(s, TableScenario):
                containers.add(s.ts.container)
            else:
                containers |= {k.container for k in (s.dims[s.settings.index('kset')] if 'kset' in s.settings else [s.defaults['kset']])}
    if cs:
        lacking = (set(INTERPS) - {c.interp for c in cs}) | (set(ROUTES) - {c.route for c in cs}) | ({'pickle', 'hdf5'} - containers)
        if lacking:
            raise Machinery('configuration classes of KTableHistory not realised by the history scenarios: %r' % sorted(lacking))
    n = len(log.events)
    if n == 0 and not log.raised:
        raise Machinery('no twin event recorded')
    if log.licensed * 5 > n:
        raise Machinery('more than a fifth of the twin evaluations fall under the exp(-10) licence (%d of %d)' % (log.licensed, n))
