"""C17: the text source of an observation written line by line as the specification chose (spec/TextFile.tla).

A file is a sequence of lines: data rows in one of the number styles of the specification, comments, blank lines.
Every style round-trips a float64 exactly (17 significant digits), so the table the file denotes is the array handed in.
"""
import re

import numpy as np

from .core import Machinery, run_tlc

STYLES = ('plain', 'nolead', 'plus', 'exp', 'EXP', 'pad')
REFUTED = ('RefuteTitleLine', 'RefuteBlankStops', 'RefuteCommentTop')


def _plain(x):
    s = '%.17g' % x
    if 'e' in s:                      # keep the positional form the style names
        s = ('%.25f' % x).rstrip('0')
    return s


def number(x, style):
    x = float(x)
    if style in ('plain', 'pad'):
        return _plain(x)
    if style == 'nolead':             # list-directed Fortran / IDL output: no zero before the point of a number below one
        s = _plain(x)
        return s[1:] if s.startswith('0.') else s
    if style == 'plus':
        return '+' + _plain(x)
    if style == 'exp':
        return '%.16e' % x
    if style == 'EXP':
        return '%.16E' % x
    raise Machinery('unknown number style %r' % (style,))


def first_char_class(line):
    c = line[:1]
    return 'none' if c == '' else 'hash' if c == '#' else 'digit' if c.isdigit() else 'point' if c == '.' else 'sign' if c in '+-' else 'blank' if c in ' \t' else 'other'


EXPECT_FIRST = dict(plain='digit', exp='digit', EXP='digit', nolead='point', plus='sign', pad='blank')


def write_text(path, arr, lines):
    """arr: the rows in file order; lines: the specification's line records ([k: row|comment|blank, st: style]).
    The first character of every line is the one the specification reasons about (else: machinery)."""
    arr = np.asarray(arr, dtype=float)
    out, r = [], 0
    for l in lines:
        if l['k'] == 'comment':
            out.append('# wavelength(um)  depth  error  width(um) -- line %d' % (len(out) + 1))
        elif l['k'] == 'blank':
            out.append('')
        else:
            if r >= len(arr):
                raise Machinery('text layout has more data rows than the table (%d)' % len(arr))
            st = l['st']
            nums = [number(x, st) for x in arr[r]]
            s = ('   ' + '\t'.join(nums)) if st == 'pad' else ' '.join(nums)
            if first_char_class(s) != EXPECT_FIRST[st]:
                raise Machinery('row %r written in style %s starts with %r, the specification says %s' % (arr[r].tolist(), st, s[:1], EXPECT_FIRST[st]))
            if [float(t) for t in s.split()] != [float(x) for x in arr[r]]:
                raise Machinery('style %s does not round-trip %r' % (st, arr[r].tolist()))
            out.append(s)
            r += 1
    if r != len(arr):
        raise Machinery('text layout has %d data rows, the table %d' % (r, len(arr)))
    with open(path, 'w') as f:
        f.write('\n'.join(out) + '\n')
    return out


def layout_class(t):
    return 'first-%s%s%s' % (t['first'], '+mixed' if t['mixed'] else '', ''.join('+' + e for e in sorted(t['extras'])))


def generate(ctx, thorough=False):
    """Every file of 2 (2-3) data rows x 6 number styles with at most one comment / blank line (the run that also checks
    the reader and refutes its three variants) + TLC-simulated files of 2-4 rows with up to three extra lines."""
    res = run_tlc('MC_TextFile', 'EX_TextFile_%s.cfg' % ('thorough' if thorough else 'quick'), workers=1, allow_violation=True, extra=['-continue'])
    ctx.add_tlc('textfile-design+export', res)
    got = set(re.findall(r'Invariant (\S+) is violated', res.out))
    if got != set(REFUTED):
        raise Machinery('TextFile: expected TLC to refute exactly %r, got %r\n%s' % (sorted(REFUTED), sorted(got), res.out[-1200:]))
    files = res.tagged('TXT')
    n = 100 if not thorough else 1000
    sim = run_tlc('MC_TextFile', 'SIM_TextFile.cfg', workers=1, simulate='num=%d' % n, depth=9, seed=ctx.seed + 17)
    ctx.add_tlc('textfile-walks', sim, counts=False)
    if sim.violated:
        raise Machinery('TextFile (simulation) violates %s' % sim.violated)
    walks = sim.tagged('TXT')
    if len(files) < (252 if not thorough else 2196) or len(walks) < n // 2:
        raise Machinery('TextFile export incomplete: %d files, %d simulated' % (len(files), len(walks)))
    seen, uniq = set(), []
    for t in files + walks:
        k = repr(t['lines'])
        if k not in seen:
            seen.add(k)
            uniq.append(t)
    firsts = {t['first'] for t in uniq}
    extras = {e for t in uniq for e in t['extras']}
    if firsts != set(STYLES) or not {'comment-top', 'comment-mid', 'comment-end', 'blank-top', 'blank-mid', 'blank-end'} <= extras:
        raise Machinery('TextFile export does not cover every first-line style / extra-line position: %r %r' % (sorted(firsts), sorted(extras)))
    return uniq
