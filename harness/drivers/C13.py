"""C13 -- restricting the spectral grid never changes the values computed on it.

Spec: spec/Grid.tla (clip, mid-point widths, overlap binning, opacity selection, native choice),
      spec/MC_GridSel.tla (selection: exhaustive + export), spec/MC_GridBin.tla (clip + binning:
      exhaustive design check of the clip margin + export), spec/Trace_Grid.tla (binding B).
Design level:  PointwiseIndependent / OwnPointsUnchanged / BetweenNeighbours for the repaired
      selection; refuted for the as-built one (ledger L-C13a); BinningCommutes holds for uniform
      native grids and for gap < W/3, and is REFUTED under the literal condition gap < W/2
      (ledger L-C13b, kept as an expected-counterexample self test).
Binding A: exported vectors replayed into Opacity.opacity / KTable.opacity, clip_native_to_wngrid
      + FluxBinner, and real Transmission / Emission models with two molecules on different grids.
Binding B: random integer "constant-R like" grids through the real clip/binner/opacity, every
      event validated by TLC against the Grid operators + canary.
Saturation cut-off (spec/Saturation.tla, MC_Saturation.tla, Trace_Saturation.tla): the licensed
      exp(-10) deviation is a PER-POINT slack -- a contribution (transmission) or a layer term
      (emission) may be missing at a wavenumber only where the layer is darker than the cut-off at
      THAT wavenumber.  TLC proves that the documented rule ("skip when every computed wavenumber
      is above 10", which depends on the computed set) stays inside this licence for every
      pattern of optical depths and every computed subset / sub-range / observation clip, and
      refutes any()-style coupling.  Exported input classes drive real Transmission / Emission
      models with 2-4 contributions (molecules on different grids, a user-defined contribution,
      CIA, Rayleigh) whose spectra have saturated bands and transparent windows in the same
      layer: full grid vs. sub-grid vs. observation-restricted, judged per layer and per point;
      every layer of every run pair is a trace event validated by TLC (+ canaries).
Histories (spec/GridHistory.tla, MC_GridHistory.tla, EX_GridHistory.tla, Trace_GridHistory.tla, Functional.tla): the
      statement quantifies over grids, not over what the model object did before.  Design level: a memo of a per-grid
      quantity (clipped grid, stellar SED, opacity selection) kept on a long-lived model is accepted when keyed on the
      requested points (+ cutoff flag) and REFUTED (17 mutants, one TLC run per window alphabet) when keyed on the
      size, the first point, the requested end points, the points without the flag, or kept across a full-grid run.
      Binding C: TLC exports the behaviours of the memo-free design (all sequences of 2-3 requests over the alphabet:
      same size elsewhere / same start other length / same end points other density / between native points /
      cutoff_grid=False / no grid) with the grid each evaluation must return; they are replayed on ONE real emission,
      direct-image and transmission model each (harness/fx_c13hist.py) and every evaluation must equal the FULL
      native computation of a fresh model at those points.  TLC-generated set/eval walks (harness/history.py) change
      the request, the temperature and a mixing ratio of one long-lived model; every evaluation equals a freshly
      built model's and is a trace event whose clip TLC re-evaluates (Trace_GridHistory.tla, + canaries).
Entry points (round 3): "a model spectrum" is what ANY evaluating entry point returns -- model(), model_contrib() (one
      spectrum per contribution), model_full_contrib() (one per component).  GridHistory.tla carries the entry point as
      a second coordinate of the request, the contribution list of the long-lived object as state and a request that is
      REFUSED (no native point in reach); 10 slips of an entry point are refuted (clip arguments exchanged, cutoff flag
      ignored, contribution list left changed after a served / a refused per-component evaluation).  The exported
      behaviours carry every sequence of entry points, the walks change the entry point between evaluations, the
      model-level runs of binding A compare and bin every spectrum of every entry point.
Length of the computed grid (round 4, spec/MC_GridLength.tla, harness/fx_c13len.py): "does not depend on which other wavenumbers
      are computed" also means: not on HOW MANY, nor on where a point sits inside the computed grid.  Design level: a per-point
      kernel whose implementation is selected from the shape of the computed grid (below / from / exactly K points, the
      remainder of a K-wide kernel, the end points) is REFUTED for every K (one TLC run, -continue: every slip violates
      SlipIndependent) and every such slip is SEPARATED by the exported requests (SlipSeparated) -- which needs a native
      grid longer than every threshold (150 / 300 points) and clips of EVERY length 1..N-1; the 20-point grids of the
      history alphabets separate nothing above 20 (expected counterexample).  Binding A: every exported request (every
      length, at the low end / inside / at the high end of the native grid; two bin centres anywhere, or native points
      themselves) on long-lived optically thin emission / direct-image / transmission models, model() and the
      per-component entry points, against the full native computation of a fresh model at 1e-12 (rounding of per-point
      arithmetic; the exp(-10) licence exists only where a layer is saturated at that wavenumber, nowhere here).
      The random band/window spectra of the saturation binding also run on native grids of 70-140 points.
"""
import random
import re
from fractions import Fraction

import numpy as np

from ..core import Machinery, frac, close, validate_trace, run_tlc
from ..fixtures import GridOpacity, GridKTable

REL = 1e-12
PRIMES = [2, 3, 5, 7, 11, 13, 17, 19, 23, 29, 31, 37, 41, 43, 47, 53, 59, 61, 67, 71]
BAND = 'nonuniform:W/3<=gap<W/2'

# Ledger item L-C13b (a design decision for the maintainers, not repaired) is listed in known_findings.json.


# ----------------------------------------------------------------------------
# fixtures
# ----------------------------------------------------------------------------

def const_opacity(name, wn, vals_m2, layout='xsec'):
    """Opacity whose table does not depend on T and P: opacity(T,P)[k] = vals_m2[k] exactly."""
    wn = np.asarray(wn, dtype=float)
    v = np.asarray(vals_m2, dtype=float) * 1e4          # cm^2
    temps = [500.0, 1500.0]
    press = [1e-4, 1e8]
    x = np.broadcast_to(v, (2, 2, len(wn))).copy()
    if layout == 'xsec':
        return GridOpacity(name, wn, temps, press, x, 'linear')
    kc = np.stack([x, x * 3.0], axis=-1)
    return GridKTable(name, wn, temps, press, kc, [0.25, 0.75], 'linear')


def call_opacity(op, grid, layout):
    res = np.asarray(op.opacity(1000.0, 1e3, None if grid is None else np.asarray(grid, dtype=float)))
    if layout == 'ktable':
        res = res.reshape(-1, 2)
        if not np.allclose(res[:, 1], 3.0 * res[:, 0], rtol=1e-13, atol=0):
            return res[:, 0] * np.nan
        return res[:, 0]
    return res.ravel()


def sel_class(vec):
    g, r = vec['g'], vec['n'][vec['a'] - 1:vec['b']]
    inside = [x for x in g if r[0] <= x <= r[-1]]
    if vec['ident']:
        return 'identity'
    if not inside:
        return 'no-own-point-in-range'
    if all(x in g for x in r):
        return 'subset-of-own-points'
    coarse = any((x not in g) and g[0] < x < g[-1] and (x < inside[0] or x > inside[-1]) for x in r)
    return 'edge-between-own-points' if coarse else 'interior'


# ----------------------------------------------------------------------------
# binding A, opacity selection
# ----------------------------------------------------------------------------

def judge_sel(ctx, vec, layout, scale, offset):
    g = [offset + scale * x for x in vec['g']]
    n = [offset + scale * x for x in vec['n']]
    a, b = vec['a'], vec['b']
    r = n[a - 1:b]
    vals = np.array([PRIMES[i] for i in range(len(g))], dtype=float) * 1e-24
    op = const_opacity('X', g, vals, layout)
    cls = 'sel:%s:%s' % (layout, sel_class(vec))
    v = dict(vec, layout=layout, scale=scale, offset=offset, kind='sel')
    try:
        full = call_opacity(op, n, layout)
    except Exception as e:                                   # the full request cannot be served at all
        ctx.verdict('pointwise_independent', False, cls=cls, detail='full request raised %r' % (e,), vector=v)
        return
    try:
        sub = call_opacity(op, r, layout)
    except Exception as e:
        ctx.verdict('pointwise_independent', False, cls=cls, detail='sub-range request %r raised %r' % (r, e), vector=v)
        return
    ok = len(sub) == len(r) and len(full) == len(n)
    if not ok:
        ctx.verdict('pointwise_independent', False, cls=cls, detail='result length %d/%d' % (len(sub), len(full)), vector=v)
        return
    bad = [(r[k], float(sub[k]), float(full[a - 1 + k])) for k in range(len(r))
           if not close(sub[k], full[a - 1 + k], rel=REL)]
    ctx.verdict('pointwise_independent', not bad, cls=cls,
                detail='(wn, sub-range value, full value) %r' % (bad[:3],), vector=v)
    for k, x in enumerate(r):
        nb = [vals[i - 1] for i in vec['nb'][k]]
        if x in g:
            ctx.verdict('own_points_unchanged', close(sub[k], vals[g.index(x)], rel=REL), cls=cls,
                        detail='wn %r got %r table %r' % (x, float(sub[k]), float(vals[g.index(x)])), vector=v)
        elif g[0] < x < g[-1]:
            lo, hi = min(nb), max(nb)
            ctx.verdict('between_neighbours', lo * (1 - REL) <= sub[k] <= hi * (1 + REL), cls=cls,
                        detail='wn %r got %r neighbours %r' % (x, float(sub[k]), nb), vector=v)
        else:   # outside the molecule's range only one neighbour exists: finite and non-negative
            ctx.verdict('between_neighbours', bool(np.isfinite(sub[k])) and sub[k] >= 0, cls=cls + ':outside',
                        detail='wn %r got %r' % (x, float(sub[k])), vector=v)


def run_sel_vectors(ctx, vecs, quick):
    rng = random.Random(ctx.seed * 131 + 13)
    if quick and len(vecs) > 1500:
        keep = [v for v in vecs if sel_class(v) in ('edge-between-own-points', 'no-own-point-in-range')]
        rest = [v for v in vecs if v not in keep]
        rng.shuffle(keep)
        rng.shuffle(rest)
        vecs = keep[:700] + rest[:800]
    for i, vec in enumerate(vecs):
        scale, offset = rng.choice([(1, 0), (25, 1000), (0.5, 300)])
        judge_sel(ctx, vec, 'xsec', scale, offset)
        if i % 3 == 0:
            judge_sel(ctx, vec, 'ktable', scale, offset)
    return len(vecs)


# ----------------------------------------------------------------------------
# binding A, clip + binning
# ----------------------------------------------------------------------------

def bin_class(vec):
    if vec['half'] and vec['uniform']:
        return 'uniform'
    if vec['third']:
        return 'nonuniform:gap<W/3'
    if vec['half']:
        return BAND
    return None                                            # outside the stated width condition


def exact_binned(weights, f):
    s = sum(weights)
    if s == 0:
        return None
    return Fraction(sum(w * x for w, x in zip(weights, f)), s)


def same(a, b):
    a, b = float(a), float(b)
    if a != a and b != b:
        return True
    return close(a, b, rel=1e-11)


def judge_bin(ctx, vec, rng, stats):
    from taurex.util.util import clip_native_to_wngrid
    from taurex.binning import FluxBinner
    scale = rng.choice([1.0, 25.0, 0.5])
    nat = np.array(vec['nat'], dtype=float) * scale
    oc = np.array(vec['oc'], dtype=float) * scale
    ow = np.array(vec['ow2'], dtype=float) * scale / 2.0
    f = [rng.randint(1, 99) for _ in vec['nat']]
    spec = np.array(f, dtype=float) / 64.0
    cls0 = bin_class(vec)
    # the requested grid is a set of bins: it is handed over in both legal orders (ascending wavenumber, and descending =
    # ascending wavelength); the spec's clip and binning are functions of the set, so both orders must give its values
    for order in ('asc', 'desc'):
        _judge_bin_order(ctx, vec, stats, nat, oc, ow, f, spec, scale, cls0, order)


def _judge_bin_order(ctx, vec, stats, nat, oc, ow, f, spec, scale, cls0, order):
    from taurex.util.util import clip_native_to_wngrid
    from taurex.binning import FluxBinner
    first = order == 'asc'
    osfx = '' if first else ':req=desc'
    oc_req, ow_req = (oc, ow) if first else (oc[::-1].copy(), ow[::-1].copy())
    v = dict(vec, scale=scale, f=f, kind='bin', order=order)
    clip = clip_native_to_wngrid(nat, oc_req)
    # the returned grid is a contiguous part of the native grid that keeps every point contributing to a bin
    needed = [i for i in range(len(nat)) if any(vec['wfull'][j][i] > 0 for j in range(len(oc)))]
    idx = [int(np.where(nat == x)[0][0]) for x in clip if x in nat]
    ok = len(idx) == len(clip) and idx == list(range(idx[0], idx[0] + len(idx))) if len(clip) else True
    keeps = all(i in idx for i in needed) if GWholeGap(vec) else True
    ctx.verdict('clip_retains_needed_points', bool(ok and keeps), cls='clip:%s%s' % (cls0 or 'gap<W', osfx),
                detail='native %r obs %r clip %r needed idx %r' % (vec['nat'], vec['oc'], list(clip), needed), vector=v)
    if len(clip) < 2:
        return
    binner = FluxBinner(wngrid=oc_req, wngrid_width=ow_req)
    bfull = np.asarray(binner.bindown(nat, spec)[1], dtype=float)
    sel = np.array(idx, dtype=int)
    bclip = np.asarray(binner.bindown(clip, spec[sel])[1], dtype=float)
    # the real binner is the spec's overlap-weighted mean (on the full grid and on the real clip when it is the spec's clip)
    spec_clip = idx == list(range(vec['lo'] - 1, vec['hi']))
    for j in range(len(oc)):
        e = exact_binned(vec['wfull'][j], f)
        if e is not None:
            ctx.verdict('binner_is_overlap_mean', close(bfull[j], float(e) / 64.0, rel=1e-11), cls='bin:full' + osfx,
                        detail='bin %d got %r expected %r' % (j, float(bfull[j]), float(e) / 64.0), vector=v)
        if spec_clip:
            e = exact_binned(vec['wclip'][j], [f[i] for i in idx])
            if e is not None:
                ctx.verdict('binner_is_overlap_mean', close(bclip[j], float(e) / 64.0, rel=1e-11), cls='bin:clip' + osfx,
                            detail='bin %d got %r expected %r' % (j, float(bclip[j]), float(e) / 64.0), vector=v)
    equal = all(same(bclip[j], bfull[j]) for j in range(len(oc)))
    if cls0 is None:
        if first:
            stats['outside'] += 1
            stats['outside_diff'] += 0 if equal else 1
        return
    if first:
        stats[cls0] = stats.get(cls0, 0) + 1
        if not equal and cls0 == BAND:
            stats['band_diff'] += 1
    ctx.verdict('binning_commutes', equal, cls='bin:' + osfx[1:] + (':' if osfx else '') + cls0,
                detail='native %r obs %r widths %r: binned(clipped) %r != binned(full) %r' %
                       (list(nat), list(oc), list(ow), [float(x) for x in bclip], [float(x) for x in bfull]), vector=v)


def GWholeGap(vec):
    """gap < W (the weaker bound under which every contributing point survives the clip)."""
    gaps = [b - a for a, b in zip(vec['nat'], vec['nat'][1:])]
    return all(2 * g < vec['W2'] for g in gaps) and all(w <= vec['W2'] for w in vec['ow2'])


# ----------------------------------------------------------------------------
# binding A, real forward models with two molecules on different grids
# ----------------------------------------------------------------------------

def build_model(kind, grids, vals):
    from taurex.cache import OpacityCache
    from taurex.model import TransmissionModel, EmissionModel
    from taurex.chemistry import TaurexChemistry, ConstantGas
    from taurex.temperature import Isothermal
    from taurex.planet import Planet
    from taurex.stellar import BlackbodyStar
    from taurex.contributions import AbsorptionContribution
    OpacityCache().clear_cache()
    names = ['H2O', 'CH4', 'CO2'][:len(grids)]
    for nm, g, v in zip(names, grids, vals):
        OpacityCache().add_opacity(const_opacity(nm, g, v))
    chem = TaurexChemistry(fill_gases=['H2', 'He'], ratio=0.17)
    for nm in names:
        chem.addGas(ConstantGas(nm, 1e-4))
    kw = dict(planet=Planet(planet_mass=1.0, planet_radius=1.0), star=BlackbodyStar(temperature=5000.0, radius=1.0),
              chemistry=chem, temperature_profile=Isothermal(T=1000.0), nlayers=6,
              atm_min_pressure=1e-1, atm_max_pressure=1e5)
    m = EmissionModel(ngauss=2, **kw) if kind == 'emission' else TransmissionModel(**kw)
    m.add_contribution(AbsorptionContribution())
    m.build()
    return m


def smooth_vals(rng, grid, level):
    """Optically thin cross-sections (no layer saturates: the tau>10 early exit never fires)."""
    return [level * (1.0 + 0.5 * rng.random() + 0.4 * np.sin(0.37 * i)) for i in range(len(grid))]


def judge_model(ctx, vec, rng, kind, variant):
    from taurex.binning import FluxBinner
    from taurex.cache import OpacityCache
    scale, offset = 20.0, 1000.0
    nat = [offset + scale * x for x in vec['nat']]
    oc = np.array([offset + scale * x for x in vec['oc']])
    ow = np.array(vec['ow2'], dtype=float) * scale / 2.0
    if variant == 'subset':                                # second molecule on every other native point
        g2 = nat[::2] if len(nat[::2]) >= 2 else nat[:2]
    elif variant == 'shifted':                             # coarser grid, not a subset, reaching beyond the native range
        g2 = [nat[0] - 7.0] + [0.5 * (x + y) for x, y in zip(nat[1::2], nat[2::2])] + [nat[-1] + 9.0]
    else:                                                  # same grid
        g2 = list(nat)
    g2 = g2[:len(nat) - 1] if len(g2) >= len(nat) and variant != 'same' else g2
    grids = [nat, g2]
    vals = [smooth_vals(rng, nat, 3e-26), smooth_vals(rng, g2, 2e-26)]
    cls0 = bin_class(vec)
    v = dict(vec, kind='model', model=kind, variant=variant, vals=vals)
    binner = FluxBinner(wngrid=oc, wngrid_width=ow)
    # every entry point that returns model spectra: model() the sum, model_contrib() one spectrum per contribution,
    # model_full_contrib() one per molecule -- each returned spectrum is a model spectrum of the statement
    for entry in MODEL_ENTRIES:
        cls = 'model:%s:%s' % (kind, variant) + ('' if entry == 'model' else ':' + entry)
        try:
            m = build_model(kind, grids, vals)
            f = getattr(m, entry)
            gf, full = entry_spectra(entry, f())
            try:
                gc, clipped = entry_spectra(entry, f(wngrid=oc))
                gu, uncut = entry_spectra(entry, f(wngrid=oc, cutoff_grid=False))
            except Exception as e:
                ctx.verdict('pointwise_independent', False, cls=cls, detail='the restricted computation raised %r (full one succeeded)' % (e,), vector=v)
                continue
        finally:
            OpacityCache().clear_cache()
        ctx.verdict('native_grid_is_longest', np.array_equal(gf, np.array(nat)), cls=cls,
                    detail='full grid has %d points, longest molecule grid %d' % (len(gf), len(nat)), vector=v)
        ctx.verdict('pointwise_independent', np.array_equal(gu, gf) and [x for x, _ in uncut] == [x for x, _ in full]
                    and all(np.array_equal(su, sf) for (_, su), (_, sf) in zip(uncut, full)),
                    cls=cls + ':cutoff_grid=False', detail='cutoff_grid=False must be the full computation', vector=v)
        if not len(gc) or not all(x in gf for x in gc) or [x for x, _ in clipped] != [x for x, _ in full] \
                or any(sc.shape != gc.shape for _, sc in clipped) or any(sf.shape != gf.shape for _, sf in full):
            ctx.verdict('pointwise_independent', False, cls=cls,
                        detail='clipped grid %r is not part of the native grid, or spectra %r (full computation: %r) / their shapes differ'
                               % (gc.tolist()[:6], [x for x, _ in clipped], [x for x, _ in full]), vector=v)
            continue
        idx = [int(np.where(gf == x)[0][0]) for x in gc]
        bad = [(lab, float(gc[k]), float(sc[k]), float(sf[i])) for (lab, sc), (_, sf) in zip(clipped, full)
               for k, i in enumerate(idx) if not close(sc[k], sf[i], rel=REL)]
        ctx.verdict('pointwise_independent', not bad, cls=cls,
                    detail='%d of %d values differ, e.g. (spectrum, wn, restricted, full) %r' % (len(bad), len(idx) * len(full), bad[:2]), vector=v)
        if cls0 is None or len(gc) < 2:
            continue
        worst = None
        for (lab, sc), (_, sf) in zip(clipped, full):
            bf = np.asarray(binner.bin_model((gf, sf, None, None))[1])
            bc = np.asarray(binner.bin_model((gc, sc, None, None))[1])
            if worst is None or not all(same(x, y) for x, y in zip(bc, bf)):
                worst = (lab, bc, bf)
        lab, bc, bf = worst
        ctx.verdict('binning_commutes', all(same(x, y) for x, y in zip(bc, bf)), cls='model:%s:%s%s' % (kind, '' if entry == 'model' else entry + ':', cls0),
                    detail='%s: binned(restricted) %r != binned(full) %r' % (lab, [float(x) for x in bc], [float(x) for x in bf]), vector=v)


MODEL_ENTRIES = ('model', 'model_contrib', 'model_full_contrib')


def entry_spectra(entry, r):
    """what an entry point of a forward model returned -> grid, [(label, spectrum)]; a malformed answer is an empty list"""
    try:
        g = np.asarray(r[0], dtype=float)
        if entry == 'model':
            return g, [('all', np.asarray(r[1], dtype=float))]
        if entry == 'model_contrib':
            return g, [(str(k), np.asarray(x[0], dtype=float)) for k, x in r[1].items()]
        return g, [('%s:%s' % (k, x[0]), np.asarray(x[1], dtype=float)) for k, lst in r[1].items() for x in lst]
    except Exception:
        return np.zeros(0), []


def run_bin_vectors(ctx, vecs, quick):
    rng = random.Random(ctx.seed * 977 + 5)
    stats = {'outside': 0, 'outside_diff': 0, 'band_diff': 0}
    vecs = list(vecs)
    rng.shuffle(vecs)
    if quick:
        band = [v for v in vecs if bin_class(v) == BAND]
        other = [v for v in vecs if bin_class(v) != BAND]
        vecs = band[:1500] + other[:4500]
    for vec in vecs:
        judge_bin(ctx, vec, rng, stats)
    # model level: a few vectors of every class, long enough to have a coarser second grid
    picks = {}
    for vec in vecs:
        c = bin_class(vec)
        if c is None or len(vec['nat']) < 5 or vec['hi'] - vec['lo'] < 2:
            continue
        picks.setdefault(c, [])
        if len(picks[c]) < (3 if quick else 14):
            picks[c].append(vec)
    nmodel = 0
    for c, lst in sorted(picks.items()):
        for i, vec in enumerate(lst):
            for kind in ('transmission', 'emission'):
                variant = ['subset', 'shifted', 'same'][(i + (kind == 'emission')) % 3]
                judge_model(ctx, vec, rng, kind, variant)
                nmodel += 1
    ctx.note('binning vectors by class: %r; model-level runs: %d' % (stats, nmodel))
    if stats['outside'] and not stats['outside_diff']:
        ctx.note('no vector outside the width condition showed a difference (condition not shown necessary here)')
    return len(vecs)


# ----------------------------------------------------------------------------
# binding B: random grids through the real code, validated by TLC
# ----------------------------------------------------------------------------

def rgrid(rng, npts, start, res):
    """Integer grid whose gaps grow like a constant-resolution grid (gap ~ x / res), non-uniform after rounding."""
    g = [start]
    while len(g) < npts:
        g.append(g[-1] + max(1, int(round(g[-1] / res + rng.choice([0, 0, 0, 1])))))
    return g


def measure(nat, oc, ow2, f, S, eid):
    """One real run of clip + binner on the full and on the clipped grid -> trace event (None if not loggable)."""
    from taurex.util.util import clip_native_to_wngrid
    from taurex.binning import FluxBinner
    natf, ocf = np.array(nat, dtype=float), np.array(oc, dtype=float)
    clip = clip_native_to_wngrid(natf, ocf)
    if len(clip) < 2:
        return None
    lo = int(np.where(natf == clip[0])[0][0]) + 1
    hi = int(np.where(natf == clip[-1])[0][0]) + 1
    contiguous = (hi - lo + 1 == len(clip)) and np.array_equal(natf[lo - 1:hi], clip)
    binner = FluxBinner(wngrid=ocf, wngrid_width=np.array(ow2, dtype=float) / 2.0)
    spec = np.array(f, dtype=float)
    bf = np.asarray(binner.bindown(natf, spec)[1])
    bc = np.asarray(binner.bindown(clip, spec[lo - 1:hi])[1])
    if not (np.all(np.isfinite(bf)) and np.all(np.isfinite(bc))):
        return None                                        # a bin touching the native range in a point: 0/0, measure zero
    return dict(id=eid, ev='clipbin', nat=nat, oc=oc, ow2=ow2, lo=lo if contiguous else -1, hi=hi,
                f=f, S=S, bf=[int(round(x * S)) for x in bf], bc=[int(round(x * S)) for x in bc], tol=1)


def trace_events(rng, n):
    events = []
    S = 1000
    while len(events) < n:
        style = rng.random()
        npts = rng.randint(100, 400)
        if style < 0.35:                                   # uniform native grid
            gap = rng.randint(1, 4)
            s0 = rng.randint(50, 400)
            nat = [s0 + gap * i for i in range(npts)]
        else:
            nat = rgrid(rng, npts, rng.randint(150, 600), rng.choice([100, 150, 250]))
        maxgap = max(b - a for a, b in zip(nat, nat[1:]))
        # observation: centres inside the native range, widest mid-point width W tuned around the condition
        k = rng.randint(2, 6)
        mode = rng.random()
        factor = 3 if mode < 0.6 else 2                    # W > 3*gap (claim holds) or W > 2*gap (literal condition)
        wmin = factor * maxgap + 1
        c0 = rng.randint(nat[0] + 2 * wmin, max(nat[0] + 2 * wmin + 1, nat[-1] - (k + 2) * (wmin + 6)))
        oc = [c0]
        for _ in range(k - 1):
            oc.append(oc[-1] + rng.randint(max(1, wmin // 2), wmin + 6))
        if oc[-1] >= nat[-1]:
            continue
        mid2 = [2 * (oc[1] - oc[0])] + [oc[i + 1] - oc[i - 1] for i in range(1, k - 1)] + [2 * (oc[-1] - oc[-2])]
        W2 = max(mid2)
        ow2 = list(mid2) if rng.random() < 0.5 else [rng.randint(max(1, W2 // 3), W2) for _ in oc]
        f = [rng.randint(0, 100) for _ in nat]
        e = measure(nat, oc, ow2, f, S, len(events))
        if e is not None:
            events.append(e)
    return events


def run_traces(ctx, n, events=None):
    rng = random.Random(ctx.seed * 7919 + 13)
    replaying = events is not None
    if events is None:
        events = trace_events(rng, n)
    accepted, bad, res = validate_trace('Trace_Grid', 'Trace_Grid.cfg', events, timeout=900)
    ctx.add_tlc('trace-clipbin', res, counts=False)
    if res.postcondition_false and not bad:
        raise Machinery('trace spec did not consume the whole trace:\n' + res.out[-1500:])
    classes = {c['id']: c['cls'] for c in res.tagged('CLS')}
    if len(classes) != len(events):
        raise Machinery('trace spec classified %d of %d events' % (len(classes), len(events)))
    badids = {}
    for b in bad:
        badids.setdefault(b['id'], []).append(b['why'])
    ctx.traces += len(events)
    count = {}
    for e in events:
        c = classes[e['id']]
        count[c] = count.get(c, 0) + 1
        why = badids.get(e['id'], [])
        slim = dict(kind='trace', id=e['id'], nat=e['nat'], oc=e['oc'], ow2=e['ow2'], f=e['f'])
        ctx.verdict('trace_clip_and_binner_conform', not [w for w in why if w != 'commutes'], cls='trace:' + c,
                    detail='TLC rejected %r: lo,hi=%r,%r bf=%r bc=%r' % (why, e['lo'], e['hi'], e['bf'], e['bc']), vector=slim)
        if c != 'outside':
            ctx.verdict('binning_commutes', 'commutes' not in why, cls='trace:' + c,
                        detail='binned(clipped) %r != binned(full) %r (x%d)' % (e['bc'], e['bf'], e['S']), vector=slim)
    ctx.note('trace events by class: %r' % (count,))
    if replaying:
        return
    ctx.add_sample(dict(trace_event={k: (v if not isinstance(v, list) or len(v) < 12 else v[:12] + ['...']) for k, v in events[0].items()}))
    # canary: corrupt one binned value of an accepted event
    good = [e for e in events if e['id'] not in badids and classes[e['id']] in ('uniform', 'third')]
    if not good:
        raise Machinery('no accepted event available for the canary')
    c = dict(good[len(good) // 2])
    c['bc'] = list(c['bc'])
    c['bc'][0] += 7 * c['S']
    ok2, bad2, _ = validate_trace('Trace_Grid', 'Trace_Grid.cfg', [c])
    if ok2 or not bad2:
        raise Machinery('canary accepted: trace validation is vacuous')
    c = dict(good[0])
    c['lo'] = c['hi'] - 1                                  # almost everything clipped away
    ok2, bad2, _ = validate_trace('Trace_Grid', 'Trace_Grid.cfg', [c])
    if ok2 or not bad2:
        raise Machinery('canary (clip range) accepted: trace validation is vacuous')


# ----------------------------------------------------------------------------
# the licensed saturation cut-off: several contributions, saturated bands and transparent windows in
# the same layer (spec/Saturation.tla, MC_Saturation.tla, Trace_Saturation.tla)
# ----------------------------------------------------------------------------

SAT_S = 100000            # optical depths are logged in units of 1e-5
SAT_CAP = 600.0           # a logged depth saturates here (the transmittance underflows beyond ~745)
EM_S = 10 ** 9            # emission layer values exp(-xl) - exp(-xd) are logged in units of 1e-9
LEVEL_UNIT = {'abs': 1e-26, 'table': 1e-30, 'cia': 1e-60}
EXP10 = float(np.exp(-10.0))


def sat_vec_class(vec, model):
    """input class of an exported vector, as TLC computed it (documented rule 'all' and the slip 'any')"""
    if model == 'emission':
        if vec['emdisc']:
            return 'coupled'
        return 'licence-used' if vec['emdiff'] else ('dark' if any(vec['lic']) else 'thin')
    if vec['disc']:
        return 'coupled'
    if vec['txdiff']:
        return 'licence-used'
    if vec['exits']:
        return 'exit-in-both'
    return 'dark-no-exit' if any(vec['lic']) else 'thin'


def own_grid(nat, variant):
    """a contribution's / second molecule's own wavenumber grid, given the model's native grid"""
    nat = list(nat)
    if variant == 'native' or len(nat) < 4:
        return list(nat)
    if variant == 'subset':
        g = nat[::2]
        return g if g[-1] == nat[-1] else g + [nat[-1]]
    step = nat[1] - nat[0]
    return [nat[0] - 0.7 * step] + [0.5 * (x + y) for x, y in zip(nat[1::2], nat[2::2])] + [nat[-1] + 0.9 * step]


def levels_on(grid, nat, lev):
    """level carried by an own-grid point = level of the nearest native point"""
    nat = np.asarray(nat)
    return [float(lev[int(np.argmin(np.abs(nat - x)))]) for x in grid]


def calibrated_case(model, nat, rows, req, rng, label, *, nlayers, ref, temps, how, src=None, rayleigh_at=None, compo=''):
    """rows: [{'type': 'abs'|'table'|'cia', 'lev': level per native point (optical depth wanted in layer `ref`),
               'variant': own-grid variant, 'second': variant of a second molecule or None}] in evaluation order.
    Builds the model once with unit tables, measures what every contribution adds to layer `ref` with its own
    contribute(), and rescales the tables so that the wanted levels are realised there.  Returns a self-contained,
    JSON-able case (final tables), or None if a row cannot be calibrated."""
    from .. import fx_saturation as fx
    nat = [float(x) for x in nat]
    comps = []
    for r in rows:
        lev = [float(x) for x in r['lev']]
        jit = [1.0 + 0.03 * (rng.random() - 0.5) for _ in nat]
        if r['type'] == 'abs':
            mols = [['H2O', nat, [l * j * LEVEL_UNIT['abs'] for l, j in zip(lev, jit)]]]
            if r.get('second'):
                g2 = own_grid(nat, r['second'])
                if r['second'] != 'same' and len(g2) >= len(nat):
                    g2 = g2[:len(nat) - 1]
                mols.append(['CH4', [float(x) for x in g2],
                             [0.3 * l * (1.0 + 0.03 * (rng.random() - 0.5)) * LEVEL_UNIT['abs'] for l in levels_on(g2, nat, lev)]])
            comps.append(dict(type='abs', mols=mols, lev=lev))
        else:
            g = own_grid(nat, r.get('variant', 'native'))
            vals = [l * (1.0 + 0.03 * (rng.random() - 0.5)) * LEVEL_UNIT[r['type']] for l in levels_on(g, nat, lev)]
            comps.append(dict(type=r['type'], grid=[float(x) for x in g], vals=vals, lev=lev))
    if rayleigh_at is not None:
        comps.insert(min(rayleigh_at, len(comps)), dict(type='rayleigh'))
    geo = dict(nlayers=nlayers, pmin=1e1, pmax=1e5, temps=temps)
    work = [dict(c) for c in comps]
    try:
        m = fx.build(model, work, **geo)
        m.model()
        xs = fx.measure(m, model)
        for c, wk in zip(comps, work):
            if c['type'] == 'rayleigh' or max(c['lev']) <= 0:
                continue
            x = xs[m.contribution_list.index(wk['contrib'])]
            x = x[ref] if model == 'transmission' else x[1][ref]
            w = int(np.argmax(c['lev']))
            if not (x[w] > 0 and np.isfinite(x[w])):
                return None
            f = c['lev'][w] / float(x[w])
            if c['type'] == 'abs':
                c['mols'] = [[nm, g, [v * f for v in vals]] for nm, g, vals in c['mols']]
            else:
                c['vals'] = [v * f for v in c['vals']]
    finally:
        fx.clear_caches()
    for c in comps:
        c.pop('lev', None)
    return dict(kind='sat', model=model, nat=nat, comps=comps, req=[float(x) for x in req], how=how, label=label,
                compo=compo, ref=ref, src=src, **geo)


def vector_case(vec, rng, model):
    """an exported vector of MC_Saturation (levels per zone and contribution, computed set) -> real model case"""
    nw, nc, how = len(vec['nat']), len(vec['inc']), vec['how']
    k = rng.choice([2, 3, 4]) if how == 'set' else rng.choice([1, 2, 3])
    scale, offset = rng.choice([(20.0, 1000.0), (7.0, 400.0), (50.0, 3000.0)])
    nat = [offset + scale * (p + 0.25 * j) for p in vec['nat'] for j in range(k)]
    zone = [w for w in range(nw) for _ in range(k)]
    abs_row = rng.randrange(nc)
    others = ['table', 'cia']
    rng.shuffle(others)
    rows, names = [], []
    for r in range(nc):
        lev = [vec['inc'][r][z] for z in zone]
        if r == abs_row:
            second = rng.choice([None, 'subset', 'shifted', 'same'])
            rows.append(dict(type='abs', lev=lev, second=second))
            names.append('abs' + ('+' + second if second else ''))
        else:
            variant = rng.choice(['native', 'subset', 'shifted'])
            t = others.pop()
            rows.append(dict(type=t, lev=lev, variant=variant))
            names.append('%s@%s' % (t, variant))
    if how == 'set':
        req = [x for x, z in zip(nat, zone) if vec['a'] - 1 <= z <= vec['b'] - 1]
    else:
        req = [offset + scale * c for c in vec['oc']]
    nlayers = rng.choice([5, 6, 8])
    ref = rng.randrange(1, nlayers - 1)
    temps = None
    if model == 'emission' and rng.random() < 0.5:
        temps = [float(t) for t in np.linspace(1600.0, 800.0, nlayers)]
    ray = rng.randrange(nc + 1) if rng.random() < 0.3 else None
    label = 'sat:%s:%s:%dc:%s' % (model, how, nc, sat_vec_class(vec, model))
    compo = ','.join(names) + (',rayleigh@%d' % ray if ray is not None else '')
    src = {f: vec[f] for f in ('inc', 'a', 'b', 'how', 'oc', 'nat', 'disc', 'emdisc', 'txdiff', 'emdiff')}
    return calibrated_case(model, nat, rows, req, rng, label, nlayers=nlayers, ref=ref, temps=temps, how=how, src=src, rayleigh_at=ray, compo=compo)


def random_case(rng, model, quick, long=False):
    """band / window spectra on a constant-resolution-like grid: molecular absorption (one or two molecules on
    different grids) followed or preceded by a user-defined contribution, CIA and the real Rayleigh scattering;
    a window around the most transparent / most opaque point, a random sub-range, or an observation."""
    # (long: a native grid beyond the usual size thresholds of vectorised kernels, restricted to a short window)
    npts = rng.randint(70, 140) if long else rng.randint(30, 60 if quick else 110)
    lo = rng.choice([400.0, 1000.0, 4000.0])
    nat = [float(x) for x in np.geomspace(lo, lo * rng.choice([1.5, 3.0, 7.0]), npts)]
    lx = np.log(np.asarray(nat))
    span = lx[-1] - lx[0]

    def pattern():
        amp = rng.uniform(0.8, 1.8)
        cyc = rng.uniform(1.0, 4.0)
        ph = rng.uniform(0.0, 6.28)
        top = rng.choice([3.0, 12.0, 40.0])
        return [float(top * 10 ** (amp * (np.sin(2 * np.pi * cyc * (x - lx[0]) / span + ph) - 1.0))) for x in lx]
    nc = rng.choice([2, 2, 3])
    abs_row = rng.randrange(nc)
    others = ['table', 'cia']
    rng.shuffle(others)
    rows, names = [], []
    for r in range(nc):
        if r == abs_row:
            second = rng.choice([None, 'subset', 'shifted', 'same'])
            rows.append(dict(type='abs', lev=pattern(), second=second))
            names.append('abs' + ('+' + second if second else ''))
        else:
            t = others.pop()
            variant = rng.choice(['native', 'subset', 'shifted'])
            rows.append(dict(type=t, lev=pattern(), variant=variant))
            names.append('%s@%s' % (t, variant))
    first = rows[0]['lev']
    style = rng.choice(['window', 'band', 'range', 'obs'])
    if style == 'obs':
        i0 = rng.randrange(2, npts - 8)
        i1 = rng.randrange(i0 + 4, min(npts - 2, i0 + max(5, npts // 2)) + 1)
        nb = rng.randint(2, 5)
        req = [float(x) for x in np.linspace(nat[i0], nat[i1], nb)]
    else:
        half = rng.randint(2, max(3, npts // 6))
        c = int(np.argmin(first)) if style == 'window' else int(np.argmax(first)) if style == 'band' else rng.randrange(npts)
        c = min(max(c, half), npts - 1 - half)
        req = nat[c - half:c + half + 1]
    nlayers = rng.choice([6, 8, 10])
    ref = rng.randrange(1, nlayers - 1)
    temps = [float(t) for t in np.linspace(1500.0, 700.0, nlayers)] if (model == 'emission' and rng.random() < 0.5) else None
    ray = rng.randrange(nc + 1) if rng.random() < 0.5 else None
    label = 'satrand:%s:%s:%dc' % (model, style, nc)
    compo = ','.join(names) + (',rayleigh@%d' % ray if ray is not None else '')
    return calibrated_case(model, nat, rows, req, rng, label, nlayers=nlayers, ref=ref, temps=temps, how=style, rayleigh_at=ray, compo=compo)


def _sc(x):
    x = float(x)
    if x != x:
        raise ValueError('NaN optical depth')
    return int(round(min(x, SAT_CAP) * SAT_S))


def run_sat_case(ctx, case, events):
    """One model, three computations (full native grid, restricted, restricted with cutoff_grid=False), judged per
    layer and per wavenumber against the per-point licence; one trace event per layer is appended to `events`."""
    from .. import fx_saturation as fx
    from ..fx_emission import planck_flux
    model = case['model']
    cls = case['label']
    v = dict(kind='sat', case=case)
    nat = np.array(case['nat'])
    req = np.array(case['req'])
    comps = [dict(c) for c in case['comps']]
    try:
        m = fx.build(model, comps, nlayers=case['nlayers'], pmin=case['pmin'], pmax=case['pmax'], temps=case['temps'])
        gf, sf, tf, _ = m.model()
        xs = fx.measure(m, model)
        try:
            gc, sc, tc, _ = m.model(wngrid=req)
            gu, su, tu, _ = m.model(wngrid=req, cutoff_grid=False)
        except Exception as e:
            ctx.verdict('pointwise_independent', False, cls=cls, detail='the restricted computation raised %r (full one succeeded)' % (e,), vector=v)
            return
        rp, rs = float(m.planet.fullRadius), float(m.star.radius)
        geom = 2.0 * (rp + np.asarray(m.altitudeProfile, dtype=float)) * np.asarray(m.deltaz, dtype=float) / rs ** 2
        tprof = [float(t) for t in m.temperatureProfile]
        tstar = float(m.star.temperature)
    finally:
        fx.clear_caches()
    gf, sf, tf, gc, sc, tc = [np.asarray(x, dtype=float) for x in (gf, sf, tf, gc, sc, tc)]
    ctx.verdict('native_grid_is_longest', np.array_equal(gf, nat), cls=cls,
                detail='full grid has %d points, longest molecule grid %d' % (len(gf), len(nat)), vector=v)
    ctx.verdict('pointwise_independent', np.array_equal(np.asarray(gu), gf) and np.array_equal(np.asarray(su), sf)
                and np.array_equal(np.asarray(tu), tf), cls=cls + ':cutoff_grid=False',
                detail='cutoff_grid=False must be the full computation', vector=v)
    idx = [int(np.searchsorted(gf, x)) for x in gc]
    if len(gc) == 0 or not np.array_equal(gf, nat):
        return
    if max(idx) >= len(gf) or not np.array_equal(gf[idx], gc) or idx != list(range(idx[0], idx[0] + len(idx))):
        ctx.verdict('pointwise_independent', False, cls=cls, detail='restricted grid is not a contiguous part of the native grid', vector=v)
        return
    a, b = idx[0] + 1, idx[-1] + 1
    nl, nw = tf.shape
    if not (np.all(np.isfinite(tf)) and np.all(np.isfinite(tc)) and np.all(np.isfinite(sf)) and np.all(np.isfinite(sc))):
        ctx.verdict('pointwise_independent', False, cls=cls, detail='non-finite value in a computed spectrum / layer array', vector=v)
        return

    def worst(bad, *arrs):
        l, w = [int(z) for z in np.argwhere(bad)[0]]
        return 'contributions in evaluation order [%s], layer %d, wn %r: %s' % (
            case.get('compo', ''), l, float(gc[w] if bad.shape[1] == len(gc) else gf[w]), ', '.join('%s=%r' % (n, float(arr[l, w])) for n, arr in arrs))
    with np.errstate(invalid='ignore', divide='ignore', over='ignore'):
        if model == 'transmission':
            X = np.array(xs)                                   # contribution, layer, native point
            tot = X.sum(axis=0)
            df, ds = fx.depth_of_tau(tf), fx.depth_of_tau(tc)

            def single(T, d, tt):
                eq = np.abs(d - tt) <= 1e-9 * np.maximum(1.0, tt)
                # beyond ~650 the transmittance is (close to) denormal and -ln() of it is no longer accurate
                dark = (T <= EXP10 * (1 + 1e-12)) & ((d <= tt * (1 + 1e-9) + 1e-9) | ((d > 640.0) & (tt > 640.0)))
                return eq | dark
            okf = single(tf, df, tot)
            ctx.verdict('saturation_skip_only_where_dark', bool(okf.all()), cls=cls + ':full-grid',
                        detail='%d layer-points of the full run miss a contribution although the layer is not darker than exp(-10) there; %s'
                               % (int((~okf).sum()), worst(~okf, ('tau', df), ('sum of contributions', tot)) if not okf.all() else ''), vector=v)
            oks = single(tc, ds, tot[:, idx])
            ctx.verdict('saturation_skip_only_where_dark', bool(oks.all()), cls=cls + ':restricted',
                        detail='%d layer-points of the restricted run miss a contribution although the layer is not darker than exp(-10) there; %s'
                               % (int((~oks).sum()), worst(~oks, ('tau', ds), ('sum of contributions', tot[:, idx])) if not oks.all() else ''), vector=v)
            tfi = tf[:, idx]
            eqp = np.abs(tc - tfi) <= 1e-12 * np.maximum(tc, tfi) + 1e-300
            darkp = (tc <= EXP10 * (1 + 1e-12)) & (tfi <= EXP10 * (1 + 1e-12))
            okp = eqp | darkp
            ctx.verdict('saturation_pointwise_licensed', bool(okp.all()), cls=cls,
                        detail='%d layer-points differ between the restricted and the full run where the layer is not darker than exp(-10); %s'
                               % (int((~okp).sum()), worst(~okp, ('T restricted', tc), ('T full', tfi)) if not okp.all() else ''), vector=v)
            slack = (darkp * geom[:, None]).sum(axis=0) * EXP10
            for l in range(nl):
                try:
                    events.append((dict(ev='tx', nw=nw, inc=[[_sc(x) for x in X[c, l]] for c in range(X.shape[0])], a=a, b=b,
                                        tf=[_sc(x) for x in df[l]], ts=[_sc(x) for x in ds[l]],
                                        thr=10 * SAT_S, tol=3, cap=int(SAT_CAP * SAT_S)), case, l))
                except ValueError:
                    ctx.verdict('pointwise_independent', False, cls=cls, detail='NaN optical depth in layer %d' % l, vector=v)
        else:
            xl = sum(x[0] for x in xs)
            xd = sum(x[1] for x in xs)
            el, ed = np.exp(-xl), np.exp(-xd)
            licl, licd = xl >= 10.0 * (1 - 1e-12), xd >= 10.0 * (1 - 1e-12)

            def single(E, sel):
                ok = np.zeros(E.shape, dtype=bool)
                for za in (False, True):
                    for zb in (False, True):
                        val = np.where(za, 0.0, el[:, sel]) - np.where(zb, 0.0, ed[:, sel])
                        allowed = (licl[:, sel] | (not za)) & (licd[:, sel] | (not zb))
                        ok |= allowed & (np.abs(E - val) <= 1e-12)
                return ok
            allw = list(range(nw))
            okf = single(tf, allw)
            ctx.verdict('saturation_skip_only_where_dark', bool(okf.all()), cls=cls + ':full-grid',
                        detail='%d layer-points of the full run have a layer term replaced by 0 (or otherwise off) although its optical depth is below 10 there; %s'
                               % (int((~okf).sum()), worst(~okf, ('value', tf), ('exp(-xl)-exp(-xd)', el - ed), ('xl', xl), ('xd', xd)) if not okf.all() else ''), vector=v)
            oks = single(tc, idx)
            ctx.verdict('saturation_skip_only_where_dark', bool(oks.all()), cls=cls + ':restricted',
                        detail='%d layer-points of the restricted run have a layer term replaced by 0 (or otherwise off) although its optical depth is below 10 there; %s'
                               % (int((~oks).sum()), worst(~oks, ('value', tc), ('exp(-xl)-exp(-xd)', (el - ed)[:, idx]), ('xl', xl[:, idx]), ('xd', xd[:, idx])) if not oks.all() else ''), vector=v)
            lay = (licl * el + licd * ed)[:, idx]
            okp = np.abs(tc - tf[:, idx]) <= 1e-12 + lay
            ctx.verdict('saturation_pointwise_licensed', bool(okp.all()), cls=cls,
                        detail='%d layer-points differ between the restricted and the full run by more than the terms licensed there; %s'
                               % (int((~okp).sum()), worst(~okp, ('restricted', tc), ('full', tf[:, idx])) if not okp.all() else ''), vector=v)
            # flux: every licensed term may move I by at most BB_l * exp(-x); sum of w*mu over the quadrature <= 1
            bb = np.array([[planck_flux(w, t) for w in gc] for t in tprof])
            star = np.array([planck_flux(w, tstar) for w in gc])
            slack = 2.0 * (bb * lay).sum(axis=0) / star * (rp / rs) ** 2
            for l in range(nl):
                try:
                    events.append((dict(ev='em', nw=nw, xl=[_sc(x) for x in xl[l]], xd=[_sc(x) for x in xd[l]],
                                        el=[int(round(x * EM_S)) for x in el[l]], ed=[int(round(x * EM_S)) for x in ed[l]],
                                        a=a, b=b, Ef=[int(round(x * EM_S)) for x in tf[l]], Es=[int(round(x * EM_S)) for x in tc[l]],
                                        clamp=10 * SAT_S, tol=1, etol=2), case, l))
                except ValueError:
                    ctx.verdict('pointwise_independent', False, cls=cls, detail='NaN optical depth in layer %d' % l, vector=v)
        if np.shape(sc) != np.shape(gc) or np.shape(sc) != np.shape(sf[idx]):
            ctx.verdict('pointwise_independent', False, cls=cls,
                        detail='the restricted run returned a spectrum of shape %r for a grid of %d points (full run at those points: %r)'
                               % (np.shape(sc), len(gc), np.shape(sf[idx])), vector=v)
            return
        diff = np.abs(sc - sf[idx])
        slack = np.broadcast_to(np.asarray(slack, dtype=float), diff.shape)
        oksp = diff <= slack + 1e-12 * np.abs(sf[idx])
        k = int(np.argmax(diff - slack))
        ctx.verdict('pointwise_independent', bool(oksp.all()), cls=cls,
                    detail='%d of %d points of the restricted spectrum differ from the full run by more than the exp(-10) cut-off licenses there, '
                           'e.g. wn %r: restricted %r full %r, licensed slack %r'
                           % (int((~oksp).sum()), len(idx), float(gc[k]), float(sc[k]), float(sf[idx][k]), float(slack[k])), vector=v)


def validate_sat_events(ctx, events, canary=True):
    """binding B: TLC judges every layer event against the per-point licence of Saturation.tla"""
    if not events:
        return {}
    evs = [dict(e, id=i) for i, (e, _, _) in enumerate(events)]
    accepted, bad, res = validate_trace('Trace_Saturation', 'Trace_Saturation.cfg', evs, timeout=900)
    ctx.add_tlc('trace-saturation', res, counts=False)
    if res.postcondition_false and not bad:
        raise Machinery('saturation trace spec did not consume the whole trace:\n' + res.out[-1500:])
    classes = {c['id']: c['cls'] for c in res.tagged('CLS')}
    if len(classes) != len(evs):
        raise Machinery('saturation trace spec classified %d of %d events' % (len(classes), len(evs)))
    why = {}
    for x in bad:
        why.setdefault(x['id'], []).append(x['why'])
    ctx.traces += len(evs)
    count = {}
    for e, (_, case, layer) in zip(evs, events):
        c = '%s:%s' % (e['ev'], classes[e['id']])
        count[c] = count.get(c, 0) + 1
        w = why.get(e['id'], [])
        ctx.verdict('trace_saturation_licensed', not w, cls='sattrace:%s:%s' % (c, ':'.join(case['label'].split(':')[2:4])),
                    detail='TLC rejected %r in layer %d of a model with contributions [%s]: computed range %d..%d of %d native points; %s'
                           % (w, layer, case.get('compo', ''), e['a'], e['b'], e['nw'],
                              ('inc=%r tf=%r ts=%r' % (e['inc'], e['tf'], e['ts'])) if e['ev'] == 'tx' else
                              ('xl=%r xd=%r Ef=%r Es=%r' % (e['xl'], e['xd'], e['Ef'], e['Es'])))[:900],
                    vector=dict(kind='sat', case=case, layer=layer))
    ctx.note('saturation layer events by class (TLC): %r' % (dict(sorted(count.items())),))
    if not canary:
        return count
    for ev in ('tx', 'em'):
        if not any(k.startswith(ev + ':coupled') for k in count):
            raise Machinery('vacuous: no %s layer with a saturated band and a transparent window in the same computed set' % ev)
    # canaries: the any()-style slip, written into an accepted event, must be rejected
    def pick(evname):
        for e in evs:
            if e['ev'] != evname or e['id'] in why or not classes[e['id']].startswith('coupled'):
                continue
            for w in range(e['a'], e['b'] + 1):
                if evname == 'tx':
                    tot = sum(r[w - 1] for r in e['inc'])
                    last = e['inc'][-1][w - 1]
                    if tot < e['thr'] - 1000 and last > 1000:
                        c = dict(e, ts=list(e['ts']))
                        c['ts'][w - e['a']] = tot - last
                        return c
                elif e['xd'][w - 1] < e['clamp'] - 1000 and e['el'][w - 1] > 1000:
                    c = dict(e, Es=list(e['Es']))
                    c['Es'][w - e['a']] = -e['ed'][w - 1]
                    return c
        return None
    canaries = []
    for evname in ('tx', 'em'):
        c = pick(evname)
        if c is None:
            if any(e['ev'] == evname and e['id'] in why for e in evs):
                continue                                       # TLC rejected real events of this kind: not vacuous
            raise Machinery('no accepted coupled %s event available for the canary' % evname)
        canaries.append(c)
    if canaries:
        _, bad2, _ = validate_trace('Trace_Saturation', 'Trace_Saturation.cfg', canaries)
        missed = [c['ev'] for c in canaries if c['id'] not in {x['id'] for x in bad2}]
        if missed:
            raise Machinery('canary (%s: a contribution dropped in a transparent window) accepted: trace validation is vacuous' % ','.join(missed))
    return count


def run_saturation(ctx, results, q):
    rng = random.Random(ctx.seed * 4099 + 17)
    files = ['EX_Saturation_2.cfg', 'EX_Saturation_3.cfg'] + ([] if q else ['EX_Saturation_2m.cfg', 'EX_Saturation_4.cfg'])
    quota = dict(coupled=14, other=6) if q else dict(coupled=110, other=40)
    events, ncase, nskip = [], 0, 0
    for cfg in files:
        vecs = results['export-' + cfg].tagged('SAT')
        if len(vecs) < 500:
            raise Machinery('too few saturation vectors exported by %s: %d' % (cfg, len(vecs)))
        for flag in ('txdiff', 'emdiff', 'disc', 'emdisc'):
            if not any(x[flag] for x in vecs):
                raise Machinery('vacuous: no exported vector of %s with %s' % (cfg, flag))
        if not any(x['how'] == 'obs' for x in vecs):
            raise Machinery('vacuous: no exported vector of %s restricted by an observation' % cfg)
        vecs = [x for x in vecs if any(x['lic'])]              # all-thin patterns are the optically thin model runs above
        rng.shuffle(vecs)
        for model, flag in (('transmission', 'disc'), ('emission', 'emdisc')):
            picks = [x for x in vecs if x[flag]][:quota['coupled']] + [x for x in vecs if not x[flag]][:quota['other']]
            # both ways of restricting in every batch
            for vec in picks:
                case = vector_case(vec, rng, model)
                if case is None:
                    nskip += 1
                    continue
                run_sat_case(ctx, case, events)
                ncase += 1
    nrand = 0
    for i in range(16 if q else 80):
        case = random_case(rng, 'transmission' if i % 2 == 0 else 'emission', q, long=(i % 4 == 1 or i % 8 == 2))
        if case is None:
            nskip += 1
            continue
        run_sat_case(ctx, case, events)
        nrand += 1
    ctx.note('saturation: %d vector-driven and %d random band/window model cases (%d skipped: not calibratable), %d layer events'
             % (ncase, nrand, nskip, len(events)))
    if events:
        e0 = events[0][0]
        ctx.add_sample(dict(saturation_event={k_: (v_ if not isinstance(v_, list) or len(v_) < 8 else v_[:8] + ['...']) for k_, v_ in e0.items()}))
    validate_sat_events(ctx, events)


# ----------------------------------------------------------------------------
# histories: one long-lived model evaluated on a sequence of requests (spec/GridHistory.tla)
# ----------------------------------------------------------------------------

HIST_MUTANTS = tuple('Ref_request_%s_%s' % (k, q) for k in ('size', 'first', 'ends', 'points') for q in ('grid', 'sed', 'op')) + \
    tuple('Ref_clip_%s_%s' % (k, q) for k in ('size', 'first') for q in ('sed', 'op')) + ('Ref_kept_across_full',) + \
    tuple('Ref_slip_%s_%s' % (k, e) for k in ('swap', 'nocut') for e in ('model', 'contrib', 'full')) + \
    tuple('Ref_slip_%s_%s' % (k, e) for k in ('left', 'leftfail') for e in ('contrib', 'full'))
HIST_ALPHABETS = ('U', 'G')


def hist_jobs(tier):
    """(label, module, cfg, workers, extra) -- started first: the walks below run while the other TLC jobs are busy"""
    jobs = [('export-history-%s' % a, 'EX_GridHistory', 'EX_GridHistory_%s_%s.cfg' % (a, tier), 1, None) for a in HIST_ALPHABETS]
    jobs += [('history-design-%s' % a, 'MC_GridHistory', 'MC_GridHistory_%s.cfg' % a, 1, ['-continue']) for a in HIST_ALPHABETS]
    return jobs


def check_history_design(ctx, label, res):
    """one TLC run (-continue): the Hold* invariants hold for the memo-free design and for memos keyed on the requested
    points; exactly the 17 under-keyed memos and the 10 slips of an entry point (clip arguments exchanged, cutoff flag
    ignored, contribution list left changed after a served / a refused per-component evaluation) are refuted"""
    ctx.add_tlc(label, res)
    got = set(re.findall(r'Invariant (\S+) is violated', res.out))
    if got != set(HIST_MUTANTS):
        raise Machinery('GridHistory (%s): expected TLC to refute exactly the %d design mutants; not refuted %r, unexpectedly violated %r'
                        % (label, len(HIST_MUTANTS), sorted(set(HIST_MUTANTS) - got), sorted(got - set(HIST_MUTANTS))))
    if res.distinct == 0 or res.depth < 4:
        raise Machinery('vacuous: GridHistory (%s) explored %d states to depth %d' % (label, res.distinct, res.depth))


def hist_fixture(ctx, exports):
    from .. import fx_c13hist as fh
    alphas, behs = [], {}
    for a in HIST_ALPHABETS:
        res = exports[a]
        if res.violated:
            raise Machinery('EX_GridHistory (%s) violates %s\n%s' % (a, res.violated, res.error_trace))
        rec = res.tagged('ALPHA')
        if len(rec) != 1:
            raise Machinery('EX_GridHistory (%s) exported %d alphabets' % (a, len(rec)))
        alphas.append(fh.Alphabet(rec[0]))
        behs[a] = res.tagged('BEH')
        if len(behs[a]) < 100:
            raise Machinery('too few behaviours exported by EX_GridHistory (%s): %d' % (a, len(behs[a])))
    return fh, fh.Fixture(ctx, alphas), behs


def validate_hist_events(ctx, fxh, canary=True):
    """binding B: TLC re-evaluates the clip of every logged request and judges every evaluation against the full run"""
    if not fxh.events:
        if canary:
            raise Machinery('no history evaluation was logged')
        return {}
    evs = [dict(e, id=i) for i, (e, _, _, _) in enumerate(fxh.events)]
    # canaries ride along in the same TLC run: a value off by 1.5e-12 and a grid shifted by one native point, written into
    # copies of evaluations of a long-lived model on a restricted grid
    cand = [e for e in evs if canary and e['plo'] > 0 and e['oc'] and e['cut'] and e['lo'] > 0] if canary else []
    extra = []
    if cand:
        extra = [dict(cand[0], dev=cand[0]['tol'] + 5, id=len(evs)), dict(cand[-1], lo=cand[-1]['lo'] + 1, id=len(evs) + 1)]
        # ... and a per-component evaluation that returns the spectra of a truncated contribution list
        pc = [e for e in cand if e['entry'] != 'model' and len(e['got']) > 1]
        if pc:
            extra.append(dict(pc[0], got=pc[0]['got'][-1:], id=len(evs) + 2))
    _, bad, res = validate_trace('Trace_GridHistory', 'Trace_GridHistory.cfg', evs + extra, timeout=900)
    ctx.add_tlc('trace-grid-history', res, counts=False)
    if res.postcondition_false and not bad:
        raise Machinery('history trace spec did not consume the whole trace:\n' + res.out[-1500:])
    canary_bad = {(x['id'], x['why']) for x in bad if x['id'] >= len(evs)}
    bad = [x for x in bad if x['id'] < len(evs)]
    res.printed = [pr for pr in res.printed if not (isinstance(pr[1], dict) and pr[1].get('id', -1) >= len(evs))]
    classes = {c['id']: c['cls'] for c in res.tagged('CLS')}
    eclasses = {c['id']: c['ecls'] for c in res.tagged('CLS')}
    if len(classes) != len(evs):
        raise Machinery('history trace spec classified %d of %d events' % (len(classes), len(evs)))
    fxh.inexact += sum(1 for c in res.tagged('CLS') if not c['exact'])
    why = {}
    for x in bad:
        why.setdefault(x['id'], []).append(x['why'])
    ctx.traces += len(evs)
    count, ecount = {}, {}
    for e, (_, name, detail, vec) in zip(evs, fxh.events):
        c = classes[e['id']]
        kind = name.split(':')[0]
        count[(kind, c)] = count.get((kind, c), 0) + 1
        ec = eclasses[e['id']]
        ecount[(e['entry'], ec)] = ecount.get((e['entry'], ec), 0) + 1
        w = why.get(e['id'], [])
        ctx.verdict('trace_history_equals_full', not w, cls='histtrace:%s:%s%s' % (name, c, '' if e['entry'] == 'model' and ec in ('first', 'same-entry-point') else ':%s:%s' % (e['entry'], ec)),
                    detail='TLC rejected %r: returned native[%r..%r] (%d points); %s' % (w, e['lo'], e['hi'], e['n'], detail), vector=vec)
    ctx.note('history evaluations by class (TLC): %r; by entry point: %r' % ({'%s:%s' % k: v for k, v in sorted(count.items())},
                                                                             {'%s:%s' % k: v for k, v in sorted(ecount.items())}))
    if not canary:
        return count
    if not ctx.has_violations():
        for kind in ('emission', 'direct', 'transmission'):
            if not count.get((kind, 'same-size-elsewhere')):
                raise Machinery('vacuous: no %s evaluation of class same-size-elsewhere in the history walks' % kind)
        for c in ('after-full-grid', 'full-after-window', 'same-start-other-length', 'same-grid-again'):
            if not any(k[1] == c for k in count):
                raise Machinery('vacuous: no evaluation of class %s in the history walks' % c)
        for k in (('model', 'model-after-per-component'), ('contrib', 'per-component-after-model'), ('full', 'per-component-after-model'),
                  ('contrib', 'per-component-after-other'), ('full', 'per-component-after-other'), ('full', 'same-entry-point'), ('contrib', 'same-entry-point')):
            if not ecount.get(k):
                raise Machinery('vacuous: no evaluation through %s of class %s in the history walks' % k)
    if extra:
        if (len(evs), 'value') not in canary_bad or (len(evs) + 1, 'clip') not in canary_bad:
            if cand[0]['id'] not in why and cand[-1]['id'] not in why:
                raise Machinery('canary accepted: history trace validation is vacuous (%r)' % (sorted(canary_bad),))
        if len(extra) > 2 and (len(evs) + 2, 'spectra') not in canary_bad and pc[0]['id'] not in why:
            raise Machinery('canary accepted: a per-component evaluation over a truncated contribution list passed the history trace validation')
        if len(extra) < 3 and not ctx.has_violations():
            raise Machinery('no per-component evaluation of a long-lived model on a restricted grid available for the canary')
    elif not ctx.has_violations():
        raise Machinery('no evaluation of a long-lived model on a restricted grid available for the history canary')
    return count


def run_histories(ctx, exports, q):
    from .. import history
    fh, fxh, behs = hist_fixture(ctx, exports)
    _t(ctx, 'history exports ready')
    rng = random.Random(ctx.seed * 6007 + 29)
    nbeh = 0
    try:
        # binding C: every exported sequence of requests on one long-lived model of every kind; TLC exports each of them
        # with every sequence of entry points (model / model_contrib / model_full_contrib): the replays take them in turn
        turn = rng.randrange(27)
        for a in HIST_ALPHABETS:
            alpha = fxh.alphas[a]
            groups = {}
            for b in behs[a]:
                groups.setdefault(tuple(e['w'] for e in b['evals']), []).append(b)
            for i, (ws, variants) in enumerate(groups.items()):
                variants.sort(key=lambda b: [e['e'] for e in b['evals']])
                # quick tier: every ordered pair of requests that TLC reports as colliding for an under-keyed memo (same
                # size / first point / end points; also with the full grid in between) and every pair that starts with a
                # refused request on every kind, a good quarter of the rest
                collide = (ws[0], ws[-1]) in alpha.collide or (len(ws) == 2 and ws[0] in alpha.refused)
                for kind in fh.KINDS:
                    if q and len(ws) == 3 and (not collide or (i + fh.KINDS.index(kind)) % 2):
                        continue
                    if q and not collide and rng.random() > 0.27:
                        continue
                    T = rng.choice(fh.T_VALUES[kind])
                    mix = rng.choice(fh.MIX_VALUES[kind])
                    turn += 1
                    fh.replay_behaviour(fxh, alpha, kind, T, mix, variants[turn % len(variants)]['evals'])
                    nbeh += 1
        if not ctx.has_violations():
            for k in [(e, r) for e in fh.ENTRIES for r in ('after-refused',)] + \
                     [(e, '%s-after-%s' % (e, p)) for e in fh.ENTRIES for p in fh.ENTRIES if p != e] + [(e, e) for e in fh.ENTRIES]:
                if fxh.count.get(k, 0) < 3:
                    raise Machinery('vacuous: only %d replayed evaluations through %s of class %s' % (fxh.count.get(k, 0), k[0], k[1]))
        # Functional walks: request, temperature and mixing ratio / entry point change on one long-lived model
        scs = fh.scenarios(fxh, thorough=not q)
        _t(ctx, 'history behaviours replayed')
        nw = history.run_history(ctx, scs, 12 if q else 40)
        _t(ctx, 'history walks validated')
        for s in scs:
            if s.evals == 0 and not ctx.has_violations():
                raise Machinery('history scenario %s was never evaluated' % s.name)
        validate_hist_events(ctx, fxh)
    finally:
        fh.install([])
    if fxh.not_thin and not ctx.has_violations():
        raise Machinery('history fixtures are not optically thin (the exp(-10) cut-off could fire): %r' % (fxh.not_thin[:3],))
    ctx.note('histories: %d behaviours of EX_GridHistory replayed on long-lived models, %d set/eval walks over %d scenarios, '
             '%d trace events, %d full-grid references of fresh models; %d evaluations returned a grid other than the documented '
             'clip Grid!GClip of the request (not prescribed by the statement); replayed evaluations by entry point: %r'
             % (nbeh, nw, len(scs), len(fxh.events), fxh.nrefs, fxh.inexact, {'%s:%s' % k: v for k, v in sorted(fxh.count.items())}))
    ctx.add_sample(dict(history_event={k: (v if not isinstance(v, list) or len(v) < 8 else v[:8] + ['...']) for k, v in fxh.events[0][0].items()},
                        behaviour=behs['U'][-1]))


def replay_histories(ctx, vs):
    """--replay: behaviours and walks recorded in the evidence"""
    from ..history import digest
    exports = {a: run_tlc('EX_GridHistory', 'EX_GridHistory_%s_thorough.cfg' % a, workers=1, allow_violation=True) for a in HIST_ALPHABETS}
    fh, fxh, _ = hist_fixture(ctx, exports)
    try:
        scs = {x.name: x for x in fh.scenarios(fxh, thorough=True)}
        seen = set()
        for v in vs:
            vec = v['vector']
            key = repr(sorted((k, repr(x)) for k, x in vec.items()))
            if key in seen:
                continue
            seen.add(key)
            if vec.get('kind') == 'hbeh':
                fh.replay_behaviour(fxh, fxh.alphas[vec['alphabet']], vec['model'], vec['T'], vec['mix'], vec['evals'])
                continue
            if vec.get('kind') == 'hfull':
                fxh.full(fxh.alphas[vec['alphabet']], vec['model'], vec['T'], vec['mix'])
                continue
            sc = scs.get(vec.get('history'))
            if sc is None:
                raise Machinery('replay: unknown history scenario %r' % (vec.get('history'),))

            def value(d, text):
                for x in sc.dims[d]:
                    if repr(x) == text or x == text or repr(x) == repr(text):
                        return x
                raise Machinery('replay: %r is not a value of setting %d of %s' % (text, d, sc.name))
            vals = [value(d, x) for d, x in enumerate(vec['init'])]
            obj = sc.fresh(list(vals))
            ok = True
            for step in vec['trail']:
                if step.startswith('set'):
                    d, text = step[3:].split('=', 1)
                    vals[int(d)] = value(int(d), text)
                    sc.set(obj, int(d), vals[int(d)], list(vals))
                elif step.startswith('eval'):
                    try:
                        ok = digest(sc.observe(obj)) == digest(sc.observe(sc.fresh(list(vals)))) and ok
                    except Machinery:
                        raise
                    except Exception:
                        ok = False
            ctx.verdict('history_independent', ok, cls='%s:replay' % sc.name,
                        detail='replay of the walk %r from %r' % (vec['trail'], vec['init']), vector=vec)
        validate_hist_events(ctx, fxh, canary=False)
    finally:
        fh.install([])


# ----------------------------------------------------------------------------
# the length of the computed grid (spec/MC_GridLength.tla)
# ----------------------------------------------------------------------------

def len_jobs(tier):
    return [('len-requests', 'MC_GridLength', 'MC_GridLength_%s.cfg' % tier, 1, None),
            ('len-slips', 'MC_GridLength', 'MC_GridLength_slips_%s.cfg' % tier, 1, ['-continue'])]


def len_alphabet(ctx, req_res, slip_res, add=True):
    """design level: the documented design is length independent on every exported request; EVERY slip (an implementation
    chosen from the shape of the computed grid) violates SlipIndependent and none violates SlipSeparated"""
    from .. import fx_c13len as fl
    for label, res in (('len-requests', req_res), ('len-slips', slip_res)):
        if add:
            ctx.add_tlc(label, res, counts=label == 'len-requests')
        if res.distinct == 0 or res.depth < 2:
            raise Machinery('vacuous: no action taken in MC_GridLength (%s)' % label)
    if req_res.violated:
        raise Machinery('MC_GridLength violates %s\n%s' % (req_res.violated, req_res.error_trace))
    rec = slip_res.tagged('ALPHA')
    if len(rec) != 1:
        raise Machinery('MC_GridLength (slips) exported %d alphabets' % len(rec))
    got = re.findall(r'Invariant (\S+) is violated', slip_res.out)
    nslips = 4 * (int(rec[0]['kmax']) - 1) + 1
    if set(got) != {'SlipIndependent'} or len(got) != nslips:
        raise Machinery('MC_GridLength: expected TLC to refute SlipIndependent for each of the %d slips and SlipSeparated for none; violations: %r'
                        % (nslips, {k: got.count(k) for k in set(got)}))
    reqs = req_res.tagged('REQ')
    if len(reqs) < len(rec[0]['nat']):
        raise Machinery('too few requests exported by MC_GridLength: %d' % len(reqs))
    return fl, fl.LenAlphabet(rec[0], reqs)


def run_lengths(ctx, req_res, slip_res, q):
    fl, alpha = len_alphabet(ctx, req_res, slip_res)
    rng = random.Random(ctx.seed * 8191 + 41)
    neval, inexact, fx, refused = fl.run(ctx, alpha, rng, q)
    ctx.note('lengths: %d requests exported by MC_GridLength (clips of every length 1..%d of a %d-point native grid); %d evaluations on '
             'long-lived emission / direct-image / transmission models against %d full native computations of fresh models; '
             '%d returned a grid other than the documented clip, %d requests without a native point inside the observation were refused '
             '(margin not prescribed by the statement)'
             % (len(alpha.reqs), len(alpha.nat_i) - 1, len(alpha.nat_i), neval, fx.nrefs, inexact, refused))
    ctx.add_sample(dict(length_request=alpha.reqs[len(alpha.reqs) // 2]))


def replay_lengths(ctx, vs):
    done = set()
    alphas = {}
    for v in vs:
        vec = v['vector']
        key = repr(sorted((k, repr(x)) for k, x in vec.items()))
        if key in done:
            continue
        done.add(key)
        tier = 'quick' if vec.get('tier_n', 150) <= 150 else 'thorough'
        if tier not in alphas:
            rr = {j[0]: run_tlc(j[1], j[2], workers=1, allow_violation=True, extra=j[4]) for j in len_jobs(tier)}
            alphas[tier] = len_alphabet(ctx, rr['len-requests'], rr['len-slips'], add=False)
        fl, alpha = alphas[tier]
        fl.replay_vector(ctx, alpha, vec)


# ----------------------------------------------------------------------------

def counterexample_text(res):
    nat = re.findall(r'nat = (<<[^>]*>>)', res.error_trace)
    oc = re.findall(r'oc = (<<[^>]*>>)', res.error_trace)
    ow = re.findall(r'ow2 = (<<[^>]*>>)', res.error_trace)
    return 'native %s, observation centres %s, 2*widths %s' % (nat[-1] if nat else '?', oc[-1] if oc else '?', ow[-1] if ow else '?')


def _t(ctx, what):
    import os, sys, time
    if os.environ.get('VERIF_DEBUG'):
        sys.stderr.write('[C13 %6.1fs] %s\n' % (time.time() - ctx.t0, what))


def run(ctx):
    q = ctx.tier == 'quick'
    ctx.bounds = dict(
        tier=ctx.tier,
        selection='all molecule grids / native grids that are subsets of %d integer positions, all contiguous sub-ranges' % (6 if q else 8),
        binning='all native grids with gaps in {1,2,3} (<= %d points, both ends of the clip) resp. all uniform grids; '
                '2..%d observation bins with mid-point, widest and explicit widths' % (7 if q else 8, 3 if q else 4),
        vectors='exported selection vectors on xsec and k-table layouts with 3 affine rescalings; exported clip/bin vectors '
                'with random spectra; Transmission and Emission models with two molecules (subset / shifted / same grids)',
        traces='random uniform and constant-resolution-like integer grids of 100-400 points, 2-6 observation bins')
    ctx.bounds['saturation'] = ('all patterns of optical depths {0,1,(6,)12} x 2-3 contributions x 3-4 wavenumber zones, every computed '
                                'subset / sub-range / observation clip (TLC); real Transmission and Emission models with 2-4 '
                                'contributions (molecules, user-defined table, CIA, Rayleigh) on different grids, 5-10 layers')
    ctx.bounds['histories'] = ('all sequences of 2 requests (quick: plus 3 with the full grid in between; thorough: all of 3) over 9 requests '
                               '(one of them refused: no native point in reach) x 3 entry points (model, model_contrib, model_full_contrib: '
                               'every sequence of entry points exported, taken in turn by the replays) x 2 '
                               'window alphabets (uniform and constant-resolution-like 20-point native grids, second molecule on 6-7 '
                               'points) on 6-layer emission / direct-image / transmission models with two contributions (absorption of two '
                               'molecules, Rayleigh); TLC-generated walks (depth 9) over request x temperature x (mixing ratio | entry point)')
    ctx.bounds['lengths'] = ('clips of EVERY length 1..N-1 of a uniform native grid of N = %d points (low end, inside, high end; two bin '
                             'centres anywhere or native points themselves as the observation), slips with thresholds / kernel widths '
                             '2..N; quick: one request per length and model kind, thorough: all' % (150 if q else 300))
    ctx.assumptions = ['lengths: optically thin fixtures, every operation is per wavenumber: 1e-12 (rounding of vectorised kernels), no licence',
                       'histories: every model object owns its cross-section objects (installed in the OpacityCache singleton through '
                       'clear_cache / add_opacity for its own evaluations); optically thin fixtures (the licensed cut-off never fires): '
                       'equality to 1e-12 with the full native computation of a freshly built model',
                       'the exp(-10) licence is a per-point slack: a contribution (transmission) or a layer term (emission) may be '
                       'missing at a wavenumber only where the layer is darker than exp(-10) at that wavenumber; elsewhere 1e-12',
                       'optical depths a contribution adds to a layer are measured with its own contribute() on the full grid',
                       'cross-section tables constant in T and P (the T,P interpolation is the subject of C04)',
                       'TLC + CommunityModules Json/IOUtils']
    t = ctx.tier
    # ---- all TLC runs are independent: start them together, consume in order
    jobs = [('sel-repaired', 'MC_GridSel', 'MC_GridSel_widened_%s.cfg' % t, 8, None),
            ('sel-asbuilt-own-points', 'MC_GridSel', 'MC_GridSel_filtered_own.cfg', 4, None),
            ('sel-asbuilt-refuted', 'MC_GridSel', 'MC_GridSel_filtered_refuted.cfg', 2, 'PointwiseIndependent'),
            ('sel-asbuilt-refuted-defined', 'MC_GridSel', 'MC_GridSel_filtered_refuted2.cfg', 2, 'PointwiseIndependentDefined'),
            ('bin-third', 'MC_GridBin', 'MC_GridBin_third_%s.cfg' % t, 12, None),
            ('bin-uniform', 'MC_GridBin', 'MC_GridBin_uniform_%s.cfg' % t, 8, None),
            ('bin-literal-condition-refuted', 'MC_GridBin', 'MC_GridBin_literal_refuted.cfg', 2, 'BinningCommutes'),
            ('bin-nonvacuous-clip', 'MC_GridBin', 'MC_GridBin_nonvac1.cfg', 1, 'ClipKeepsAll'),
            ('bin-nonvacuous-edge-width', 'MC_GridBin', 'MC_GridBin_nonvac2.cfg', 1, 'EdgeWidthSame'),
            ('export-sel', 'MC_GridSel', 'EX_GridSel.cfg', 1, None),
            ('export-EX_GridBin_a.cfg', 'MC_GridBin', 'EX_GridBin_a.cfg', 1, None),
            ('export-EX_GridBin_b.cfg', 'MC_GridBin', 'EX_GridBin_b.cfg', 1, None),
            # the licensed saturation cut-off as a per-point slack (Saturation.tla)
            ('sat-per-point-licence', 'MC_Saturation', 'MC_Saturation_%s.cfg' % t, 8, None),
            ('sat-3-contributions', 'MC_Saturation', 'MC_Saturation_3c_%s.cfg' % t, 8, None),
            ('sat-any-coupling-refuted-pair', 'MC_Saturation', 'MC_Saturation_any_tx_refuted.cfg', 1, 'TxPointwiseLicensed'),
            ('sat-any-coupling-refuted-single-run', 'MC_Saturation', 'MC_Saturation_any_run_refuted.cfg', 1, 'TxRunLicensed'),
            ('sat-any-coupling-refuted-emission', 'MC_Saturation', 'MC_Saturation_any_em_refuted.cfg', 1, 'EmPointwiseLicensed'),
            ('export-EX_Saturation_2.cfg', 'MC_Saturation', 'EX_Saturation_2.cfg', 1, None),
            ('export-EX_Saturation_3.cfg', 'MC_Saturation', 'EX_Saturation_3.cfg', 1, None)]
    if not q:   # (in the quick tier the licence being used / observation clips occurring is visible in the exported vectors)
        jobs += [('sat-nonvacuous-licence-used-tx', 'MC_Saturation', 'MC_Saturation_nonvac_tx.cfg', 1, 'TxNeverDiffers'),
                 ('sat-nonvacuous-licence-used-em', 'MC_Saturation', 'MC_Saturation_nonvac_em.cfg', 1, 'EmNeverDiffers'),
                 ('sat-nonvacuous-observation-clip', 'MC_Saturation', 'MC_Saturation_nonvac_obs.cfg', 1, 'NoObsRestriction'),
                 ('export-EX_Saturation_2m.cfg', 'MC_Saturation', 'EX_Saturation_2m.cfg', 1, None),
                 ('export-EX_Saturation_4.cfg', 'MC_Saturation', 'EX_Saturation_4.cfg', 1, None)]
    jobs += [('len-short-native-grid-refuted', 'MC_GridLength', 'MC_GridLength_short_refuted.cfg', 1, 'SlipSeparated')]
    from concurrent.futures import ThreadPoolExecutor
    pool = ThreadPoolExecutor(max_workers=8)
    hjobs = hist_jobs(t)
    hfuts = {j[0]: pool.submit(run_tlc, j[1], j[2], workers=j[3], allow_violation=True, timeout=1500, extra=j[4]) for j in hjobs}
    lfuts = {j[0]: pool.submit(run_tlc, j[1], j[2], workers=j[3], allow_violation=True, timeout=1500, extra=j[4]) for j in len_jobs(t)}
    futs = {j[0]: pool.submit(run_tlc, j[1], j[2], workers=j[3], allow_violation=True, timeout=1500) for j in jobs}
    # ---- histories: replayed while the exhaustive TLC jobs are running
    try:
        exports = {a: hfuts['export-history-%s' % a].result() for a in HIST_ALPHABETS}
        for a in HIST_ALPHABETS:
            ctx.add_tlc('export-history-%s' % a, exports[a])
        run_histories(ctx, exports, q)
        _t(ctx, 'histories done')
        for a in HIST_ALPHABETS:
            check_history_design(ctx, 'history-design-%s' % a, hfuts['history-design-%s' % a].result())
        # ---- the length of the computed grid
        run_lengths(ctx, lfuts['len-requests'].result(), lfuts['len-slips'].result(), q)
        _t(ctx, 'lengths done')
    except BaseException:
        for f in list(hfuts.values()) + list(lfuts.values()) + list(futs.values()):
            f.cancel()
        pool.shutdown(wait=True)
        raise
    results = {}
    for label, module, cfg, _, refute in jobs:
        res = futs[label].result()
        results[label] = res
        ctx.add_tlc(label, res, counts=refute is None)
        if refute is None:
            if res.violated:
                raise Machinery('spec %s/%s violates %s\n%s' % (module, cfg, res.violated, res.error_trace))
            if res.distinct == 0 or res.depth < 2:
                raise Machinery('vacuous: no action taken in %s/%s' % (module, cfg))
        elif res.violated != refute:
            raise Machinery('expected TLC to refute %s in %s/%s, got %r' % (refute, module, cfg, res.violated))
    pool.shutdown()
    if results['bin-third'].depth < 4 or results['bin-uniform'].depth < 4:
        raise Machinery('vacuous: Extend hardly taken in MC_GridBin')
    ctx.note('design-level refutation of the clip margin under the literal width condition (L-C13b): '
             + counterexample_text(results['bin-literal-condition-refuted']))
    ctx.exhaustive = True
    _t(ctx, 'TLC runs done')
    # ---- binding A
    vecs = results['export-sel'].tagged('VEC')
    if len(vecs) < 1000:
        raise Machinery('too few selection vectors exported: %d' % len(vecs))
    nsel = run_sel_vectors(ctx, vecs, q)
    _t(ctx, 'sel vectors done')
    nbin = 0
    for cfg in ('EX_GridBin_a.cfg', 'EX_GridBin_b.cfg'):
        vecs = results['export-' + cfg].tagged('VEC')
        if len(vecs) < 200:
            raise Machinery('too few clip/bin vectors exported by %s: %d' % (cfg, len(vecs)))
        nbin += run_bin_vectors(ctx, vecs, q)
        _t(ctx, 'bin vectors done ' + cfg)
    ctx.note('vectors replayed: %d selection, %d clip/bin' % (nsel, nbin))
    # ---- binding B
    run_traces(ctx, 150 if q else 1500)
    _t(ctx, 'traces done')
    # ---- saturation cut-off: bindings A (exported input classes -> real models) and B (layer events -> TLC)
    run_saturation(ctx, results, q)
    _t(ctx, 'saturation done')


def replay(ctx, violations):
    rng = random.Random(1)
    tr, sat = [], []
    hist = [v for v in violations if (v['vector'] or {}).get('history') or (v['vector'] or {}).get('kind') in ('hbeh', 'hfull')]
    if hist:
        replay_histories(ctx, hist)
    lens = [v for v in violations if (v['vector'] or {}).get('kind') == 'len']
    if lens:
        replay_lengths(ctx, lens)
    for v in violations:
        vec = v['vector'] or {}
        kind = vec.get('kind')
        if kind == 'sel':
            judge_sel(ctx, vec, vec['layout'], vec['scale'], vec['offset'])
        elif kind == 'bin':
            judge_bin(ctx, vec, rng, {'outside': 0, 'outside_diff': 0, 'band_diff': 0})
        elif kind == 'model':
            judge_model(ctx, vec, rng, vec['model'], vec['variant'])
        elif kind == 'sat':
            run_sat_case(ctx, vec['case'], sat)
        elif kind == 'trace':
            e = measure(vec['nat'], vec['oc'], vec['ow2'], vec['f'], 1000, len(tr))
            if e is None:
                ctx.verdict('trace_clip_and_binner_conform', False, cls='trace:replay', detail='clip has < 2 points or a binned value is not finite', vector=vec)
            else:
                tr.append(e)
    if tr:
        run_traces(ctx, 0, events=tr)
    if sat:
        validate_sat_events(ctx, sat, canary=False)
