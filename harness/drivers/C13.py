"""C13 -- restricting the spectral grid never changes the values computed on it.

Spec: spec/Grid.tla (clip, mid-point widths, overlap binning, opacity selection, native choice),
      spec/MC_GridSel.tla (selection: exhaustive + export), spec/MC_GridBin.tla (clip + binning:
      exhaustive design check of the clip margin + export), spec/Trace_Grid.tla (binding B).
Design level:  PointwiseIndependent / OwnPointsUnchanged / BetweenNeighbours for the repaired
      selection; refuted for the as-built one (ledger L-C13a); BinningCommutes holds for uniform
      native grids and for gap < W/3, and is REFUTED under the literal condition gap < W/2
      (ledger L-C13b, kept as an expected-counterexample self test).
Binding A: exported vectors replayed into Opacity.opacity / KTable.opacity, clip_native_to_wngrid
      + FluxBinner, and real Transmission / Emission models with two molecules on different grids.
Binding B: random integer "constant-R like" grids through the real clip/binner/opacity, every
      event validated by TLC against the Grid operators + canary.
"""
import random
import re
from fractions import Fraction

import numpy as np

from ..core import Machinery, frac, close, validate_trace, run_tlc
from ..fixtures import GridOpacity, GridKTable

REL = 1e-12
PRIMES = [2, 3, 5, 7, 11, 13, 17, 19, 23, 29, 31, 37, 41, 43, 47, 53, 59, 61, 67, 71]
BAND = 'nonuniform:W/3<=gap<W/2'

# Ledger item L-C13b (a design decision for the maintainers, not repaired) is listed in known_findings.json.


# ----------------------------------------------------------------------------
# fixtures
# ----------------------------------------------------------------------------

def const_opacity(name, wn, vals_m2, layout='xsec'):
    """Opacity whose table does not depend on T and P: opacity(T,P)[k] = vals_m2[k] exactly."""
    wn = np.asarray(wn, dtype=float)
    v = np.asarray(vals_m2, dtype=float) * 1e4          # cm^2
    temps = [500.0, 1500.0]
    press = [1e-4, 1e8]
    x = np.broadcast_to(v, (2, 2, len(wn))).copy()
    if layout == 'xsec':
        return GridOpacity(name, wn, temps, press, x, 'linear')
    kc = np.stack([x, x * 3.0], axis=-1)
    return GridKTable(name, wn, temps, press, kc, [0.25, 0.75], 'linear')


def call_opacity(op, grid, layout):
    res = np.asarray(op.opacity(1000.0, 1e3, None if grid is None else np.asarray(grid, dtype=float)))
    if layout == 'ktable':
        res = res.reshape(-1, 2)
        if not np.allclose(res[:, 1], 3.0 * res[:, 0], rtol=1e-13, atol=0):
            return res[:, 0] * np.nan
        return res[:, 0]
    return res.ravel()


def sel_class(vec):
    g, r = vec['g'], vec['n'][vec['a'] - 1:vec['b']]
    inside = [x for x in g if r[0] <= x <= r[-1]]
    if vec['ident']:
        return 'identity'
    if not inside:
        return 'no-own-point-in-range'
    if all(x in g for x in r):
        return 'subset-of-own-points'
    coarse = any((x not in g) and g[0] < x < g[-1] and (x < inside[0] or x > inside[-1]) for x in r)
    return 'edge-between-own-points' if coarse else 'interior'


# ----------------------------------------------------------------------------
# binding A, opacity selection
# ----------------------------------------------------------------------------

def judge_sel(ctx, vec, layout, scale, offset):
    g = [offset + scale * x for x in vec['g']]
    n = [offset + scale * x for x in vec['n']]
    a, b = vec['a'], vec['b']
    r = n[a - 1:b]
    vals = np.array([PRIMES[i] for i in range(len(g))], dtype=float) * 1e-24
    op = const_opacity('X', g, vals, layout)
    cls = 'sel:%s:%s' % (layout, sel_class(vec))
    v = dict(vec, layout=layout, scale=scale, offset=offset, kind='sel')
    try:
        full = call_opacity(op, n, layout)
    except Exception as e:                                   # the full request cannot be served at all
        ctx.verdict('pointwise_independent', False, cls=cls, detail='full request raised %r' % (e,), vector=v)
        return
    try:
        sub = call_opacity(op, r, layout)
    except Exception as e:
        ctx.verdict('pointwise_independent', False, cls=cls, detail='sub-range request %r raised %r' % (r, e), vector=v)
        return
    ok = len(sub) == len(r) and len(full) == len(n)
    if not ok:
        ctx.verdict('pointwise_independent', False, cls=cls, detail='result length %d/%d' % (len(sub), len(full)), vector=v)
        return
    bad = [(r[k], float(sub[k]), float(full[a - 1 + k])) for k in range(len(r))
           if not close(sub[k], full[a - 1 + k], rel=REL)]
    ctx.verdict('pointwise_independent', not bad, cls=cls,
                detail='(wn, sub-range value, full value) %r' % (bad[:3],), vector=v)
    for k, x in enumerate(r):
        nb = [vals[i - 1] for i in vec['nb'][k]]
        if x in g:
            ctx.verdict('own_points_unchanged', close(sub[k], vals[g.index(x)], rel=REL), cls=cls,
                        detail='wn %r got %r table %r' % (x, float(sub[k]), float(vals[g.index(x)])), vector=v)
        elif g[0] < x < g[-1]:
            lo, hi = min(nb), max(nb)
            ctx.verdict('between_neighbours', lo * (1 - REL) <= sub[k] <= hi * (1 + REL), cls=cls,
                        detail='wn %r got %r neighbours %r' % (x, float(sub[k]), nb), vector=v)
        else:   # outside the molecule's range only one neighbour exists: finite and non-negative
            ctx.verdict('between_neighbours', bool(np.isfinite(sub[k])) and sub[k] >= 0, cls=cls + ':outside',
                        detail='wn %r got %r' % (x, float(sub[k])), vector=v)


def run_sel_vectors(ctx, vecs, quick):
    rng = random.Random(ctx.seed * 131 + 13)
    if quick and len(vecs) > 1500:
        keep = [v for v in vecs if sel_class(v) in ('edge-between-own-points', 'no-own-point-in-range')]
        rest = [v for v in vecs if v not in keep]
        rng.shuffle(keep)
        rng.shuffle(rest)
        vecs = keep[:700] + rest[:800]
    for i, vec in enumerate(vecs):
        scale, offset = rng.choice([(1, 0), (25, 1000), (0.5, 300)])
        judge_sel(ctx, vec, 'xsec', scale, offset)
        if i % 3 == 0:
            judge_sel(ctx, vec, 'ktable', scale, offset)
    return len(vecs)


# ----------------------------------------------------------------------------
# binding A, clip + binning
# ----------------------------------------------------------------------------

def bin_class(vec):
    if vec['half'] and vec['uniform']:
        return 'uniform'
    if vec['third']:
        return 'nonuniform:gap<W/3'
    if vec['half']:
        return BAND
    return None                                            # outside the stated width condition


def exact_binned(weights, f):
    s = sum(weights)
    if s == 0:
        return None
    return Fraction(sum(w * x for w, x in zip(weights, f)), s)


def same(a, b):
    a, b = float(a), float(b)
    if a != a and b != b:
        return True
    return close(a, b, rel=1e-11)


def judge_bin(ctx, vec, rng, stats):
    from taurex.util.util import clip_native_to_wngrid
    from taurex.binning import FluxBinner
    scale = rng.choice([1.0, 25.0, 0.5])
    nat = np.array(vec['nat'], dtype=float) * scale
    oc = np.array(vec['oc'], dtype=float) * scale
    ow = np.array(vec['ow2'], dtype=float) * scale / 2.0
    f = [rng.randint(1, 99) for _ in vec['nat']]
    spec = np.array(f, dtype=float) / 64.0
    cls0 = bin_class(vec)
    v = dict(vec, scale=scale, f=f, kind='bin')
    clip = clip_native_to_wngrid(nat, oc)
    # the returned grid is a contiguous part of the native grid that keeps every point contributing to a bin
    needed = [i for i in range(len(nat)) if any(vec['wfull'][j][i] > 0 for j in range(len(oc)))]
    idx = [int(np.where(nat == x)[0][0]) for x in clip if x in nat]
    ok = len(idx) == len(clip) and idx == list(range(idx[0], idx[0] + len(idx))) if len(clip) else True
    keeps = all(i in idx for i in needed) if GWholeGap(vec) else True
    ctx.verdict('clip_retains_needed_points', bool(ok and keeps), cls='clip:%s' % (cls0 or 'gap<W'),
                detail='native %r obs %r clip %r needed idx %r' % (vec['nat'], vec['oc'], list(clip), needed), vector=v)
    if len(clip) < 2:
        return
    binner = FluxBinner(wngrid=oc, wngrid_width=ow)
    bfull = np.asarray(binner.bindown(nat, spec)[1], dtype=float)
    sel = np.array(idx, dtype=int)
    bclip = np.asarray(binner.bindown(clip, spec[sel])[1], dtype=float)
    # the real binner is the spec's overlap-weighted mean (on the full grid and on the real clip when it is the spec's clip)
    spec_clip = idx == list(range(vec['lo'] - 1, vec['hi']))
    for j in range(len(oc)):
        e = exact_binned(vec['wfull'][j], f)
        if e is not None:
            ctx.verdict('binner_is_overlap_mean', close(bfull[j], float(e) / 64.0, rel=1e-11), cls='bin:full',
                        detail='bin %d got %r expected %r' % (j, float(bfull[j]), float(e) / 64.0), vector=v)
        if spec_clip:
            e = exact_binned(vec['wclip'][j], [f[i] for i in idx])
            if e is not None:
                ctx.verdict('binner_is_overlap_mean', close(bclip[j], float(e) / 64.0, rel=1e-11), cls='bin:clip',
                            detail='bin %d got %r expected %r' % (j, float(bclip[j]), float(e) / 64.0), vector=v)
    equal = all(same(bclip[j], bfull[j]) for j in range(len(oc)))
    if cls0 is None:
        stats['outside'] += 1
        stats['outside_diff'] += 0 if equal else 1
        return
    stats[cls0] = stats.get(cls0, 0) + 1
    if not equal and cls0 == BAND:
        stats['band_diff'] += 1
    ctx.verdict('binning_commutes', equal, cls='bin:' + cls0,
                detail='native %r obs %r widths %r: binned(clipped) %r != binned(full) %r' %
                       (list(nat), list(oc), list(ow), [float(x) for x in bclip], [float(x) for x in bfull]), vector=v)


def GWholeGap(vec):
    """gap < W (the weaker bound under which every contributing point survives the clip)."""
    gaps = [b - a for a, b in zip(vec['nat'], vec['nat'][1:])]
    return all(2 * g < vec['W2'] for g in gaps) and all(w <= vec['W2'] for w in vec['ow2'])


# ----------------------------------------------------------------------------
# binding A, real forward models with two molecules on different grids
# ----------------------------------------------------------------------------

def build_model(kind, grids, vals):
    from taurex.cache import OpacityCache
    from taurex.model import TransmissionModel, EmissionModel
    from taurex.chemistry import TaurexChemistry, ConstantGas
    from taurex.temperature import Isothermal
    from taurex.planet import Planet
    from taurex.stellar import BlackbodyStar
    from taurex.contributions import AbsorptionContribution
    OpacityCache().clear_cache()
    names = ['H2O', 'CH4', 'CO2'][:len(grids)]
    for nm, g, v in zip(names, grids, vals):
        OpacityCache().add_opacity(const_opacity(nm, g, v))
    chem = TaurexChemistry(fill_gases=['H2', 'He'], ratio=0.17)
    for nm in names:
        chem.addGas(ConstantGas(nm, 1e-4))
    kw = dict(planet=Planet(planet_mass=1.0, planet_radius=1.0), star=BlackbodyStar(temperature=5000.0, radius=1.0),
              chemistry=chem, temperature_profile=Isothermal(T=1000.0), nlayers=6,
              atm_min_pressure=1e-1, atm_max_pressure=1e5)
    m = EmissionModel(ngauss=2, **kw) if kind == 'emission' else TransmissionModel(**kw)
    m.add_contribution(AbsorptionContribution())
    m.build()
    return m


def smooth_vals(rng, grid, level):
    """Optically thin cross-sections (no layer saturates: the tau>10 early exit never fires)."""
    return [level * (1.0 + 0.5 * rng.random() + 0.4 * np.sin(0.37 * i)) for i in range(len(grid))]


def judge_model(ctx, vec, rng, kind, variant):
    from taurex.binning import FluxBinner
    from taurex.cache import OpacityCache
    scale, offset = 20.0, 1000.0
    nat = [offset + scale * x for x in vec['nat']]
    oc = np.array([offset + scale * x for x in vec['oc']])
    ow = np.array(vec['ow2'], dtype=float) * scale / 2.0
    if variant == 'subset':                                # second molecule on every other native point
        g2 = nat[::2] if len(nat[::2]) >= 2 else nat[:2]
    elif variant == 'shifted':                             # coarser grid, not a subset, reaching beyond the native range
        g2 = [nat[0] - 7.0] + [0.5 * (x + y) for x, y in zip(nat[1::2], nat[2::2])] + [nat[-1] + 9.0]
    else:                                                  # same grid
        g2 = list(nat)
    g2 = g2[:len(nat) - 1] if len(g2) >= len(nat) and variant != 'same' else g2
    grids = [nat, g2]
    vals = [smooth_vals(rng, nat, 3e-26), smooth_vals(rng, g2, 2e-26)]
    cls0 = bin_class(vec)
    v = dict(vec, kind='model', model=kind, variant=variant, vals=vals)
    cls = 'model:%s:%s' % (kind, variant)
    try:
        m = build_model(kind, grids, vals)
        gf, sf, _, _ = m.model()
        try:
            gc, sc, _, _ = m.model(wngrid=oc)
            gu, su, _, _ = m.model(wngrid=oc, cutoff_grid=False)
        except Exception as e:
            ctx.verdict('pointwise_independent', False, cls=cls, detail='the restricted computation raised %r (full one succeeded)' % (e,), vector=v)
            return
    finally:
        OpacityCache().clear_cache()
    gf, sf, gc, sc = np.asarray(gf), np.asarray(sf), np.asarray(gc), np.asarray(sc)
    ctx.verdict('native_grid_is_longest', np.array_equal(gf, np.array(nat)), cls=cls,
                detail='full grid has %d points, longest molecule grid %d' % (len(gf), len(nat)), vector=v)
    ctx.verdict('pointwise_independent', np.array_equal(np.asarray(gu), gf) and np.array_equal(np.asarray(su), sf),
                cls=cls + ':cutoff_grid=False', detail='cutoff_grid=False must be the full computation', vector=v)
    if not all(x in gf for x in gc):
        ctx.verdict('pointwise_independent', False, cls=cls, detail='clipped grid is not part of the native grid', vector=v)
        return
    idx = [int(np.where(gf == x)[0][0]) for x in gc]
    bad = [(float(gc[k]), float(sc[k]), float(sf[i])) for k, i in enumerate(idx) if not close(sc[k], sf[i], rel=REL)]
    ctx.verdict('pointwise_independent', not bad, cls=cls,
                detail='%d of %d points differ, e.g. (wn, restricted, full) %r' % (len(bad), len(idx), bad[:2]), vector=v)
    if cls0 is None or len(gc) < 2:
        return
    binner = FluxBinner(wngrid=oc, wngrid_width=ow)
    bf = np.asarray(binner.bin_model((gf, sf, None, None))[1])
    bc = np.asarray(binner.bin_model((gc, sc, None, None))[1])
    equal = all(same(x, y) for x, y in zip(bc, bf))
    ctx.verdict('binning_commutes', equal, cls='model:%s:%s' % (kind, cls0),
                detail='binned(restricted) %r != binned(full) %r' % ([float(x) for x in bc], [float(x) for x in bf]), vector=v)


def run_bin_vectors(ctx, vecs, quick):
    rng = random.Random(ctx.seed * 977 + 5)
    stats = {'outside': 0, 'outside_diff': 0, 'band_diff': 0}
    vecs = list(vecs)
    rng.shuffle(vecs)
    if quick:
        band = [v for v in vecs if bin_class(v) == BAND]
        other = [v for v in vecs if bin_class(v) != BAND]
        vecs = band[:1500] + other[:4500]
    for vec in vecs:
        judge_bin(ctx, vec, rng, stats)
    # model level: a few vectors of every class, long enough to have a coarser second grid
    picks = {}
    for vec in vecs:
        c = bin_class(vec)
        if c is None or len(vec['nat']) < 5 or vec['hi'] - vec['lo'] < 2:
            continue
        picks.setdefault(c, [])
        if len(picks[c]) < (3 if quick else 14):
            picks[c].append(vec)
    nmodel = 0
    for c, lst in sorted(picks.items()):
        for i, vec in enumerate(lst):
            for kind in ('transmission', 'emission'):
                variant = ['subset', 'shifted', 'same'][(i + (kind == 'emission')) % 3]
                judge_model(ctx, vec, rng, kind, variant)
                nmodel += 1
    ctx.note('binning vectors by class: %r; model-level runs: %d' % (stats, nmodel))
    if stats['outside'] and not stats['outside_diff']:
        ctx.note('no vector outside the width condition showed a difference (condition not shown necessary here)')
    return len(vecs)


# ----------------------------------------------------------------------------
# binding B: random grids through the real code, validated by TLC
# ----------------------------------------------------------------------------

def rgrid(rng, npts, start, res):
    """Integer grid whose gaps grow like a constant-resolution grid (gap ~ x / res), non-uniform after rounding."""
    g = [start]
    while len(g) < npts:
        g.append(g[-1] + max(1, int(round(g[-1] / res + rng.choice([0, 0, 0, 1])))))
    return g


def measure(nat, oc, ow2, f, S, eid):
    """One real run of clip + binner on the full and on the clipped grid -> trace event (None if not loggable)."""
    from taurex.util.util import clip_native_to_wngrid
    from taurex.binning import FluxBinner
    natf, ocf = np.array(nat, dtype=float), np.array(oc, dtype=float)
    clip = clip_native_to_wngrid(natf, ocf)
    if len(clip) < 2:
        return None
    lo = int(np.where(natf == clip[0])[0][0]) + 1
    hi = int(np.where(natf == clip[-1])[0][0]) + 1
    contiguous = (hi - lo + 1 == len(clip)) and np.array_equal(natf[lo - 1:hi], clip)
    binner = FluxBinner(wngrid=ocf, wngrid_width=np.array(ow2, dtype=float) / 2.0)
    spec = np.array(f, dtype=float)
    bf = np.asarray(binner.bindown(natf, spec)[1])
    bc = np.asarray(binner.bindown(clip, spec[lo - 1:hi])[1])
    if not (np.all(np.isfinite(bf)) and np.all(np.isfinite(bc))):
        return None                                        # a bin touching the native range in a point: 0/0, measure zero
    return dict(id=eid, ev='clipbin', nat=nat, oc=oc, ow2=ow2, lo=lo if contiguous else -1, hi=hi,
                f=f, S=S, bf=[int(round(x * S)) for x in bf], bc=[int(round(x * S)) for x in bc], tol=1)


def trace_events(rng, n):
    events = []
    S = 1000
    while len(events) < n:
        style = rng.random()
        npts = rng.randint(100, 400)
        if style < 0.35:                                   # uniform native grid
            gap = rng.randint(1, 4)
            s0 = rng.randint(50, 400)
            nat = [s0 + gap * i for i in range(npts)]
        else:
            nat = rgrid(rng, npts, rng.randint(150, 600), rng.choice([100, 150, 250]))
        maxgap = max(b - a for a, b in zip(nat, nat[1:]))
        # observation: centres inside the native range, widest mid-point width W tuned around the condition
        k = rng.randint(2, 6)
        mode = rng.random()
        factor = 3 if mode < 0.6 else 2                    # W > 3*gap (claim holds) or W > 2*gap (literal condition)
        wmin = factor * maxgap + 1
        c0 = rng.randint(nat[0] + 2 * wmin, max(nat[0] + 2 * wmin + 1, nat[-1] - (k + 2) * (wmin + 6)))
        oc = [c0]
        for _ in range(k - 1):
            oc.append(oc[-1] + rng.randint(max(1, wmin // 2), wmin + 6))
        if oc[-1] >= nat[-1]:
            continue
        mid2 = [2 * (oc[1] - oc[0])] + [oc[i + 1] - oc[i - 1] for i in range(1, k - 1)] + [2 * (oc[-1] - oc[-2])]
        W2 = max(mid2)
        ow2 = list(mid2) if rng.random() < 0.5 else [rng.randint(max(1, W2 // 3), W2) for _ in oc]
        f = [rng.randint(0, 100) for _ in nat]
        e = measure(nat, oc, ow2, f, S, len(events))
        if e is not None:
            events.append(e)
    return events


def run_traces(ctx, n, events=None):
    rng = random.Random(ctx.seed * 7919 + 13)
    replaying = events is not None
    if events is None:
        events = trace_events(rng, n)
    accepted, bad, res = validate_trace('Trace_Grid', 'Trace_Grid.cfg', events, timeout=900)
    ctx.add_tlc('trace-clipbin', res, counts=False)
    if res.postcondition_false and not bad:
        raise Machinery('trace spec did not consume the whole trace:\n' + res.out[-1500:])
    classes = {c['id']: c['cls'] for c in res.tagged('CLS')}
    if len(classes) != len(events):
        raise Machinery('trace spec classified %d of %d events' % (len(classes), len(events)))
    badids = {}
    for b in bad:
        badids.setdefault(b['id'], []).append(b['why'])
    ctx.traces += len(events)
    count = {}
    for e in events:
        c = classes[e['id']]
        count[c] = count.get(c, 0) + 1
        why = badids.get(e['id'], [])
        slim = dict(kind='trace', id=e['id'], nat=e['nat'], oc=e['oc'], ow2=e['ow2'], f=e['f'])
        ctx.verdict('trace_clip_and_binner_conform', not [w for w in why if w != 'commutes'], cls='trace:' + c,
                    detail='TLC rejected %r: lo,hi=%r,%r bf=%r bc=%r' % (why, e['lo'], e['hi'], e['bf'], e['bc']), vector=slim)
        if c != 'outside':
            ctx.verdict('binning_commutes', 'commutes' not in why, cls='trace:' + c,
                        detail='binned(clipped) %r != binned(full) %r (x%d)' % (e['bc'], e['bf'], e['S']), vector=slim)
    ctx.note('trace events by class: %r' % (count,))
    if replaying:
        return
    ctx.add_sample(dict(trace_event={k: (v if not isinstance(v, list) or len(v) < 12 else v[:12] + ['...']) for k, v in events[0].items()}))
    # canary: corrupt one binned value of an accepted event
    good = [e for e in events if e['id'] not in badids and classes[e['id']] in ('uniform', 'third')]
    if not good:
        raise Machinery('no accepted event available for the canary')
    c = dict(good[len(good) // 2])
    c['bc'] = list(c['bc'])
    c['bc'][0] += 7 * c['S']
    ok2, bad2, _ = validate_trace('Trace_Grid', 'Trace_Grid.cfg', [c])
    if ok2 or not bad2:
        raise Machinery('canary accepted: trace validation is vacuous')
    c = dict(good[0])
    c['lo'] = c['hi'] - 1                                  # almost everything clipped away
    ok2, bad2, _ = validate_trace('Trace_Grid', 'Trace_Grid.cfg', [c])
    if ok2 or not bad2:
        raise Machinery('canary (clip range) accepted: trace validation is vacuous')


# ----------------------------------------------------------------------------

def counterexample_text(res):
    nat = re.findall(r'nat = (<<[^>]*>>)', res.error_trace)
    oc = re.findall(r'oc = (<<[^>]*>>)', res.error_trace)
    ow = re.findall(r'ow2 = (<<[^>]*>>)', res.error_trace)
    return 'native %s, observation centres %s, 2*widths %s' % (nat[-1] if nat else '?', oc[-1] if oc else '?', ow[-1] if ow else '?')


def _t(ctx, what):
    import os, sys, time
    if os.environ.get('VERIF_DEBUG'):
        sys.stderr.write('[C13 %6.1fs] %s\n' % (time.time() - ctx.t0, what))


def run(ctx):
    q = ctx.tier == 'quick'
    ctx.bounds = dict(
        tier=ctx.tier,
        selection='all molecule grids / native grids that are subsets of %d integer positions, all contiguous sub-ranges' % (6 if q else 8),
        binning='all native grids with gaps in {1,2,3} (<= %d points, both ends of the clip) resp. all uniform grids; '
                '2..%d observation bins with mid-point, widest and explicit widths' % (7 if q else 8, 3 if q else 4),
        vectors='exported selection vectors on xsec and k-table layouts with 3 affine rescalings; exported clip/bin vectors '
                'with random spectra; Transmission and Emission models with two molecules (subset / shifted / same grids)',
        traces='random uniform and constant-resolution-like integer grids of 100-400 points, 2-6 observation bins')
    ctx.assumptions = ['model-level fixtures are optically thin with one contribution, so the tau>10 early exit (the licensed '
                       'exp(-10) slack) never fires and pointwise equality is required to 1e-12',
                       'cross-section tables constant in T and P (the T,P interpolation is the subject of C04)',
                       'TLC + CommunityModules Json/IOUtils']
    t = ctx.tier
    # ---- all TLC runs are independent: start them together, consume in order
    jobs = [('sel-repaired', 'MC_GridSel', 'MC_GridSel_widened_%s.cfg' % t, 8, None),
            ('sel-asbuilt-own-points', 'MC_GridSel', 'MC_GridSel_filtered_own.cfg', 4, None),
            ('sel-asbuilt-refuted', 'MC_GridSel', 'MC_GridSel_filtered_refuted.cfg', 2, 'PointwiseIndependent'),
            ('sel-asbuilt-refuted-defined', 'MC_GridSel', 'MC_GridSel_filtered_refuted2.cfg', 2, 'PointwiseIndependentDefined'),
            ('bin-third', 'MC_GridBin', 'MC_GridBin_third_%s.cfg' % t, 12, None),
            ('bin-uniform', 'MC_GridBin', 'MC_GridBin_uniform_%s.cfg' % t, 8, None),
            ('bin-literal-condition-refuted', 'MC_GridBin', 'MC_GridBin_literal_refuted.cfg', 2, 'BinningCommutes'),
            ('bin-nonvacuous-clip', 'MC_GridBin', 'MC_GridBin_nonvac1.cfg', 1, 'ClipKeepsAll'),
            ('bin-nonvacuous-edge-width', 'MC_GridBin', 'MC_GridBin_nonvac2.cfg', 1, 'EdgeWidthSame'),
            ('export-sel', 'MC_GridSel', 'EX_GridSel.cfg', 1, None),
            ('export-EX_GridBin_a.cfg', 'MC_GridBin', 'EX_GridBin_a.cfg', 1, None),
            ('export-EX_GridBin_b.cfg', 'MC_GridBin', 'EX_GridBin_b.cfg', 1, None)]
    from concurrent.futures import ThreadPoolExecutor
    pool = ThreadPoolExecutor(max_workers=6)
    futs = {j[0]: pool.submit(run_tlc, j[1], j[2], workers=j[3], allow_violation=True, timeout=1500) for j in jobs}
    results = {}
    for label, module, cfg, _, refute in jobs:
        res = futs[label].result()
        results[label] = res
        ctx.add_tlc(label, res, counts=refute is None)
        if refute is None:
            if res.violated:
                raise Machinery('spec %s/%s violates %s\n%s' % (module, cfg, res.violated, res.error_trace))
            if res.distinct == 0 or res.depth < 2:
                raise Machinery('vacuous: no action taken in %s/%s' % (module, cfg))
        elif res.violated != refute:
            raise Machinery('expected TLC to refute %s in %s/%s, got %r' % (refute, module, cfg, res.violated))
    pool.shutdown()
    if results['bin-third'].depth < 4 or results['bin-uniform'].depth < 4:
        raise Machinery('vacuous: Extend hardly taken in MC_GridBin')
    ctx.note('design-level refutation of the clip margin under the literal width condition (L-C13b): '
             + counterexample_text(results['bin-literal-condition-refuted']))
    ctx.exhaustive = True
    _t(ctx, 'TLC runs done')
    # ---- binding A
    vecs = results['export-sel'].tagged('VEC')
    if len(vecs) < 1000:
        raise Machinery('too few selection vectors exported: %d' % len(vecs))
    nsel = run_sel_vectors(ctx, vecs, q)
    _t(ctx, 'sel vectors done')
    nbin = 0
    for cfg in ('EX_GridBin_a.cfg', 'EX_GridBin_b.cfg'):
        vecs = results['export-' + cfg].tagged('VEC')
        if len(vecs) < 200:
            raise Machinery('too few clip/bin vectors exported by %s: %d' % (cfg, len(vecs)))
        nbin += run_bin_vectors(ctx, vecs, q)
        _t(ctx, 'bin vectors done ' + cfg)
    ctx.note('vectors replayed: %d selection, %d clip/bin' % (nsel, nbin))
    # ---- binding B
    run_traces(ctx, 150 if q else 1500)
    _t(ctx, 'traces done')


def replay(ctx, violations):
    rng = random.Random(1)
    tr = []
    for v in violations:
        vec = v['vector']
        kind = vec.get('kind')
        if kind == 'sel':
            judge_sel(ctx, vec, vec['layout'], vec['scale'], vec['offset'])
        elif kind == 'bin':
            judge_bin(ctx, vec, rng, {'outside': 0, 'outside_diff': 0, 'band_diff': 0})
        elif kind == 'model':
            judge_model(ctx, vec, rng, vec['model'], vec['variant'])
        elif kind == 'trace':
            e = measure(vec['nat'], vec['oc'], vec['ow2'], vec['f'], 1000, len(tr))
            if e is None:
                ctx.verdict('trace_clip_and_binner_conform', False, cls='trace:replay', detail='clip has < 2 points or a binned value is not finite', vector=vec)
            else:
                tr.append(e)
    if tr:
        run_traces(ctx, 0, events=tr)
