"""C10 -- atmospheric composition is a valid mixture for every input.

Spec: spec/Profiles.tla + spec/Chemistry.tla (operators), spec/MC_Chemistry.tla (mixture, exhaustive +
      export), spec/MC_GasProfile.tla (built-in abundance profiles), spec/Trace_Chemistry.tla.
Binding A: TLC-exported exact mixtures (ratios, traces, availability) through
           TaurexChemistry(...).initialize_chemistry; exact profile vectors through the Gas classes.
Binding B: every built-in gas profile for every layer count 2..120 (clauses validated by TLC),
           exact profile re-evaluation on logspace grids, random chemistries re-evaluated by TLC; canaries.
Settings:  spec/MC_ChemistrySettings.tla -- ONE long-lived chemistry, settings written through the public
           fitting parameters ('<gas>_<main gas>' ratios with up to four fill gases, every gas's own parameters)
           between evaluations; TLC exports write/eval behaviours with the exact mixture after every evaluation.
Names:     spec/MC_MolMass.tla -- the formula read character by character (repeated elements ADD, round 5); processes of chemistry objects whose gas
           names coincide under a lossy key (harness/fx_chemdims.py).
Power law: spec/MC_PowerLaw.tla -- which control values are supplied / tabulated, by which route (fx_chemdims.py).
Round 4:   spec/EX_Chemistry_over_*.cfg -- a SINGLE gas requested at / above one (one layer, both, next to another gas), handed
           over through every built-in profile class that can request it exactly; the requested profiles (not what a gas
           reports) decide the verdict (Chemistry.tla!Seen, wrong design "clip_traces").  Every scalar route to the mean
           molecular weight (`mu`, the derived-parameter registry) against the weights of the surface layer
           (Chemistry.tla!MuScalarWeights, invariant ScalarMuAtSurface, wrong designs "mu_layer_mean" / "mu_top_layer").
Round 5:   spec/MC_ChemistryEdge.tla -- BY HOW MUCH the trace total differs from one: numbers a + e*eps (eps below every
           lattice step, instantiated as 2^-17 .. 2^-52), the rejection boundary is exact (wrong designs "forgive_close",
           "strict_ge"); formulae that name an element more than once in the pool of MC_MolMass.tla (wrong readers
           "lastcount" / "firstcount").
Binding C: spec/Functional.tla walks (harness/history.py, harness/fx_chemhistory.py): one long-lived gas of every
           built-in profile type / one TaurexChemistry re-initialised after a change of a fitting parameter, the
           layer count, the pressure grid, the temperature profile; every evaluation must equal a fresh object's.
"""
import math
import random
import re
from fractions import Fraction

import numpy as np

from ..core import Machinery, frac, close, validate_trace

REL = 1e-12           # mixture arithmetic (a handful of operations)
RTOL = 1e-9           # profiles: chains of <= ~100 additions (cumulative-sum moving average, log/exp), DESIGN 2.4
SLOG = 100000          # scale of logged log10 abundances
SMIX = 8192            # scale of logged mixing ratios (mix events)
FILLS = ['H2', 'He', 'N2']
TRACES = ['H2O', 'CH4', 'CO2']
POOL = ['H2O', 'CH4', 'CO2', 'CO', 'NH3', 'TiO', 'VO', 'Na', 'K', 'HCN', 'C2H2', 'SO2', 'H2S', 'O2', 'SiO', 'PH3']
POWER_KNOWN = ['H2', 'H2O', 'TiO', 'VO', 'H-', 'Na', 'K']
# reference atomic weights (typed in, not read from the repository): sanity of the element table
REF_WEIGHTS = dict(H=1.008, He=4.0026, C=12.011, N=14.007, O=15.999, Na=22.990, S=32.06, K=39.098,
                   Ti=47.867, V=50.942, Si=28.085, P=30.974, Fe=55.845)


# ----------------------------------------------------------------------------
# independent formula parser (does not use taurex.util's tokenizer / parser)
# ----------------------------------------------------------------------------

def parse_formula(s):
    """'C2H2' -> {'C':2,'H':2}; groups in () [] {} with multipliers; charges ('+','-') ignored."""
    pos = 0

    def group(closing):
        nonlocal pos
        out = {}
        while pos < len(s):
            c = s[pos]
            if c in '([{':
                pos += 1
                sub = group({'(': ')', '[': ']', '{': '}'}[c])
                mult = number()
                for k, v in sub.items():
                    out[k] = out.get(k, 0) + v * mult
            elif c in ')]}':
                if c != closing:
                    raise Machinery('unbalanced formula %r' % s)
                pos += 1
                return out
            elif c.isupper():
                el = c
                pos += 1
                if pos < len(s) and s[pos].islower():
                    el += s[pos]
                    pos += 1
                out[el] = out.get(el, 0) + number()
            else:
                pos += 1
        return out

    def number():
        nonlocal pos
        j = pos
        while j < len(s) and s[j].isdigit():
            j += 1
        val = int(s[pos:j]) if j > pos else 1
        pos = j
        return val

    return group(None)


def indep_mass(name):
    """molecular mass in amu from the independent parser and the element weight table (data)."""
    from taurex.util.util import mass as table
    tot = Fraction(0)
    for el, cnt in parse_formula(name).items():
        if el not in table:
            raise Machinery('element %s of %s not in the weight table' % (el, name))
        tot += Fraction(repr(float(table[el]))) * cnt
    return tot


def check_mass_table(ctx):
    from taurex.util.util import mass as table
    from taurex.util import get_molecular_weight
    from taurex.constants import AMU
    for el, ref in REF_WEIGHTS.items():
        ctx.verdict('element_weight_table', el in table and abs(table[el] - ref) <= 2e-3 * ref, cls='element:' + el,
                    detail='table %r reference %r' % (table.get(el), ref), vector=dict(kind='element', el=el))
    for name in FILLS + POOL + ['H-']:
        got = get_molecular_weight(name) / AMU
        exp = float(indep_mass(name))
        ctx.verdict('molecular_mass_formula', close(got, exp, rel=1e-12), cls='molecule:' + name,
                    detail='get_molecular_weight %r independent parser %r' % (got, exp), vector=dict(kind='molmass', name=name))


# ----------------------------------------------------------------------------
# fixtures
# ----------------------------------------------------------------------------

def set_available(names):
    from taurex.cache import OpacityCache
    from ..fixtures import GridOpacity
    OpacityCache().clear_cache()
    for nm in names:
        OpacityCache().add_opacity(GridOpacity(nm, [100.0, 200.0], [100.0, 5000.0], [1e-4, 1e8], np.ones((2, 2, 2)) * 1e-22))


def clear_available():
    from taurex.cache import OpacityCache
    OpacityCache().clear_cache()


def gas_classes():
    from taurex.data.profiles.chemistry.gas.constantgas import ConstantGas
    from taurex.data.profiles.chemistry.gas.twolayergas import TwoLayerGas
    from taurex.data.profiles.chemistry.gas.twopointgas import TwoPointGas
    from taurex.data.profiles.chemistry.gas.arraygas import ArrayGas
    from taurex.data.profiles.chemistry.gas.powergas import PowerGas
    return dict(constant=ConstantGas, twolayer=TwoLayerGas, twopoint=TwoPointGas, array=ArrayGas, power=PowerGas)


# ----------------------------------------------------------------------------
# binding A: mixtures
# ----------------------------------------------------------------------------

def row_reps(row, log_ok):
    """every built-in way of REQUESTING the per-layer abundances `row` (exact rationals, 2 layers) exactly"""
    a, b = float(row[0]), float(row[-1])
    if len(set(row)) == 1:
        reps = ['constant', 'array1', 'array', 'array3']
        if log_ok and a > 0:
            reps += ['twopoint', 'twolayer']
    else:
        reps = ['array', 'array3']
        if log_ok and a > 0 and b > 0:
            reps += ['twopoint']
    return reps


def rep_gas(rep, name, row):
    G = gas_classes()
    a, b = float(row[0]), float(row[-1])
    if rep == 'constant':
        return G['constant'](name, mix_ratio=a)
    if rep == 'array1':
        return G['array'](name, mix_ratio_array=[a])
    if rep == 'array':
        return G['array'](name, mix_ratio_array=[float(c) for c in row])
    if rep == 'array3':          # a table with another length than the layer count: the end layers sit on the end entries
        return G['array'](name, mix_ratio_array=[a, float((row[0] + row[-1]) / 2), b])
    if rep == 'twopoint':
        return G['twopoint'](name, mix_ratio_surface=a, mix_ratio_top=b)
    if rep == 'twolayer':
        return G['twolayer'](name, mix_ratio_surface=a, mix_ratio_top=b, mix_ratio_P=1e3)
    raise Machinery('representation ' + rep)


def scalar_mu_routes(chem):
    """every public scalar route to the mean molecular weight (amu): name -> value or the exception's text"""
    out = {}
    for name, fn in (('mu', lambda: chem.mu), ('derived_parameters', lambda: chem.derived_parameters()['mu'][2]())):
        try:
            out[name] = float(fn())
        except Exception as ex:
            out[name] = '%s: %s' % (type(ex).__name__, str(ex)[:60])
    return out


def run_mix_vector(ctx, v, rng=None):
    """One exported mixture through the real TaurexChemistry (fixtures must already be registered).  With `rng` (or a
    recorded v['reps']) every requested row is handed over through a seeded one of the built-in profile classes that can
    request it exactly (the class that carries an over-unity abundance is a dimension of the quantifier)."""
    from taurex.data.profiles.chemistry.taurexchemistry import TaurexChemistry
    from taurex.exceptions import InvalidModelException
    from taurex.constants import AMU
    G = gas_classes()
    nl = v['nl']
    ratios = [frac(r) for r in v['ratios']]
    nf = len(ratios) + 1
    x = [[frac(c) for c in row] for row in v['x']]
    totals = [sum(row[l] for row in x) for l in range(nl)]
    bnd = 'total>1' if max(totals) > 1 else ('total==1' if max(totals) == 1 else 'total<1')
    cls = 'nf%d:nt%d:%s' % (nf, len(x), bnd)
    reps = v.get('reps')
    if reps is None and rng is not None:
        # 10**log10(v) may be one ulp off: keep exact-one totals (and totals within a few ulps of one) in the linear classes
        log_ok = all(t != 1 for t in totals) and 'edge' not in v
        reps = [rng.choice(row_reps(row, log_ok)) for row in x]
    if reps is not None:
        single = any(c > 1 for row in x for c in row)
        cls += ':%s:%s' % ('single>1' if single else 'each<=1', '+'.join(sorted(set(reps))) or 'none')
        v = dict(v, reps=reps)
    if 'edge' in v:      # round 5: BY HOW MUCH the total differs from one (spec/MC_ChemistryEdge.tla)
        cls += ':edge=%s:eps=2^-%d' % (v['edge'], v['K'])
    vec = dict(v, kind='mix')
    kw = dict(fill_gases=FILLS[:nf])
    if nf == 2:
        kw['ratio'] = float(ratios[0])
    elif nf == 3:
        kw['ratio'] = [float(r) for r in ratios]
    chem = TaurexChemistry(**kw)
    for g, row in enumerate(x):
        if reps is not None:
            chem.addGas(rep_gas(reps[g], TRACES[g], row))
        elif len(set(row)) == 1 and g % 2 == 0:
            chem.addGas(G['constant'](TRACES[g], mix_ratio=float(row[0])))
        else:
            chem.addGas(G['array'](TRACES[g], mix_ratio_array=[float(c) for c in row]))
    T = np.full(nl, 1000.0)
    P = np.logspace(5, 1, nl)
    ok = lambda clause, cond, detail='': ctx.verdict(clause, bool(cond), cls=cls, detail=detail, vector=vec)
    try:
        chem.initialize_chemistry(nl, T, P, None)
        raised = None
    except InvalidModelException as e:
        raised = e
    except Exception as e:           # any other exception for an input inside the quantifier is a verdict, not a crash
        ok('invalid_iff_exceeds_one', False, 'totals %s: %s: %s' % ([str(t) for t in totals], type(e).__name__, str(e)[:80]))
        return
    ok('invalid_iff_exceeds_one', (raised is not None) == v['invalid'],
       'requested %s totals %s: %s' % ([[str(c) for c in row] for row in x], [str(t) for t in totals],
                                       'rejected' if raised is not None else 'accepted'))
    ok('active_split', list(chem.activeGases) == v['active'] and list(chem.inactiveGases) == v['inactive'],
       'active %r inactive %r expected %r / %r' % (list(chem.activeGases), list(chem.inactiveGases), v['active'], v['inactive']))
    if raised is not None or v['invalid']:
        return
    mix = np.asarray(chem.mixProfile, dtype=float)
    exp = [[frac(c) for c in row] for row in v['mix']]
    shape_ok = mix.shape == (len(exp), nl)
    ok('one_row_per_gas', shape_ok and list(chem.gases) == v['gases'], 'shape %r gases %r' % (mix.shape, chem.gases))
    if not shape_ok:
        return
    ok('non_negative', np.all(np.isfinite(mix)) and np.all(mix >= 0.0), 'min %r' % mix.min())
    ok('sums_to_one', np.all(np.abs(mix.sum(axis=0) - 1.0) <= 1e-12), 'sums %r' % mix.sum(axis=0))
    bad = [(g, l, mix[g, l], str(exp[g][l])) for g in range(len(exp)) for l in range(nl)
           if not close(mix[g, l], float(exp[g][l]), rel=REL, abs_=1e-15)]
    ok('mix_value', not bad, 'first mismatch (gas, layer, got, exact) %r' % (bad[:1],))
    badr = [(f, l) for f in range(1, nf) for l in range(nl)
            if not close(mix[f, l], float(ratios[f - 1]) * mix[0, l], rel=REL, abs_=1e-15)]
    ok('fill_ratio_exact', not badr, 'fill/main != ratio at %r' % (badr[:1],))
    masses = [indep_mass(g) for g in v['gases']]
    mu_exp = [float(sum(exp[g][l] * masses[g] for g in range(len(exp)))) * AMU for l in range(nl)]
    mu = np.asarray(chem.muProfile, dtype=float)
    ok('mu_weighted_sum', mu.shape == (nl,) and all(close(mu[l], mu_exp[l], rel=REL) for l in range(nl)),
       'mu %r expected %r' % (mu / AMU, [m / AMU for m in mu_exp]))
    if 'muw' in v:      # the scalar routes: TLC's weights (those of the surface layer) x independent masses, in amu
        mus = float(sum(frac(w) * m for w, m in zip(v['muw'], masses)))
        for route, got in sorted(scalar_mu_routes(chem).items()):
            ctx.verdict('mu_scalar_surface_weighted_sum', not isinstance(got, str) and close(got, mus, rel=REL),
                        cls='%s:route=%s:%s' % (cls, route, 'layers-differ' if len({tuple(col) for col in zip(*exp)}) > 1 else 'uniform'),
                        detail='%s reads %r, weighted sum of the surface layer %r (per-layer %r)' % (route, got, mus, [m / AMU for m in mu_exp]),
                        vector=vec)
    # the split profiles are the rows of the full profile
    good = True
    am, im = chem.activeGasMixProfile, chem.inactiveGasMixProfile
    for names, prof in ((v['active'], am), (v['inactive'], im)):
        if not names:
            good = good and (prof is None or len(prof) == 0)
            continue
        prof = np.asarray(prof)
        good = good and prof.shape == (len(names), nl)
        for k, nm in enumerate(names):
            row = mix[v['gases'].index(nm)]
            good = good and prof.shape[0] > k and np.array_equal(prof[k], row) and \
                np.array_equal(np.asarray(chem.get_gas_mix_profile(nm)), row)
    ok('active_split_profiles', good, 'active/inactive mix profiles are not the rows of mixProfile')


EDGE_EXPONENTS = [17, 20, 24, 27, 30, 34, 37, 40, 44, 47, 50, 52]     # eps = 2^-K: 7.6e-6 .. one unit in the last place of 1.0


def edge_vector(ev, K):
    """An exported  a + e*eps  mixture (spec/MC_ChemistryEdge.tla) at eps = 2^-K as an ordinary exact mixture vector.  Every
    requested abundance must be a double (so that what the spec decides about is what the implementation is handed); the
    partial sums of the layer totals are multiples of 2^-K below 2, i.e. exact in double arithmetic for K <= 52."""
    eps = Fraction(1, 2 ** K)
    pair = lambda a, e: [[frac(p) + frac(q) * eps for p, q in zip(ra, re_)] for ra, re_ in zip(a, e)]
    x = pair(ev['xa'], ev['xe'])
    for row in x:
        for c in row:
            if Fraction(float(c)) != c:
                raise Machinery('edge abundance %s is not a double at K=%d' % (c, K))
    as_json = lambda rows: [[[c.numerator, c.denominator] for c in row] for row in rows]
    mix = pair(ev['ma'], ev['me']) if not ev['invalid'] else []
    return dict(nl=ev['nl'], ratios=ev['ratios'], x=as_json(x), invalid=ev['invalid'], mix=as_json(mix),
                muw=[r[0] for r in as_json(mix)], gases=ev['gases'], avail=[], active=[], inactive=ev['gases'],
                single=False, edge=ev['edge'], K=K)


def run_edge(ctx):
    """round 5: BY HOW MUCH the trace total differs from one -- totals on the lattice 1 + e * 2^-K (e a small integer of either
    sign or zero, in one layer or in all) must be rejected iff e > 0, exactly like larger excesses."""
    q = ctx.tier == 'quick'
    if not q:
        ctx.expect_refuted('refute-forgive-close', 'MC_ChemistryEdge', 'RF_ChemistryEdge_forgive_close.cfg', 'NonNegative', workers=1)
        ctx.expect_refuted('refute-edge-strict-ge', 'MC_ChemistryEdge', 'RF_ChemistryEdge_strict_ge.cfg', 'InvalidIffExceedsOne', workers=1)
    res = ctx.check_spec('export-mixtures-total-next-to-one', 'MC_ChemistryEdge', 'EX_ChemistryEdge_%s.cfg' % ctx.tier, workers=1)
    wit = {(w['variant'], w['edge']) for w in res.tagged('WITNESS')}
    need = {('forgive_close', 'above-in-one-layer'), ('forgive_close', 'above-in-all-layers'), ('strict_ge', 'exactly-one')}
    if not need <= wit:
        raise Machinery('InvalidIffExceedsOne is vacuous next to one: no refuting input for %r' % sorted(need - wit))
    ev = res.tagged('EVEC')
    classes = {'above-in-one-layer', 'above-in-all-layers', 'exactly-one', 'just-below'}
    if len(ev) < 2500 or {v['edge'] for v in ev} != classes:
        raise Machinery('only %d edge vectors exported / an edge class is missing' % len(ev))
    rng = random.Random(ctx.seed * 86028121 + 5)
    per = 160 if q else 600
    picked = []
    for c in sorted(classes):
        vs = [v for v in ev if v['edge'] == c]
        picked += rng.sample(vs, min(per, len(vs)))
    vecs = []
    for v in picked:
        for K in rng.sample(EDGE_EXPONENTS, 2 if q else 3):
            vecs.append(edge_vector(v, K))
    run_mix_vectors(ctx, vecs, rng)
    ctx.note('mixtures whose trace total is 1 + e*2^-K (e in -1..1 per gas, K in 17..52; in one layer or all) replayed: %d' % len(vecs))


def run_mix_vectors(ctx, vecs, rng=None):
    groups = {}
    for v in vecs:
        groups.setdefault(tuple(v['avail']), []).append(v)
    try:
        for avail, vs in sorted(groups.items()):
            set_available(avail)
            for v in vs:
                run_mix_vector(ctx, v, rng)
    finally:
        clear_available()


# ----------------------------------------------------------------------------
# settings written through the public fitting parameters (spec/MC_ChemistrySettings.tla)
# ----------------------------------------------------------------------------

SETTING_KINDS = ['constant', 'twopoint', 'twolayer']     # profile types whose parameters can request a constant abundance


def settings_gas(kind, name, val):
    G = gas_classes()
    if kind == 'constant':
        return G[kind](name, mix_ratio=val), [name]
    if kind == 'twopoint':
        return G[kind](name, mix_ratio_surface=val, mix_ratio_top=val), [name + '_surface', name + '_top']
    return G[kind](name, mix_ratio_surface=val, mix_ratio_top=val, mix_ratio_P=1e3), [name + '_top', name + '_surface']


def run_settings_vector(ctx, v, rng):
    """One exported write/eval behaviour on ONE long-lived TaurexChemistry.  The constructor receives the start
    configuration; every later value arrives through the parameter's own public setter."""
    from taurex.data.profiles.chemistry.taurexchemistry import TaurexChemistry
    from taurex.exceptions import InvalidModelException
    from taurex.constants import AMU
    fills, traces, nl = v['fills'], v['traces'], v['nl']
    nf = len(fills)
    req_r = [frac(r) for r in v['start']['ratios']]
    req_x = [frac(a) for a in v['start']['ab']]
    kinds = [rng.choice(SETTING_KINDS) for _ in traces]
    route = rng.choice(['fit', 'item'])
    ratio = [float(r) for r in req_r]
    chem = TaurexChemistry(fill_gases=list(fills), ratio=ratio[0] if (nf == 2 and rng.random() < 0.5) else ratio)
    gases, pnames = [], []
    for nm, kind, a in zip(traces, kinds, req_x):
        g, names = settings_gas(kind, nm, float(a))
        chem.addGas(g)
        gases.append(g)
        pnames.append(names)
    rnames = ['%s_%s' % (f, fills[0]) for f in fills[1:]]
    vec = dict(v, kind='settings', kinds=kinds, route=route)
    last = 'start'
    masses = [indep_mass(g) for g in fills + traces]
    nev = 0

    def ok(clause, cond, detail=''):
        return ctx.verdict(clause, bool(cond), cls='settings:nf%d:nt%d:%s:after-%s' % (nf, len(traces), route, last), detail=detail, vector=vec)

    def write(owner, name, val):
        if route == 'fit':
            chem.fitting_parameters()[name][3](val)
        else:
            owner[name] = val

    def readback():
        fp = chem.fitting_parameters()
        got = {n: fp[n][2]() for n in fp}
        want = {n: float(r) for n, r in zip(rnames, req_r)}
        for names, a in zip(pnames, req_x):
            for n in names:
                want[n] = float(a)
        bad = [(n, got.get(n), w) for n, w in sorted(want.items()) if got.get(n) != w]
        return bad

    for e in v['log']:
        if e['op'] == 'write':
            val = frac(e['v'])
            if e['kind'] == 'ratio':
                last = 'ratio%d' % e['i']
                req_r[e['i'] - 1] = val
                write(chem, rnames[e['i'] - 1], float(val))
            else:
                last = 'trace:' + kinds[e['i'] - 1]
                req_x[e['i'] - 1] = val
                for n in pnames[e['i'] - 1]:
                    write(gases[e['i'] - 1], n, float(val))
            bad = readback()
            ok('setting_reads_back', not bad, 'after writing %s: (parameter, reads, requested) %r' % (last, bad[:2]))
            continue
        nev += 1
        P = np.logspace(5 + nev % 2, 1 - nev % 3, nl)
        T = np.full(nl, 900.0 + 100.0 * nev)
        try:
            chem.initialize_chemistry(nl, T, P, None)
            raised = False
        except InvalidModelException:
            raised = True
        ok('requested_invalid_iff_exceeds_one', raised == (e['st'] == 'invalid'),
           'requested traces %s: %s' % ([str(a) for a in req_x], 'rejected' if raised else 'accepted'))
        if raised or e['st'] == 'invalid':
            continue
        mix = np.asarray(chem.mixProfile, dtype=float)
        exp = [[frac(c) for c in row] for row in e['mix']]
        if not ok('one_row_per_gas', mix.shape == (len(exp), nl), 'shape %r' % (mix.shape,)):
            continue
        ok('non_negative', np.all(np.isfinite(mix)) and np.all(mix >= 0.0), 'min %r' % mix.min())
        ok('sums_to_one', np.all(np.abs(mix.sum(axis=0) - 1.0) <= 1e-12), 'sums %r' % mix.sum(axis=0))
        badr = [(fills[f], l, mix[f, l] / mix[0, l], str(req_r[f - 1])) for f in range(1, nf) for l in range(nl)
                if not close(mix[f, l], float(req_r[f - 1]) * mix[0, l], rel=REL, abs_=1e-15)]
        ok('requested_fill_ratio_exact', not badr, '(fill gas, layer, ratio to main, requested) %r' % (badr[:2],))
        bad = [(g, l, mix[g, l], str(exp[g][l])) for g in range(len(exp)) for l in range(nl)
               if not close(mix[g, l], float(exp[g][l]), rel=REL, abs_=1e-15)]
        ok('requested_mix_value', not bad, 'first mismatch (gas, layer, got, exact) %r' % (bad[:1],))
        mu_exp = [float(sum(exp[g][l] * masses[g] for g in range(len(exp)))) * AMU for l in range(nl)]
        mu = np.asarray(chem.muProfile, dtype=float)
        ok('requested_mu_weighted_sum', mu.shape == (nl,) and all(close(mu[l], mu_exp[l], rel=REL) for l in range(nl)),
           'mu %r expected %r' % (mu / AMU, [m / AMU for m in mu_exp]))
        sc = scalar_mu_routes(chem)
        ok('requested_mu_scalar', all(not isinstance(g, str) and close(g, mu_exp[0] / AMU, rel=REL) for g in sc.values()),
           'scalar routes %r, weighted sum of the surface layer %r' % (sc, mu_exp[0] / AMU))


def run_settings_vectors(ctx, vecs, seed=None):
    rng = random.Random((ctx.seed if seed is None else seed) * 2654435761 % (2 ** 31) + 5)
    clear_available()
    for v in vecs:
        run_settings_vector(ctx, v, rng)


def run_dimensions(ctx):
    """round 3: WHICH gases are in the mixture / what the process was asked before (spec/MC_MolMass.tla) and WHICH
    control values of the power law the user supplied, by which route (spec/MC_PowerLaw.tla)"""
    from .. import fx_chemdims as fxd
    q = ctx.tier == 'quick'
    # expected counterexamples: quick -- TLC prints, in the export run, reachable processes in which a design keyed by each
    # lossy key hands out another species' mass (WITNESS); thorough -- additionally one refutation run per wrong design
    if not q:
        for variant in ('casefold', 'anagram', 'nodigits', 'prefix2', 'lastcount', 'firstcount'):
            ctx.expect_refuted('refute-memo-' + variant, 'MC_MolMass', 'RF_MolMass_%s.cfg' % variant, 'AnswerIsOfAskedFormula', workers=1)
    res = ctx.check_spec('export-names', 'MC_MolMass', 'EX_MolMass_%s.cfg' % ctx.tier, workers=1)
    wit = {w['variant'] for w in res.tagged('WITNESS')}
    if wit != {'casefold', 'anagram', 'nodigits', 'prefix2', 'lastcount', 'firstcount'}:
        raise Machinery('AnswerIsOfAskedFormula is vacuous: TLC found a refuting process only for the memo keys / wrong readers %r' % sorted(wit))
    mv = dedupe(res.tagged('MVEC'))
    if len(mv) < 50 or not any(len(v['objs']) > 1 and 'casefold' in v['keys'] for v in mv) or \
            not any(len(v['objs']) == 1 and len(v['objs'][0]['names']) == 2 for v in mv) or \
            {k for v in mv for k in v['keys']} != {'casefold', 'anagram', 'nodigits', 'prefix2', 'repeated-element'} or \
            not any(len(v['objs']) > 1 and v['keys'] == ['repeated-element'] for v in mv):
        raise Machinery('only %d name behaviours exported / a class of colliding names is missing' % len(mv))
    clear_available()
    n = fxd.run_names_vectors(ctx, mv, [indep_mass('H2'), indep_mass('He')])
    ctx.traces += n
    ctx.note('processes of chemistry objects whose gas names coincide under a lossy key (case, anagram, counts, prefix) replayed: %d' % n)
    if not q:
        for variant, inv in (('all_or_nothing', 'AtMostDeepValue'), ('table_wins', 'ControlValuesInForce'), ('ctor_only', 'ControlValuesInForce')):
            ctx.expect_refuted('refute-powerlaw-' + variant, 'MC_PowerLaw', 'RF_PowerLaw_%s.cfg' % variant, inv, workers=1)
    res = ctx.check_spec('export-powerlaw', 'MC_PowerLaw', 'EX_PowerLaw_%s.cfg' % ctx.tier, workers=1)
    wit = {(w['variant'], w['inv']) for w in res.tagged('WITNESS')}
    need = {(d, i) for d in ('all_or_nothing', 'table_wins', 'ctor_only') for i in ('AtMostDeepValue', 'ControlValuesInForce')}
    if not need <= wit:
        raise Machinery('power-law invariants are vacuous: no refuting evaluation for %r' % sorted(need - wit))
    pv = dedupe(res.tagged('PVEC'))
    partial_s = lambda e: e['op'] == 'eval' and e['st'] == 'ok' and e['eff']['s']['src'] == 'user' and \
        all(e['eff'][c]['src'] == 'table' for c in 'abg')
    if len(pv) < 1000 or not any(partial_s(e) for v in pv for e in v['log']) or \
            not any(e['op'] == 'eval' and e['st'] == 'rejected' for v in pv for e in v['log'][:-1]):
        raise Machinery('only %d power-law behaviours exported / no partial override / no rejected-then-valid history' % len(pv))
    n = fxd.run_power_vectors(ctx, pv)
    ctx.traces += n
    ctx.note('power-law behaviours (control values supplied / tabulated, written by every route, evaluations in between) replayed: %d' % n)


def run_histories(ctx, nwalks):
    from .. import history, fx_chemhistory as fx
    scs = fx.scenarios(ctx.tier)
    set_available(['H2O', 'CO', 'N2', 'TiO'])
    try:
        fx.preflight(ctx, scs)
        return history.run_history(ctx, scs, nwalks), len(scs)
    finally:
        clear_available()


# ----------------------------------------------------------------------------
# binding A: gas profiles on the integer decade grid
# ----------------------------------------------------------------------------

def build_gas(kind, p):
    G = gas_classes()
    if kind == 'constant':
        return G[kind]('H2O', mix_ratio=p['s'])
    if kind == 'twopoint':
        return G[kind]('H2O', mix_ratio_surface=p['s'], mix_ratio_top=p['t'])
    if kind == 'twolayer':
        return G[kind]('H2O', mix_ratio_surface=p['s'], mix_ratio_top=p['t'], mix_ratio_P=p['P'],
                       mix_ratio_smoothing=p['sw'])
    if kind == 'array':
        return G[kind]('H2O', mix_ratio_array=p['arr'])
    if kind == 'power':
        return G[kind]('H2O', profile_type=p.get('ptype', 'auto'), mix_ratio_surface=p.get('s'), alpha=p.get('alpha'),
                       beta=p.get('beta'), gamma=p.get('gamma'))
    raise Machinery('unknown gas kind ' + kind)


def call_profile(kind, p, n, T, P):
    """-> (profile or None, error string)"""
    try:
        g = build_gas(kind, p)
        g.initialize_profile(n, np.asarray(T, dtype=float), np.asarray(P, dtype=float), None)
        return np.array(g.mixProfile, dtype=float), ''
    except Exception as e:        # any exception means: no profile
        return None, '%s: %s' % (type(e).__name__, str(e)[:80])


def run_profile_vector(ctx, v):
    kind, n = v['kind'], v['n']
    P = [10.0 ** k for k in v['lp']]
    T = [1000.0] * n
    if kind == 'array':
        p = dict(arr=[(a + 13) / 16.0 for a in v['arr']])
        expect = [(float(frac(c)) + 13.0) / 16.0 for c in v['prof']]
        lo, hi = (v['lo'] + 13) / 16.0, (v['hi'] + 13) / 16.0
    else:
        p = dict(s=10.0 ** v['s'], t=10.0 ** v['t'], sw=v['sw'], P=P[v['pl0']])
        expect = [10.0 ** float(frac(c)) for c in v['prof']]
        lo, hi = 10.0 ** v['lo'], 10.0 ** v['hi']
    cls = '%s:sw%d' % (kind, v['sw']) if kind == 'twolayer' else kind
    vec = dict(v, kind_='profile')
    prof, err = call_profile(kind, p, n, T, P)
    ok = lambda clause, cond, detail='': ctx.verdict(clause, bool(cond), cls=cls, detail=detail, vector=vec)
    if not ok('profile_one_value_per_layer', prof is not None and prof.shape == (n,),
              'n=%d: %s' % (n, err or 'shape %r' % (None if prof is None else prof.shape,))):
        return
    ok('profile_finite', np.all(np.isfinite(prof)), 'profile %r' % prof)
    ok('profile_within_control_range', np.all(prof >= lo * (1 - RTOL)) and np.all(prof <= hi * (1 + RTOL)),
       'range [%r, %r] profile %r' % (lo, hi, prof))
    if v['exact']:
        bad = [(l, prof[l], expect[l]) for l in range(n) if not close(prof[l], expect[l], rel=RTOL)]
        ok('profile_exact_value', not bad, 'n=%d first mismatch (layer, got, exact) %r' % (n, bad[:1]))


# ----------------------------------------------------------------------------
# binding B: recipes -> events
# ----------------------------------------------------------------------------

def slog(x):
    if not (x > 0.0) or x != x or x == float('inf'):
        return -(2 ** 30) + 1
    return min(2 ** 30 - 1, max(-(2 ** 30) + 1, int(round(math.log10(x) * SLOG))))


def grid(r):
    n = r['n']
    P = np.logspace(r['pa'], r['pb'], n)
    T = np.linspace(r['ta'], r['tb'], n)
    return P, T


def profile_event(r):
    """recipe r (kind, n, grid, params) -> trace event of kind 'profile'."""
    kind, n = r['kind'], r['n']
    P, T = grid(r)
    p = dict(r['p'])
    if kind == 'twolayer' and 'pl0' in p:
        p['P'] = float(P[p['pl0']])
    prof, err = call_profile(kind, p, n, T, P)
    if kind == 'power':
        from taurex.data.profiles.chemistry.gas.powergas import PowerGas  # coefficient table is input data
        surf = p.get('s')
        if surf is None:
            surf = float(PowerGas('H2O').check_known(p['ptype'])[3])
        lo, hi, haslo = 0.0, surf, False
    elif kind == 'array':
        lo, hi, haslo = min(p['arr']), max(p['arr']), True
    elif kind == 'constant':
        lo = hi = p['s']
        haslo = True
    else:
        lo, hi, haslo = min(p['s'], p['t']), max(p['s'], p['t']), True
    e = dict(ev='profile', kind=kind, n=n, S=SLOG, tol=1, hi=slog(hi), lo=slog(lo) if haslo else 0, haslo=haslo)
    if prof is None or prof.ndim != 1:
        e.update(len=-1, v=[], nonfinite=0, below=0, above=0)
        return e, err or 'not a vector'
    fin = np.isfinite(prof) & (prof > 0.0)
    e.update(len=int(prof.shape[0]), v=[slog(x) for x in prof], nonfinite=int((~fin).sum()),
             below=int((prof[fin] < lo * (1 - RTOL)).sum()) if haslo else 0,
             above=int((prof[fin] > hi * (1 + RTOL)).sum()))
    return e, 'min %r max %r control range [%r, %r]' % (float(prof.min()), float(prof.max()), lo, hi)


def exact_event(r):
    """recipe -> 'exact' event: TLC re-evaluates the profile operator on the (n-1 .. 0) grid."""
    kind, n = r['kind'], r['n']
    P, T = grid(r)
    if kind == 'array':
        p = dict(arr=[a / 16.0 for a in r['arr']])
        S = 4096
    else:
        p = dict(s=10.0 ** r['s'], t=10.0 ** r['t'], sw=r['sw'], P=float(P[r['pl0']]))
        S = 10000
    prof, err = call_profile(kind, p, n, T, P)
    e = dict(ev='exact', kind=kind, n=n, s=r['s'], t=r['t'], pl0=r['pl0'], sw=r['sw'], arr=r['arr'], S=S, tol=1)
    if prof is None or prof.shape != (n,) or not np.all(np.isfinite(prof)) or (kind != 'array' and np.any(prof <= 0)):
        e['v'] = []
        return e, err or 'no finite positive profile'
    if kind == 'array':
        if np.any(prof < -1.0) or np.any(prof > 2.0):      # keep TLC's 32-bit arithmetic safe: such a profile is no profile
            e['v'] = []
            return e, 'profile far outside [0, 1]: %r' % prof[:3]
        e['v'] = [int(round(x * 16 * S)) for x in prof]
    else:
        lg = np.log10(prof)
        if np.any(lg < -15.0) or np.any(lg > 1.0):
            e['v'] = []
            return e, 'profile far outside the control range: %r' % prof[:3]
        e['v'] = [int(round(x * S)) for x in lg]
    return e, 'profile[0..2] %r' % prof[:3]


def mix_event(r):
    """recipe -> 'mix' event through TaurexChemistry (registers and clears its own fixtures)."""
    from taurex.data.profiles.chemistry.taurexchemistry import TaurexChemistry
    from taurex.exceptions import InvalidModelException
    from taurex.constants import AMU
    n = r['n']
    P, T = grid(r)
    set_available(r['avail'])
    try:
        kw = dict(fill_gases=list(r['fills']))
        if len(r['fills']) == 2:
            kw['ratio'] = r['ratios'][0][0] / r['ratios'][0][1]
        elif len(r['fills']) > 2:
            kw['ratio'] = [a / b for a, b in r['ratios']]
        chem = TaurexChemistry(**kw)
        G = gas_classes()
        for g in r['gases']:
            chem.addGas(G[g['kind']](**gas_kwargs(g, P)))
        try:
            chem.initialize_chemistry(n, T, P, None)
            invalid = False
        except InvalidModelException:
            invalid = True
        except Exception as ex:      # any other exception: no mixture at all
            return dict(ev='mix', n=n, S=SMIX, tol=1, ratios=[], gases=[], avail=[], active=['error'], inactive=[],
                        invalid=False, x=[], mix=[], badsum=0, neg=0, badmu=0, badmus=0), '%s: %s' % (type(ex).__name__, str(ex)[:80])
        gases = list(chem.gases)
        e = dict(ev='mix', n=n, S=SMIX, tol=len(r['gases']) + 2, ratios=[list(q) for q in r['ratios'][:max(0, len(r['fills']) - 1)]],
                 gases=gases, avail=sorted(r['avail']), active=list(chem.activeGases), inactive=list(chem.inactiveGases),
                 invalid=invalid, x=[], mix=[], badsum=0, neg=0, badmu=0, badmus=0)
        # the trace profiles are needed by the spec to decide the validity verdict as well: the REQUESTED ones where the
        # recipe determines them exactly (constants, tables with one entry per layer), else those the gases report
        if r['exact']:
            xs = [np.full(n, g_['p']['s'], dtype=float) if g_['kind'] == 'constant' else np.asarray(g_['p']['arr'], dtype=float)
                  for g_ in r['gases']]
        else:
            xs = [np.asarray(g_.mixProfile, dtype=float) for g_ in chem._gases]
        clampi = lambda v: int(round(min(max(v, -2.0), 2.0) * SMIX)) if np.isfinite(v) else -1
        e['x'] = [[clampi(v) for v in row] for row in xs]
        detail = 'invalid' if invalid else ''
        if not invalid:
            mix = np.asarray(chem.mixProfile, dtype=float)
            e['mix'] = [[clampi(v) for v in row] for row in mix]
            e['badsum'] = int((np.abs(mix.sum(axis=0) - 1.0) > 1e-12).sum())
            e['neg'] = int((~(mix >= 0.0)).sum())
            masses = np.array([float(indep_mass(g)) for g in gases])
            mu = np.asarray(chem.muProfile, dtype=float) / AMU
            mu_rel = (mix * masses[:, None]).sum(axis=0)
            e['badmu'] = int((np.abs(mu - mu_rel) > 1e-12 * np.abs(mu_rel)).sum()) if mu.shape == mu_rel.shape else n
            # scalar routes: the weighted sum of the SURFACE layer (1e-12: a dot product of <= 8 terms of order 1..50)
            sc = scalar_mu_routes(chem)
            e['badmus'] = sum(1 for g_ in sc.values() if isinstance(g_, str) or not abs(g_ - mu_rel[0]) <= 1e-12 * abs(mu_rel[0]))
            detail = 'fill[0]=%r sum dev %r mu[0]=%r' % (mix[0, 0], float(np.abs(mix.sum(axis=0) - 1).max()), float(mu[0]))
            if e['badmus']:
                detail = 'scalar mu routes %r, weighted sum of the surface layer %r; ' % (sc, float(mu_rel[0])) + detail
        return e, detail
    finally:
        clear_available()


def gas_kwargs(g, P):
    k, p = g['kind'], g['p']
    if k == 'constant':
        return dict(molecule_name=g['name'], mix_ratio=p['s'])
    if k == 'array':
        return dict(molecule_name=g['name'], mix_ratio_array=p['arr'])
    if k == 'twopoint':
        return dict(molecule_name=g['name'], mix_ratio_surface=p['s'], mix_ratio_top=p['t'])
    if k == 'twolayer':
        return dict(molecule_name=g['name'], mix_ratio_surface=p['s'], mix_ratio_top=p['t'], mix_ratio_P=float(P[p['pl0']]),
                    mix_ratio_smoothing=p['sw'])
    if k == 'power':
        return dict(molecule_name=g['name'], profile_type=p['ptype'])
    raise Machinery('gas kind ' + k)


def make_event(r):
    if r['ev'] == 'profile':
        return profile_event(r)
    if r['ev'] == 'exact':
        return exact_event(r)
    return mix_event(r)


# ----------------------------------------------------------------------------
# recipe generators
# ----------------------------------------------------------------------------

def rgrid(rng, n):
    return dict(n=n, pa=rng.choice([4, 5, 6, 7]) + rng.choice([0.0, 0.0, 0.3]), pb=rng.choice([-4, -3, -2, -1, 0, 1]),
                ta=float(rng.randint(300, 3000)), tb=float(rng.randint(300, 3000)))


def profile_recipes(rng, n, reps):
    out = []
    for _ in range(reps):
        sw = rng.choice([10, 10, 0, 1, 5, 20, 33, 50, 100, 200, rng.randint(0, 120), rng.random() * 60])
        s, t = 10.0 ** rng.uniform(-12, -1), 10.0 ** rng.uniform(-12, -1)
        tl = dict(s=s, t=t, sw=sw)
        if rng.random() < 0.6:
            tl['pl0'] = rng.randrange(n)
        else:
            tl['P'] = 10.0 ** rng.uniform(-6, 8)
        arr = [10.0 ** rng.uniform(-10, -1) for _ in range(rng.choice([1, 2, 3, 5, n, n + 1, 2 * n]))]
        pw = dict(ptype=rng.choice(POWER_KNOWN)) if rng.random() < 0.7 else \
            dict(ptype='auto', s=10.0 ** rng.uniform(-8, -1), alpha=rng.uniform(0.5, 2.5), beta=10 ** rng.uniform(4, 4.78),
                 gamma=rng.uniform(5, 25))
        for kind, p in (('constant', dict(s=10.0 ** rng.uniform(-12, 0))), ('twopoint', dict(s=s, t=t)), ('twolayer', tl),
                        ('twolayer', dict(s=t, t=s, sw=10, pl0=rng.randrange(n))), ('array', dict(arr=arr)), ('power', pw)):
            out.append(dict(rgrid(rng, n), ev='profile', kind=kind, p=p))
    return out


def exact_recipes(rng, n):
    out = []
    for kind in ('twopoint', 'twolayer', 'twolayer', 'array', 'constant'):
        r = dict(rgrid(rng, n), ev='exact', kind=kind, s=rng.randint(-12, -1), t=rng.randint(-12, -1), pl0=rng.randrange(n),
                 sw=rng.choice([10, 10, 0, 1, 7, 20, 34, 50, 100, 150, rng.randint(0, 60)]), arr=[])
        r['pa'] = float(int(r['pa']))
        if kind == 'array':
            r['arr'] = [rng.randint(0, 16) for _ in range(rng.choice([1, 2, 3, 4, 7]))]
        out.append(r)
    return out


def mix_recipes(rng, count, nmax):
    out = []
    for i in range(count):
        n = rng.randint(2, nmax)
        nf = rng.choice([1, 2, 2, 3])
        fills = rng.sample(FILLS, nf)
        ratios = [[rng.randint(1, 7), 4] for _ in range(nf - 1)]
        exact = rng.random() < 0.5
        names = rng.sample(POOL, rng.randint(0, 4))
        gases = []
        for nm in names:
            if exact:
                if rng.random() < 0.5:
                    gases.append(dict(name=nm, kind='constant', p=dict(s=rng.choice([0, 1, 2, 8, 16, 24, 32, 40, 64]) / 64.0)))
                else:
                    gases.append(dict(name=nm, kind='array', p=dict(arr=[rng.choice([0, 1, 4, 8, 16, 32, 40]) / 64.0 for _ in range(n)])))
            else:
                k = rng.choice(['constant', 'twopoint', 'twolayer', 'power' if nm in POWER_KNOWN else 'twopoint'])
                s, t = 10.0 ** rng.uniform(-8, -1), 10.0 ** rng.uniform(-8, -1)
                p = dict(s=s, t=t, sw=rng.choice([10, 0, 20, 50]), pl0=rng.randrange(n), ptype=nm)
                gases.append(dict(name=nm, kind=k, p=p))
        avail = rng.sample(FILLS + POOL, rng.randint(0, 6))
        out.append(dict(rgrid(rng, n), ev='mix', fills=fills, ratios=ratios, gases=gases, avail=avail, exact=exact))
    return out


def over_mix_recipes(rng, count, nmax):
    """random chemistries in which ONE tabulated gas alone is requested above one: at the top only, in the middle only,
    at the surface only or everywhere (own random stream: the recipes of the other classes stay what they were)"""
    out = []
    for r in mix_recipes(rng, 4 * count, nmax):
        if len(out) == count:
            break
        if not r['exact'] or not r['gases']:
            continue
        n = r['n']
        g = rng.choice(r['gases'])
        arr = list(g['p']['arr']) if g['kind'] == 'array' else [g['p']['s']] * n
        where = rng.choice(['top', 'middle', 'surface', 'everywhere'])
        idx = {'top': [n - 1], 'surface': [0], 'middle': [rng.randrange(n)] if n < 3 else sorted(rng.sample(range(1, n - 1), min(n - 2, rng.choice([1, 2])))),
               'everywhere': list(range(n))}[where]
        val = rng.choice([65, 72, 96, 128]) / 64.0
        for i in idx:
            arr[i] = val
        g['kind'], g['p'] = 'array', dict(arr=arr)
        r['over'] = where
        out.append(r)
    return out


def over_exact_recipes(rng, n):
    """a table whose control values reach above one, on a layer count that differs from the table length or not"""
    r = dict(rgrid(rng, n), ev='exact', kind='array', s=rng.randint(-12, -1), t=rng.randint(-12, -1), pl0=rng.randrange(n), sw=10,
             arr=[rng.randint(0, 24) for _ in range(rng.choice([1, 2, 3, 4, 7, n]))], over=True)
    r['pa'] = float(int(r['pa']))
    r['arr'][rng.randrange(len(r['arr']))] = rng.randint(17, 24)
    return [r]


# ----------------------------------------------------------------------------
# trace validation
# ----------------------------------------------------------------------------

def event_cls(r):
    if r['ev'] == 'profile':
        sw = r['p'].get('sw')
        return 'profile:%s%s' % (r['kind'], '' if sw is None else ':sw%s' % (sw if isinstance(sw, int) else 'float'))
    if r['ev'] == 'exact':
        return 'exact:%s%s%s' % (r['kind'], ':sw%d' % r['sw'] if r['kind'] == 'twolayer' else '', ':table-above-one' if r.get('over') else '')
    return 'mix:nf%d:nt%d:%s%s' % (len(r['fills']), len(r['gases']), 'dyadic' if r['exact'] else 'profiles',
                                   ':single>1@' + r['over'] if r.get('over') else '')


def validate(ctx, recipes, label, canary=True):
    events, details = [], []
    for i, r in enumerate(recipes):
        e, d = make_event(r)
        e['id'] = i
        events.append(e)
        details.append(d)
    accepted, bad, res = validate_trace('Trace_Chemistry', 'Trace_Chemistry.cfg', events, timeout=1500, env=JVM)
    ctx.add_tlc('trace-' + label, res, counts=False)
    if res.postcondition_false and not bad:
        raise Machinery('trace spec did not consume the whole trace:\n' + res.out[-1500:])
    if res.distinct < len(events):
        raise Machinery('trace spec stopped early (%d of %d):\n%s' % (res.distinct, len(events), res.out[-1500:]))
    badids = {b['id'] for b in bad}
    ctx.traces += len(events)
    for i, (r, e) in enumerate(zip(recipes, events)):
        clause = {'profile': 'trace_profile_clauses', 'exact': 'trace_profile_exact', 'mix': 'trace_mixture'}[r['ev']]
        ctx.verdict(clause, i not in badids, cls=event_cls(r), detail='TLC rejected n=%d: %s' % (r['n'], details[i]),
                    vector=dict(kind='recipe', recipe=r))
    if events:
        ctx.add_sample(dict(trace_event={k: (v if not isinstance(v, list) else v[:6]) for k, v in events[0].items()}))
    if canary:
        good = [e for e in events if e['id'] not in badids]
        cands = []
        for e in good:
            c = dict(e)
            if e['ev'] == 'mix' and e['mix']:
                c['mix'] = [list(row) for row in e['mix']]
                c['mix'][0][0] += 40
            elif e['ev'] in ('profile', 'exact') and e['v']:
                c['v'] = list(e['v'])
                c['v'][len(c['v']) // 2] += 3 * e['S'] + 7
                if e['ev'] == 'profile':
                    c['v'][len(c['v']) // 2] = c['hi'] + 50
            else:
                continue
            cands.append(c)
        kinds = {}
        for c in cands:
            kinds.setdefault(c['ev'], c)
        if not kinds:
            if badids:       # every candidate was rejected already: TLC demonstrably rejects, nothing to corrupt
                return len(events)
            raise Machinery('no event available for the canary (%s)' % label)
        cl = list(kinds.values())
        for k, c in enumerate(cl):
            c['id'] = k
        ok2, bad2, _ = validate_trace('Trace_Chemistry', 'Trace_Chemistry.cfg', cl, env=JVM)
        if ok2 or len(bad2) != len(cl):
            raise Machinery('canary accepted: trace validation of %s is vacuous (%r)' % (label, bad2))
    return len(events)


# ----------------------------------------------------------------------------
# entry points
# ----------------------------------------------------------------------------

def layer_counts(ctx):
    if ctx.tier == 'thorough':
        return list(range(2, 121))
    rng = random.Random(ctx.seed * 104729 + 10)
    rest = rng.sample(range(31, 121), 24)
    return list(range(2, 31)) + sorted(rest)


def dedupe(vecs):
    seen, out = set(), []
    for v in vecs:
        k = repr(sorted(v.items()))
        if k not in seen:
            seen.add(k)
            out.append(v)
    return out

JVM = {'JAVA_TOOL_OPTIONS': '-Xss64m'}     # deep (not wide) operator nesting on 100-layer profiles


def quiet():
    import logging
    from taurex.log.logger import root_logger
    root_logger.setLevel(logging.CRITICAL + 1)


def run(ctx):
    q = ctx.tier == 'quick'
    quiet()
    ctx.bounds = dict(tier=ctx.tier,
                      exhaustive_mixture='<=3 fill gases (ratios k/4), <=2-3 trace gases, 1-3 layers, abundances k/8 incl. totals 1 and 9/8, 3 availability sets',
                      exhaustive_profiles='layer counts 2..%d on the decade grid, smoothing windows 0..300%%, constant/two-point/two-layer/array' % (8 if q else 14),
                      layer_counts='binding B: every n in 2..30%s' % (' + 24 seeded counts of 31..120' if q else ' and 31..120'),
                      settings='2..4 fill gases (1..3 ratio parameters), 0..2 trace gases, <=%d writes through the fitting parameters with evaluations in between' % (2 if q else 3),
                      names='processes of <=%d chemistry objects over 27 formulae that coincide pairwise under case folding / anagram / dropped counts / 2-character prefix or name an element more than once' % (2 if q else 3),
                      powerlaw='every subset of the four control values supplied (2 values each, both sides of the table), known / unknown species, <=%d later writes by fitting parameter / item / property, evaluations in between' % (1 if q else 2),
                      edge='trace totals 1 + e*2^-K, e in -2..2 (per-gas parts in -1..1), K in 17..52, on the lattice k/8, in one layer or both, 1-%d fill gases' % (2 if q else 3),
                      histories='Functional.tla walks (depth 9, 3 settings x 3 values) over 17 gas scenarios and 7 chemistry scenarios')
    ctx.assumptions = ['element weight table (taurex.util.util.mass) is input data; parsing, summation and weighting are re-done independently',
                       'float 10**k and log10 are exact to 1e-12 on the integer decade grid',
                       'TLC + CommunityModules Json/IOUtils', 'opacity fixtures subclass InterpolatingOpacity only to announce a molecule',
                       'history walks: the reference of an evaluation of a long-lived gas / chemistry is a freshly constructed object at the same settings']
    # ---- design level
    for cfg in (('MC_Chemistry_quick.cfg', 'MC_Chemistry_quick3.cfg') if q else ('MC_Chemistry_thorough.cfg', 'MC_Chemistry_thorough3.cfg')):
        ctx.check_spec('exhaustive-' + cfg, 'MC_Chemistry', cfg, need_actions=('Eval',))
    ctx.check_spec('exhaustive-profiles', 'MC_GasProfile', 'MC_GasProfile_%s.cfg' % ctx.tier, need_actions=('Eval',))
    ctx.exhaustive = True
    refute = [('no_validity', 'NonNegative'), ('ratio_on_remainder', 'SumsToOne')]
    if not q:
        refute += [('one_over_sum', 'SumsToOne'), ('strict_ge', 'InvalidIffExceedsOne')]
    for variant, inv in refute:
        ctx.expect_refuted('refute-' + variant, 'MC_Chemistry', 'RF_Chemistry_%s.cfg' % variant, inv)
    ctx.expect_refuted('refute-twolayer-asbuilt', 'MC_GasProfile', 'RF_GasProfile_asbuilt.cfg', 'OneValuePerLayer')
    if not q:    # quick: the export run below carries the same invariants over the same behaviours
        ctx.check_spec('exhaustive-settings', 'MC_ChemistrySettings', 'MC_ChemistrySettings_thorough.cfg',
                       need_actions=('WriteRatio', 'WriteTrace', 'Eval'))
    ctx.expect_refuted('refute-late-binding', 'MC_ChemistrySettings', 'RF_ChemistrySettings_late_binding.cfg', 'RequestedRatiosHonoured')
    ctx.expect_refuted('refute-write-ignored', 'MC_ChemistrySettings', 'RF_ChemistrySettings_write_ignored.cfg', 'RequestedTracesHonoured')
    # ---- binding A
    check_mass_table(ctx)
    res = ctx.check_spec('export-mixtures', 'MC_Chemistry', 'EX_Chemistry_quick.cfg', workers=1)
    vecs = res.tagged('VEC')
    if not q:
        res = ctx.check_spec('export-mixtures-2', 'MC_Chemistry', 'EX_Chemistry_thorough.cfg', workers=1)
        vecs += res.tagged('VEC')
    vecs = dedupe(vecs)
    if len(vecs) < 1000:
        raise Machinery('only %d mixture vectors exported' % len(vecs))
    if q:   # all boundary / invalid / three-fill vectors, a seeded third of the rest
        rng = random.Random(ctx.seed * 15485863 + 1)
        def keep(v):
            tot = [sum(frac(row[l]) for row in v['x']) for l in range(v['nl'])]
            return max(tot, default=0) >= 1 or rng.random() < 0.3
        vecs = [v for v in vecs if keep(v)]
    run_mix_vectors(ctx, vecs)
    ctx.note('mixture vectors replayed: %d' % len(vecs))
    # ---- round 4: a SINGLE gas requested above one (in one layer / everywhere / exactly one), handed over through every
    # built-in profile class that can request it; the scalar routes to the mean molecular weight on layers that differ
    if not q:
        ctx.expect_refuted('refute-clip-traces', 'MC_Chemistry', 'RF_Chemistry_clip_traces.cfg', 'InvalidIffExceedsOne')
        ctx.expect_refuted('refute-mu-layer-mean', 'MC_Chemistry', 'RF_Chemistry_mu_layer_mean.cfg', 'ScalarMuAtSurface')
        ctx.expect_refuted('refute-mu-top-layer', 'MC_Chemistry', 'RF_Chemistry_mu_top_layer.cfg', 'ScalarMuAtSurface')
    res = ctx.check_spec('export-mixtures-single-gas-above-one', 'MC_Chemistry', 'EX_Chemistry_over_%s.cfg' % ctx.tier, workers=1)
    wit = {(w['variant'], w['inv']) for w in res.tagged('WITNESS')}
    if wit != {('clip_traces', 'InvalidIffExceedsOne'), ('mu_layer_mean', 'ScalarMuAtSurface')}:
        raise Machinery('InvalidIffExceedsOne / ScalarMuAtSurface are vacuous on the single-gas domain: witnesses %r' % sorted(wit))
    ov = dedupe(res.tagged('VEC'))
    if len(ov) < 500 or not any(v['single'] and not any(sum(frac(r[l]) for r in v['x']) > 1 and all(frac(r[l]) <= 1 for r in v['x'])
                                                        for l in range(v['nl'])) for v in ov) or \
            not any(not v['invalid'] and any(frac(c) == 1 for r in v['x'] for c in r) for v in ov):
        raise Machinery('only %d single-gas vectors exported / no vector in which one gas alone carries the excess / none at exactly one' % len(ov))
    run_mix_vectors(ctx, ov, random.Random(ctx.seed * 32452843 + 4))
    ctx.note('mixture vectors with a single gas requested at or above one (every profile class) replayed: %d' % len(ov))
    run_edge(ctx)
    res = ctx.check_spec('export-settings', 'MC_ChemistrySettings', 'EX_ChemistrySettings_%s.cfg' % ctx.tier, workers=1,
                         need_actions=('WriteRatio', 'WriteTrace', 'Eval'))
    sv = res.tagged('SVEC')
    if len(sv) < 1000 or not any(v['nfill'] >= 4 and any(e['kind'] == 'ratio' and e['i'] == 1 for e in v['log']) for v in sv):
        raise Machinery('only %d settings behaviours exported / no write to the first of three ratios' % len(sv))
    run_settings_vectors(ctx, sv)
    ctx.traces += len(sv)
    ctx.note('settings behaviours (write/eval on one long-lived chemistry) replayed: %d' % len(sv))
    run_dimensions(ctx)
    res = ctx.check_spec('export-profiles', 'MC_GasProfile', 'EX_GasProfile_%s.cfg' % ctx.tier, workers=1)
    pv = dedupe(res.tagged('VEC'))
    if len(pv) < 500:
        raise Machinery('only %d profile vectors exported' % len(pv))
    for v in pv:
        run_profile_vector(ctx, v)
    ctx.note('profile vectors replayed: %d' % len(pv))
    # ---- binding B
    rng = random.Random(ctx.seed * 7919 + 10)
    ns = layer_counts(ctx)
    recipes = []
    for n in ns:
        recipes += profile_recipes(rng, n, 1 if q else 4)
    nprof = validate(ctx, recipes, 'profiles')
    recipes = []
    for n in ns:
        for _ in range(1 if q else 3):
            recipes += exact_recipes(rng, n)
    rng4 = random.Random(ctx.seed * 49979687 + 4)
    for n in ns:
        recipes += over_exact_recipes(rng4, n)
    nex = validate(ctx, recipes, 'exact')
    nmix = validate(ctx, mix_recipes(rng, 80 if q else 500, 40 if q else 120) + over_mix_recipes(rng4, 24 if q else 120, 40 if q else 120), 'mix')
    ctx.note('trace events: %d profile (layer counts %d..%d, %d distinct), %d exact, %d mixtures' %
             (nprof, ns[0], ns[-1], len(ns), nex, nmix))
    # ---- binding C: long-lived objects (Functional.tla walks)
    nh, nsc = run_histories(ctx, 8 if q else 40)
    ctx.note('binding C: %d history walks over %d scenarios (every gas profile type and TaurexChemistry; fitting parameters, '
             'layer count, pressure grid, temperature)' % (nh, nsc))
    # ---- the SOURCE of the opacity data (spec/MC_ChemistrySources.tla): cross-section directory, registered by hand, both at once
    ctx.expect_refuted('refute-hand-loaded-only-as-fallback', 'MC_ChemistrySources', 'RF_ChemistrySources_hand_fallback.cfg',
                       'SplitFollowsAvailability', workers=1)
    src = ctx.check_spec('export-sources', 'MC_ChemistrySources', 'EX_ChemistrySources.cfg', need_actions=('Split',), workers=1).tagged('SRC')
    for need in ('none', 'directory', 'hand', 'both', 'both_overlapping'):
        if not any(v['source'] == need for v in src):
            raise Machinery('vacuous: no opacity-source vector of class %r exported' % need)
    for need in ('add_opacity', 'load_opacity'):
        if not any(v['route'] == need and v['order'] == o for v in src for o in ('hand_first', 'path_first')):
            raise Machinery('vacuous: registration route %r not exported' % need)
    import shutil
    import tempfile
    from .. import fx_chemsources
    tmp = tempfile.mkdtemp(prefix='c10src_')
    try:
        nsrc = fx_chemsources.run_source_vectors(ctx, src, tmp)
    finally:
        shutil.rmtree(tmp, ignore_errors=True)
    ctx.note('opacity-source vectors (directory / by hand via add_opacity, load_opacity, before / after the path / both at once): %d' % nsrc)
    # ---- the composition parameters of a whole model as a registry (spec/ParamFrame.tla, shared with C07): constructor
    # values (explicit, or left at their DEFAULTS) against values written later; fresh objects built at any time
    from .. import fx_paramframe
    clear_available()
    try:
        n = fx_paramframe.run_paramframe(ctx, 2 if q else 8, clause='composition_parameters_as_requested', only='chemistry')
    finally:
        from ..fixtures import reset_caches
        reset_caches()
    ctx.note('registry walks on whole models (composition parameters, defaults omitted in half of them): %d' % n)


def replay(ctx, violations):
    quiet()
    for viol in violations:
        v = viol['vector']
        if 'paramframe' in v:
            from .. import fx_paramframe
            fx_paramframe.replay_vector(ctx, viol)
            continue
        if v.get('history'):
            from .. import fx_chemhistory as fx
            set_available(['H2O', 'CO', 'N2', 'TiO'])
            try:
                fx.replay(ctx, viol, ctx.tier)
            finally:
                clear_available()
        elif v.get('kind') in ('names', 'powerlaw'):
            from .. import fx_chemdims as fxd
            clear_available()
            raw = {k: w for k, w in v.items() if k not in ('kind', 'at', 'mol', 'ptype', 'route', 'host', 'grids')}
            if v['kind'] == 'names':
                fxd.run_names_vectors(ctx, [raw], [indep_mass('H2'), indep_mass('He')])
            else:
                fxd.run_power_vectors(ctx, [raw])
        elif v.get('kind') == 'settings':
            class _Fixed:
                def __init__(self, kinds, route):
                    self.k, self.route = list(kinds), route
                def choice(self, seq):
                    return self.route if 'fit' in seq else self.k.pop(0)
                def random(self):
                    return 1.0
            clear_available()
            run_settings_vector(ctx, {k: w for k, w in v.items() if k not in ('kind', 'kinds', 'route')}, _Fixed(v['kinds'], v['route']))
        elif v.get('kind') == 'sources':
            import shutil
            import tempfile
            from .. import fx_chemsources
            tmp = tempfile.mkdtemp(prefix='c10src_')
            try:
                fx_chemsources.run_source_vectors(ctx, [{k: w for k, w in v.items() if k != 'kind'}], tmp)
            finally:
                shutil.rmtree(tmp, ignore_errors=True)
        elif v.get('kind') == 'recipe':
            validate(ctx, [v['recipe']], 'replay', canary=False)
        elif v.get('kind') == 'mix':
            run_mix_vectors(ctx, [v])
        elif v.get('kind_') == 'profile':
            run_profile_vector(ctx, {k: w for k, w in v.items() if k != 'kind_'})
        elif v.get('kind') in ('element', 'molmass'):
            check_mass_table(ctx)
