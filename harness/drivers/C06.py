"""C06 -- every sampler is handed the Gaussian log-likelihood of the binned model.

Spec: spec/LikeRules.tla (shared rules), spec/Likelihood.tla (mechanism + clauses),
      spec/MC_Likelihood.tla (toy worlds, exhaustive + simulated behaviours), spec/Trace_Likelihood.tla.
Design level : exhaustive TLC on the toy worlds ("two": default priors; "mixed": set_prior priors living in the
               other space than the parameter's mode, both directions); fault classes: the three exception
               classes, "NaNAll" (NaN in every bin, no exception), "NaNSome"; four expected counterexamples
               (chi2 == 0 reported as NaN -- the as-built behaviour, ledger L-C06 --, a narrowed except clause,
               update_model exponentiating by the parameter's mode, an all-NaN model scored as chi2 = 0).
               World "obs": two fitted parameters live on the OBSERVATION (offset, scale; compile_params appends them after
               the model's) -- the data side of chi2 follows the vector of THIS call; expected counterexamples: a copy of
               the observed spectrum captured when compute_fit starts, a copy read before update_model (one call late).
               spec/LikeGrid.tla + MC_LikeGrid.tla (on top of Grid.tla of C13): native grid much wider than the
               observation, layout families (constant resolving power with widths growing / shrinking up to 9x, gaps,
               broad photometric bins next to narrow ones, two instruments), the clipping contract (the native points
               handed to the binner cover every observation bin) and the margin rule of the code; expected
               counterexamples: margin of the first / last / narrowest bin, half the widest; overlapping broad bins
               reaching beyond the window (design-level finding).
Binding A    : every layout TLC generates is realised (real SimpleForwardModel.model incl. its clip, real BaseSpectrum ->
               real FluxBinner, the three wrappers) and compared with the chi2 terms TLC computed on the FULL native grid.
Binding C    : TLC-simulated behaviours (sequences of prior / loglike calls with natural and injected
               invalid models) replayed on the callbacks the real NestleOptimizer, MultiNestOptimizer and
               PolyChordOptimizer hand to recording doubles of nestle.sample, pymultinest.run and
               pypolychord.run_polychord; exact expected chi2/2 and written values from the spec.
Binding B    : random call sequences on real TransmissionModels (isothermal / N-point, H2O+CH4) with real
               ArraySpectrum observations (random bin layouts and error bars), all four prior classes;
               every call validated by TLC (Trace_Likelihood) + sharp 1e-9 comparison against a second,
               independently driven model instance; canaries.  A third of the traces live in a WIDE world (800-point
               constant-R native grid, observations: constant R over 0.4-12 micron, gaps, photometric bands, two
               instruments; oracle = FULL native grid + independent overlap-weighted mean); 40% of the traces fit
               parameters of the observation (offset [ppm], scale): the trace specification fixes the data side of every
               call from the vector of that call (DataOk).
Round 4      : bins that OVERLAP each other inside the clip window (LikeGrid: family "ovl", bin-search rule each / resume;
               wide traces: observation formats 4 columns / 3 columns / second instrument / constant-width wavelength bins);
               atmospheres above unity in SOME layers only (Likelihood: ChemLayers / ChemRule, Trace_Likelihood: LayerOk on
               per-layer totals from separate gas-profile objects; a third of the narrow traces fit the surface / top value of
               a TwoLayerGas / TwoPointGas); prior boundaries at the far ends of the domain (1e-30 .. 1e+20) through every
               public route that builds a prior (set_boundary, set_mode, Uniform / LogUniform(bounds | lin_bounds),
               LogGaussian(lin_mean, lin_std)), prior callback at the corners of the cube, trace gases down to 1e-30.
"""
import math
import random
import shutil
import statistics
import tempfile
from fractions import Fraction

import numpy as np

from ..core import Machinery, frac, close, run_tlc, validate_trace
from .. import fx_retrieval as fx
from .. import fx_like as fl
from .. import fx_likeobs as fo
from .. import fx_likegrid as fg
from .. import fx_likehist as fh
from .. import fx_likenorm as fn
from .. import fx_likelayers as fy
from .. import history

SAMPLERS = ('nestle', 'multinest', 'polychord')
WIDE_CLASSES = fg.LAYOUT_CLASSES + ('survey',)       # layout classes of the wide real world
REL = 1e-9
S = 1000


# ----------------------------------------------------------------------------------------------
# capturing the callbacks of one optimizer
# ----------------------------------------------------------------------------------------------

class Bound(object):
    """The two callbacks a wrapper handed to its sampler, with the sampler's calling convention."""

    def __init__(self, sampler, opt, tmpdir):
        import pymultinest
        import pypolychord
        self.sampler = sampler
        self.opt = opt
        cap = {}
        if sampler == 'nestle':
            def hook(loglike, prior, ndim, **kw):
                cap.update(ll=loglike, pr=prior, ndim=ndim)
                raise fx.Captured()
            with fx.NestlePatch(hook):
                try:
                    opt.compute_fit()
                except fx.Captured:
                    pass
            if not cap:
                raise Machinery('nestle.sample double was not called by compute_fit')
            self.prior = lambda u: [float(v) for v in cap['pr'](np.array(u, dtype=float))]
            self.loglike = lambda x: cap['ll'](np.array(x, dtype=float))
            self.ndim = cap['ndim']
        elif sampler == 'multinest':
            def hook(call):
                cap['call'] = call
                raise fx.Captured()
            pymultinest.HOOK = hook
            try:
                opt.compute_fit()
            except fx.Captured:
                pass
            finally:
                pymultinest.HOOK = None
            if not cap:
                raise Machinery('pymultinest.run double was not called by compute_fit')
            self.prior = lambda u: pymultinest.call_prior(cap['call'], u)
            self.loglike = lambda x: pymultinest.call_loglike(cap['call'], x)
            self.ndim = cap['call']['n_dims']
        else:
            def hook(call):
                cap['call'] = call
                raise fx.Captured()
            pypolychord.HOOK = hook
            try:
                opt.compute_fit()
            except fx.Captured:
                pass
            finally:
                pypolychord.HOOK = None
            if not cap:
                raise Machinery('pypolychord.run_polychord double was not called by compute_fit')
            self.prior = lambda u: pypolychord.call_prior(cap['call'], u)
            self.loglike = lambda x: pypolychord.call_loglike(cap['call'], x)
            self.ndim = cap['call']['nDims']


def make_optimizer(sampler, obs, model, tmpdir):
    N, M, P = fx.load_optimizers()
    if sampler == 'nestle':
        return N(observed=obs, model=model, num_live_points=5)
    if sampler == 'multinest':
        return M(multi_nest_path=tmpdir, observed=obs, model=model, num_live_points=5)
    return P(polychord_path=tmpdir, observed=obs, model=model, num_live_points=5)


# ----------------------------------------------------------------------------------------------
# binding C: simulated behaviours on the toy world
# ----------------------------------------------------------------------------------------------

def toy_bound(sampler, layout, tmpdir, obs=None):
    model = fl.make_toy(layout)
    if obs is None:
        obs = fo.make_toy_obs(layout)            # "obs": the observation carries fitted parameters (offset, scale)
    opt = make_optimizer(sampler, obs, model, tmpdir)
    w = fx.TOY[layout]
    for n, f in zip(w['names'], w['fit']):
        if f:
            opt.enable_fit(n)
    for par in fo.obs_params(layout):
        if par[6]:
            opt.enable_fit(par[0])
    fl.install_user_priors(opt, layout)          # "mixed": priors in the other space than the parameter's mode
    opt.compile_params()
    return Bound(sampler, opt, tmpdir), model, obs


def toy_values(layout, model, obs):
    """Values held by the model's parameters, then by the observation's (the specification's `val`)."""
    return [float(v) for v in model.values] + [float(obs[par[0]]) for par in fo.obs_params(layout)]


def obs_moved(layout, step):
    """A loglike step of a behaviour whose observation parameters differ from their initial values."""
    pars = fo.obs_params(layout)
    return bool(pars) and step['op'] == 'loglike' and \
        [float(v) for v in step['vals'][-len(pars):]] != [float(p[5]) for p in pars]


def call_class(step):
    if step['op'] == 'prior':
        return 'prior'
    if step['op'] == 'setobs':
        return 'setobs'
    if step['inj'] != 'none':
        return 'inject:' + step['inj']
    if step['k'] == 'num':
        return 'chi2zero' if frac(step['h']) == 0 else 'valid'
    return 'natural-invalid'


def reuse_class(beh, i):
    """How the optimizer of a behaviour was used before step i: '' (first observation), or the observation it was
    pointed at with set_observed (same / other number of bins than the observation before)."""
    cur, suffix = 1, ''
    for st in beh['hist'][:i + 1]:
        if st['op'] == 'setobs':
            same = len(beh['obs'][st['ob'] - 1]['data']) == len(beh['obs'][cur - 1]['data'])
            cur, suffix = st['ob'], ':reused:%s-nbins' % ('same' if same else 'other')
    return suffix


def replay_behaviour(ctx, sampler, beh, tmpdir):
    layout = {'histsim': 'hist'}.get(beh['layout'], beh['layout'])
    # the observations the ONE optimizer of this behaviour is pointed at (printed by TLC with the behaviour)
    observations = fh.toy_observations(beh['obs']) if len(beh.get('obs') or ()) > 1 else None
    b, model, obs = toy_bound(sampler, layout, tmpdir, obs=observations[0] if observations else None)
    sigs = [r['sig'] for r in beh['obs']] if observations else [fx.TOY[layout]['sig']]
    C = fx.gauss_const(sigs[0])
    nfit = sum(fx.TOY[layout]['fit']) + sum(1 for par in fo.obs_params(layout) if par[6])
    if b.ndim != nfit:
        ctx.verdict('ndim', False, cls='%s:%s' % (sampler, layout), detail='ndim %r' % b.ndim, vector=None)
    for i, step in enumerate(beh['hist']):
        cls = '%s:%s:%s%s%s' % (sampler, layout, call_class(step), ':obs-moved' if obs_moved(layout, step) else '',
                                reuse_class(beh, i) if observations else '')
        vec = dict(kind='behaviour', sampler=sampler, layout=layout, hist=beh['hist'][:i + 1], obs=beh.get('obs'))
        if step['op'] == 'setobs':
            # the long-lived optimizer is pointed at another observation; a new fit hands new callbacks to the sampler
            try:
                b.opt.set_observed(observations[step['ob'] - 1])
                b.opt.compile_params()
                b = Bound(sampler, b.opt, tmpdir)
            except Machinery:
                raise
            except Exception as e:   # noqa
                ctx.verdict('never_raises', False, cls=cls, detail='set_observed / compile_params / compute_fit raised %r'
                            % (e,), vector=vec)
                return
            obs = observations[step['ob'] - 1]
            C = fx.gauss_const(sigs[step['ob'] - 1])
            continue
        if step['op'] == 'prior':
            u = [float(frac(v)) for v in step['u']]
            try:
                out = b.prior(u)
            except Exception as e:   # noqa
                ctx.verdict('never_raises', False, cls=cls, detail='prior raised %r' % e, vector=vec)
                return
            exp = [float(frac(v)) for v in step['out']]
            ok = len(out) == len(exp) and all(close(a, c, rel=1e-12, abs_=1e-12) for a, c in zip(out, exp))
            ctx.verdict('prior_in_fit_order', ok, cls=cls, detail='got %r expected %r' % (out, exp), vector=vec)
            if not ok:
                return
            continue
        if step['inj'] != 'none':
            model.inject = step['inj']
        try:
            ret = float(b.loglike([float(v) for v in step['x']]))
            raised = None
        except Exception as e:   # noqa
            ret, raised = None, e
        ctx.verdict('never_raises', raised is None, cls=cls, detail='loglike raised %r' % (raised,), vector=vec)
        if raised is not None:
            return
        vals = toy_values(layout, model, obs)
        okw = all(a == float(c) for a, c in zip(vals, step['vals']))
        ctx.verdict('written_is_prior_of_x', okw, cls=cls, detail='model holds %r expected %r' % (vals, step['vals']),
                    vector=vec)
        if step['k'] == 'num':
            exp = C - float(frac(step['h']))
            ok = math.isfinite(ret) and close(ret, exp, rel=REL, abs_=1e-12)
            ctx.verdict('valid_equals_gaussian', ok, cls=cls, detail='got %r expected %r (chi2/2 = %s%s)' %
                        (ret, exp, frac(step['h']), ', observation %d of this optimizer' % step['ob'] if observations else ''),
                        vector=vec)
        elif step['k'] == 'part':
            # NaN in some bins: the statement is silent; non-finite, or the Gaussian over the comparable bins
            exp = C - float(frac(step['h']))
            ok = (not math.isfinite(ret)) or close(ret, exp, rel=REL, abs_=1e-12)
            ctx.verdict('partial_nan_skips_or_nan', ok, cls=cls, detail='got %r; accepted: non-finite or %r' %
                        (ret, exp), vector=vec)
        else:
            ok = not math.isfinite(ret)
            ctx.verdict('invalid_never_finite', ok, cls=cls, detail='got %r for an invalid model' % ret, vector=vec)
        if not (ok and okw):
            return


FAULT_RUNS = (('InvalidModel', 'NaNAll'), ('InvalidChemistry', 'NaNSome'), ('InvalidTemperature', 'NaNAll'))
FAULT_RUNS_OBS = (('InvalidModel', 'NaNAll'), ('InvalidTemperature', 'NaNSome'))     # quick tier, layout "obs"
FAULT_RUNS_HIST = (('InvalidModel', None),)        # layout "hist": few successors besides SetObserved, longer walks


def run_behaviours(ctx, nbeh, depth, layouts):
    tmpdir = tempfile.mkdtemp(prefix='c06_')
    depth0 = depth
    try:
        total = 0
        seen = set()
        for li, layout in enumerate(layouts):
            runs = FAULT_RUNS_HIST if layout == 'hist' else \
                FAULT_RUNS_OBS if (layout == 'obs' and ctx.tier == 'quick') else FAULT_RUNS
            for fi, (fault, nanfault) in enumerate(runs):
                depth = depth0 + 3 if layout == 'hist' else depth0
                cfg = make_sim_cfg(layout, fault, nanfault, depth)
                try:
                    res = run_tlc('MC_Likelihood', cfg, workers=1, simulate='num=%d' % nbeh, depth=depth,
                                  seed=ctx.seed * 101 + li * 7 + fi + 1)
                finally:
                    import os
                    os.unlink(cfg)
                ctx.add_tlc('simulate-%s-%s' % (layout, fault), res, counts=False)
                behs = res.tagged('BEH')
                if len(behs) < nbeh // 2:
                    raise Machinery('TLC simulation printed %d behaviours, wanted %d' % (len(behs), nbeh))
                for bi, beh in enumerate(behs):
                    sampler = SAMPLERS[(bi + fi) % 3]
                    replay_behaviour(ctx, sampler, beh, tmpdir)
                    seen |= {(layout, call_class(st)) for st in beh['hist']}
                    seen |= {(layout, call_class(st) + ':obs-moved') for st in beh['hist'] if obs_moved(layout, st)}
                    if layout == 'hist':
                        seen |= {(layout, call_class(st) + reuse_class(beh, i)) for i, st in enumerate(beh['hist'])}
                    total += 1
                    ctx.traces += 1
                if li == 0 and fi == 0:
                    ctx.add_sample(dict(behaviour=behs[0]))
        # vacuity: every layout must have met a valid call, a natural invalid one and each injected fault class
        for layout in layouts:
            for c in ('prior', 'valid', 'natural-invalid', 'inject:NaNAll', 'inject:NaNSome', 'inject:InvalidModel'):
                if (layout, c) not in seen and not (layout == 'hist' and c.startswith('inject:NaN')):
                    raise Machinery('simulated behaviours of layout %s never contain a %s call' % (layout, c))
            # an observation with parameters: valid and invalid calls with the observation moved off its initial state
            if fo.obs_params(layout):
                for c in ('valid:obs-moved', 'natural-invalid:obs-moved'):
                    if (layout, c) not in seen:
                        raise Machinery('simulated behaviours of layout %s never contain a %s call' % (layout, c))
            # one long-lived optimizer pointed at several observations: evaluations after set_observed, to an
            # observation with the same and with another number of bins
            if layout == 'hist':
                for c in ('valid:reused:same-nbins', 'valid:reused:other-nbins', 'chi2zero:reused:other-nbins',
                          'natural-invalid:reused:same-nbins', 'natural-invalid:reused:other-nbins',
                          'inject:InvalidModel:reused:other-nbins', 'prior:reused:other-nbins'):
                    if (layout, c) not in seen:
                        raise Machinery('simulated behaviours of layout %s never contain a %s call' % (layout, c))
        return total
    finally:
        shutil.rmtree(tmpdir, ignore_errors=True)


def make_sim_cfg(layout, fault, nanfault, depth):
    import os
    from ..core import SPEC, write_cfg
    with open(os.path.join(SPEC, 'SIM_Likelihood.cfg')) as f:
        text = f.read()
    text = text.replace('Layout = "two"', 'Layout = "%s"' % ('histsim' if layout == 'hist' else layout))
    text = text.replace('Depth = 9', 'Depth = %d' % depth)
    text = text.replace('  Faults = {"InvalidModel"}', '  Faults = {"%s"}' % fault)
    text = text.replace('NaNFaults = {"NaNAll"}', 'NaNFaults = {"%s"}' % nanfault if nanfault else 'NaNFaults = {}')
    if layout == 'obs':
        text = text.replace('UDen = 4', 'UDen = 2')      # four fitted parameters: fewer prior successors per state
    if layout == 'hist':
        text = text.replace('UDen = 4', 'UDen = 1')      # few successors besides SetObserved: walks that switch often
    return write_cfg(text)


# ----------------------------------------------------------------------------------------------
# binding A: observation layouts on a native grid much wider than the observation (spec/MC_LikeGrid.tla)
# ----------------------------------------------------------------------------------------------

def grid_class(v):
    return 'grid:%s%s%s%s' % (v['fam'], ':widths>2x' if v['growth2'] else '', ':gaps' if v['gap'] else '',
                              ':overlapping' if v.get('overlapping') else '')


def run_grid_vectors(ctx, cfg, res=None):
    """Design check of the clipping contract + exported vectors: every layout TLC generates is realised as a real
    BaseSpectrum (-> real FluxBinner) over a real SimpleForwardModel whose native grid is the specification's
    (wider than every observation), and the callback of each wrapper is compared with the chi2 terms TLC computed
    from the FULL native grid by the overlap-weighted mean."""
    if res is None:            # (run() starts this TLC run in the background and hands its result over)
        res = ctx.check_spec('exhaustive-likegrid', 'MC_LikeGrid', cfg)
    vecs = res.tagged('VEC')
    if len(vecs) < 60:
        raise Machinery('MC_LikeGrid exported %d vectors only' % len(vecs))
    ctx.add_sample(dict(grid_vector={k: vecs[0][k] for k in ('fam', 'oc', 'ow2', 'a', 'data', 'sig', 'z2', 'lo', 'hi')}))
    tmpdir = tempfile.mkdtemp(prefix='c06_')
    model = fg.make_grid_toy(vecs[0]['nat'], vecs[0]['c0'], vecs[0]['c1'])
    nnat = len(vecs[0]['nat'])
    fams, clipped, unjudged = {}, 0, 0
    try:
        for i, v in enumerate(vecs):
            fams.setdefault(v['fam'], [0, 0])[0 if v['inside'] else 1] += 1
            if not v['inside']:
                unjudged += 1            # the specification's window does not meet the contract there (L-C13b of C13)
                continue
            clipped += (v['lo'] > 1 or v['hi'] < nnat)
            sampler = SAMPLERS[i % 3]
            # bins in ascending wavenumber, as every stock observation class reports them (FluxBinner returns its
            # bins sorted; ArraySpectrum / ObservedSpectrum sort their rows accordingly)
            wn = fg.lattice_wn(v['oc'])
            width = fg.WNSTEP * np.array(v['ow2'], dtype=float) / 2.0
            obs = fx.make_wn_obs(wn, width, np.array(v['data'], dtype=float), np.array(v['sig'], dtype=float))
            opt = make_optimizer(sampler, obs, model, tmpdir)
            for name, par in list(model.fittingParameters.items()):
                if par[5]:
                    opt.disable_fit(name)
            opt.enable_fit('a')
            opt.compile_params()
            b = Bound(sampler, opt, tmpdir)
            cls = '%s:%s' % (sampler, grid_class(v))
            vec = dict(kind='grid', sampler=sampler, cfg=cfg)
            h = sum((frac(t) for t in v['z2']), Fraction(0)) / 2
            exp = fx.gauss_const(v['sig']) - float(h)
            try:
                ret = float(b.loglike([float(v['a'])]))
            except Exception as e:   # noqa
                ctx.verdict('never_raises', False, cls=cls, detail='loglike raised %r' % (e,), vector=vec)
                continue
            ok = math.isfinite(ret) and close(ret, exp, rel=REL, abs_=1e-12)
            ctx.verdict('binned_on_full_grid', ok, cls=cls, detail='layout %s centres %r 2*widths %r a=%s: got %r, '
                        'expected %r (chi2/2 = %s from the full native grid)' % (v['fam'], v['oc'], v['ow2'], v['a'],
                                                                               ret, exp, h), vector=vec)
            ctx.traces += 1
    finally:
        shutil.rmtree(tmpdir, ignore_errors=True)
    novl = sum(1 for v in vecs if v['inside'] and v.get('overlapq', 0) > 0)
    if 'ovl' in fams and novl < 6:
        raise Machinery('vacuous: only %d judged layouts with bins that overlap each other' % novl)
    ctx.note('grid layouts: %d vectors, %d judged (%d of them with a clip that removes native points), %d outside the '
             'contract of the specified window; per family (inside, outside): %r' %
             (len(vecs), len(vecs) - unjudged, clipped, unjudged, fams))
    for fam, (nin, nout) in fams.items():
        if nin < 2 * nout or nin < 4:
            raise Machinery('layout family %s: only %d of %d layouts are judged' % (fam, nin, nin + nout))
    if clipped < (len(vecs) - unjudged) // 2:
        raise Machinery('vacuous: the clip removes native points in %d of %d judged layouts only' %
                        (clipped, len(vecs) - unjudged))


# ----------------------------------------------------------------------------------------------
# history: one long-lived optimizer, settings changed between fits (spec/Functional.tla, harness/history.py)
# ----------------------------------------------------------------------------------------------

def run_optimizer_history(ctx, nwalks):
    """TLC-generated walks over the settings a user changes between two fits on the SAME optimizer object (the
    observation: real ArraySpectrum files with 2, 2 and 3 bins; the fitted subset; the boundaries of a fitted
    parameter); after every change compile_params() + compute_fit() hand new callbacks to the sampler double, and
    what they return must equal what a freshly constructed optimizer with the same settings returns."""
    tmpdir = tempfile.mkdtemp(prefix='c06_')
    try:
        scs = [fh.OptimizerHistory(sampler, make_optimizer, Bound, tmpdir) for sampler in SAMPLERS]
        return history.run_history(ctx, scs, nwalks, clause='reused_optimizer_equals_fresh')
    finally:
        shutil.rmtree(tmpdir, ignore_errors=True)


# ----------------------------------------------------------------------------------------------
# binding A: observations of any size and magnitude (spec/LikeNorm.tla, MC_LikeNorm.tla)
# ----------------------------------------------------------------------------------------------

PRODUCT_CLASS = {'num': 'product-of-sigmas-representable', 'posinf': 'product-of-sigmas-underflows',
                 'neginf': 'product-of-sigmas-overflows', 'gray': 'product-of-sigmas-near-the-limits'}


def run_norm_vectors(ctx, cfg):
    """Every observation class TLC generates (n bins, unit 2^u, error bars 2^(u - s_b): 3 - 400 (1000) bins, transit
    depths with ppm-level error bars, fluxes in physical units ~1e-26, large numbers) is realised as a real
    BaseSpectrum (-> real FluxBinner) over the exact toy, and the callback of EVERY wrapper is compared with
    -(ln 2 * SUM (u - s_b) + n ln sqrt(2 pi)) - SUM k_b^2 / 2, both sums exact integers from TLC."""
    res = ctx.check_spec('exhaustive-likenorm', 'MC_LikeNorm', cfg, workers=1)
    vecs = res.tagged('VEC')
    if len(vecs) < 12:
        raise Machinery('MC_LikeNorm exported %d vectors only' % len(vecs))
    ctx.add_sample(dict(norm_vector={k: (v if not isinstance(v, list) else v[:8]) for k, v in vecs[1].items()}))
    seen = {}
    tmpdir = tempfile.mkdtemp(prefix='c06_')
    try:
        for v in vecs:
            seen[v['prod']] = seen.get(v['prod'], 0) + 1
            obs = fn.norm_observation(v)
            C = fn.norm_constant(v)
            if not close(C, fx.gauss_const(obs.errorBar), rel=1e-12, abs_=1e-12):
                raise Machinery('fixture: the error bars of the observation do not have the exponents of the vector')
            exp = C - v['chi2'] / 2.0
            for sampler in SAMPLERS:
                cls = '%s:norm:%s:%s' % (sampler, v['unit'], PRODUCT_CLASS[v['prod']])
                vec = dict(kind='norm', cfg=cfg)
                try:
                    model = fn.norm_toy(v)
                    opt = make_optimizer(sampler, obs, model, tmpdir)
                    opt.compile_params()
                    b = Bound(sampler, opt, tmpdir)
                    ret = float(b.loglike([float(v['a'])]))
                except Machinery:
                    raise
                except Exception as e:   # noqa
                    ctx.verdict('never_raises', False, cls=cls, detail='%d bins, unit 2^%d: raised %r' % (v['n'], v['u'], e),
                                vector=vec)
                    continue
                ok = math.isfinite(ret) and close(ret, exp, rel=REL, abs_=1e-12)
                ctx.verdict('gaussian_any_size_and_magnitude', ok, cls=cls, detail='%d bins, spectrum in units of 2^%d, error '
                            'bars 2^%d .. 2^%d: got %r, expected %r = -(ln2 * %d + %d ln sqrt(2 pi)) - %d / 2' %
                            (v['n'], v['u'], v['u'] - max(v['s']), v['u'] - min(v['s']), ret, exp, v['sumexp'], v['n'],
                             v['chi2']), vector=vec)
                ctx.traces += 1
    finally:
        shutil.rmtree(tmpdir, ignore_errors=True)
    ctx.note('size / magnitude vectors: %d observations x 3 samplers; product of the error bars: %r' % (len(vecs), seen))
    for k in ('num', 'posinf', 'neginf'):
        if seen.get(k, 0) < 2:
            raise Machinery('vacuous: fewer than two generated observations whose product of error bars is %s' % k)


# ----------------------------------------------------------------------------------------------
# binding B: real models
# ----------------------------------------------------------------------------------------------

EXC_NAMES = {'InvalidChemistryException': 'InvalidChemistry', 'InvalidTemperatureException': 'InvalidTemperature'}


class RealWorld(object):
    """One optimizer over a real TransmissionModel + an oracle twin.

    kind "isothermal" / "npoint": H2O + CH4 on a 41-point native grid that barely exceeds the observation;
    kind "wide": CO2 + CO on an 800-point constant-R native grid (0.3 - 25 micron) MUCH wider than the observation,
    observation layouts of the classes of fx_likegrid (constant resolving power over 0.4 - 10 micron, gaps, broad
    photometric bins next to narrow ones, two instruments); oracle = the twin evaluated on its FULL native grid and
    binned by the independent overlap-weighted mean.
    obspar: the observation is an OffsetScaleSpectrum and one or both of its parameters are fitted, so that the
    data side of chi2 changes with the parameter vector."""

    CANDS = {
        'isothermal': [('planet_radius', 'lin', (0.75, 1.25)), ('T', 'lin', (500.0, 2000.0)),
                       ('H2O', 'log', (-8.0, 1.0)), ('CH4', 'log', (-8.0, 0.0))],
        'npoint': [('planet_radius', 'lin', (0.75, 1.25)), ('T_surface', 'lin', (1000.0, 2000.0)),
                   ('T_point1', 'lin', (500.0, 2500.0)), ('T_top', 'lin', (500.0, 1500.0)),
                   ('P_point1', 'log', (0.0, 7.0)), ('H2O', 'log', (-8.0, 1.0))],
        'wide': [('planet_radius', 'lin', (0.75, 1.25)), ('T', 'lin', (500.0, 2000.0)),
                 ('CO2', 'log', (-8.0, 1.0)), ('CO', 'log', (-8.0, 0.0))],
    }
    # parameters of the observation (OffsetScaleSpectrum): offset in ppm, scale; always given linear-space priors
    OBS_CANDS = [('obs_offset', 'lin', (-200.0, 200.0)), ('obs_scale', 'lin', (0.75, 1.25))]
    OBS_INIT = {'obs_offset': 0.0, 'obs_scale': 1.0}
    OBS_ROLE = {'obs_offset': 'offset', 'obs_scale': 'scale'}
    DUNIT = 1e-7                     # unit of the base data of an observation with parameters (integers d0)
    GASES = ('H2O', 'CH4', 'CO2', 'CO')
    # prior-space ranges for a prior given through set_prior in the OTHER space than the parameter's mode
    # (log10 ranges for linear-mode parameters, linear ranges for the log-mode mixing ratios)
    CROSS = {'planet_radius': (-0.125, 0.125), 'T': (2.75, 3.25), 'T_surface': (3.0, 3.25), 'T_point1': (2.75, 3.375),
             'T_top': (2.75, 3.125), 'H2O': (0.125, 1.125), 'CH4': (0.125, 0.875), 'CO2': (0.125, 1.125),
             'CO': (0.125, 0.875), 'H2O_surface': (0.125, 1.125), 'H2O_top': (0.125, 1.125)}
    TRACKED = {'isothermal': ['planet_radius', 'T', 'H2O', 'CH4', 'planet_mass'],
               'npoint': ['planet_radius', 'T_surface', 'T_point1', 'T_top', 'P_point1', 'H2O', 'CH4', 'planet_mass'],
               'wide': ['planet_radius', 'T', 'CO2', 'CO', 'planet_mass']}

    # round 4: layer-dependent gas profiles (surface and top values fitted), prior boundaries at the far ends of the
    # documented domain through every public route that builds a log-space prior
    LAYER_CANDS = [('H2O_surface', 'log', (-8.0, 1.0)), ('H2O_top', 'log', (-8.0, 1.0))]
    EXTREME_ROUTES = ('default-log-bounds', 'loguniform-lin_bounds', 'loguniform-bounds', 'set_mode-log',
                      'loggauss-lin_mean', 'set_mode-linear', 'uniform-bounds')
    EXTREME_LOW = (-30.0, -20.5, -15.0, -13.0, -12.125)         # exponents of the lower / upper boundary
    EXTREME_HIGH = (-3.0, 0.0, 5.0, 12.5, 20.0)
    EXTREME_LIN = ((-20000.0, 20000.0), (0.0, 16384.0), (-4096.0, 0.0))

    def __init__(self, rng, sampler, tmpdir, wide=None, fmt='4col', layered=None, extreme=None):
        from taurex.core.priors import Uniform, LogUniform, Gaussian, LogGaussian
        from taurex.data.spectrum.array import ArraySpectrum
        self.rng = rng
        self.sampler = sampler
        self.kind = 'wide' if wide else rng.choice(['isothermal', 'isothermal', 'npoint'])
        self.layout = wide or 'narrow'
        self.wide = wide
        self.fmt, self.fmt_used, self.overlap_cells = fmt, '4col', 0.0
        self.layered = layered if self.kind != 'wide' else None
        self.extreme = extreme
        if self.kind == 'wide':
            self.model = fg.make_wide_transmission()
            self.twin = fg.make_wide_transmission()
            gases = {'CO2': 'constant', 'CO': 'constant'}
        elif self.layered:
            # H2O is a layer-dependent profile: a vector can push only PART of the atmosphere above unity
            self.model = fy.make_layered_transmission(self.kind, self.layered)
            self.twin = fy.make_layered_transmission(self.kind, self.layered)
            gases = {'H2O': self.layered, 'CH4': 'constant'}
        else:
            self.model = fx.make_transmission(self.kind)
            self.twin = fx.make_transmission(self.kind)
            gases = {'H2O': 'constant', 'CH4': 'constant'}
        if self.kind == 'npoint':
            for m in (self.model, self.twin):
                m._temperature_profile._limit_slope = 450.0
        self.fault = fl.nan_contribution_class()()
        self.model.add_contribution(self.fault)
        self.model.build()
        cands = list(self.CANDS[self.kind])
        tracked = list(self.TRACKED[self.kind])
        if self.layered:
            cands = [c for c in cands if c[0] != 'H2O'] + self.LAYER_CANDS
            tracked = [n for n in tracked if n != 'H2O'] + [c[0] for c in self.LAYER_CANDS]
        self.tracked = tracked
        # the reference point the data of every observation of this world are generated at: the initial values
        self.ref_values = {n: float(self.twin[n]) for n in tracked}
        self.obspar = rng.random() < 0.4
        self.tmpdir = tmpdir
        self.nobs = 0
        self.obs_setup = []               # what the user did to the OBSERVATION's parameters through the optimizer
        self.build_observation()
        # per-layer totals of the non-fill gases a vector describes: separate gas-profile objects on the model's pressure grid
        self.layers = fy.LayerOracle(gases, {n: float(self.twin[n]) for n in self.twin.fittingParameters
                                             if self.is_gas(n)}, self.twin.pressureProfile)
        self.tot, self.layer_cls = self.layers.scaled_totals(), ''
        # fitted subset (declaration order is the model's then the observation's, not ours) and priors
        k = rng.randint(1, min(4, len(cands)))
        chosen = rng.sample(cands, k)
        if self.layered and not any(c in chosen for c in self.LAYER_CANDS):
            chosen[0] = rng.choice(self.LAYER_CANDS)            # a layered world always fits the surface or the top value
        self.mode = {n: sp for n, sp, _ in cands + self.OBS_CANDS}    # the parameter's mode
        ext_name = None
        if extreme:
            # the parameter that gets boundaries at the far ends of the domain, through the route of this trace
            want = 'lin' if extreme == 'set_mode-log' else 'log' if extreme in ('default-log-bounds', 'set_mode-linear') \
                else None
            pspace = 'lin' if extreme in ('set_mode-linear', 'uniform-bounds') else 'log'       # the space of the prior

            def eligible(c):
                return (want is None or c[1] == want) and (c[1] == pspace or c[0] in self.CROSS)
            pool = [c for c in chosen if eligible(c)]
            if not pool:
                pool = [c for c in cands if c not in chosen and eligible(c)][:1]
                chosen = chosen[:3] + pool
            ext_name = pool[0][0]
        if self.obspar:
            keep = [c for c in chosen if c[0] == ext_name]
            chosen = (keep + [c for c in chosen if c[0] != ext_name])[:3] + \
                rng.choice([self.OBS_CANDS[:1], self.OBS_CANDS[1:], self.OBS_CANDS])
            rng.shuffle(chosen)
        self.opt = make_optimizer(sampler, self.obs, self.model, tmpdir)
        self.pri = {}
        self.route = {}
        for name, par in list(self.model.fittingParameters.items()):
            if par[5] and name not in [c[0] for c in chosen]:
                self.opt.disable_fit(name)            # some parameters are fitted by default
        self.xspace, self.range = {}, {}
        for name, space, (lo, hi) in chosen:
            self.opt.enable_fit(name)
            if name in self.OBS_ROLE:
                self.obs_setup.append(lambda name=name: self.opt.enable_fit(name))
            if name == ext_name:
                self.extreme_prior(name, space, (lo, hi), extreme)
                continue
            style = rng.random()
            if style >= 0.7 and name in self.CROSS:
                # a user prior in the other space than the parameter's mode (both directions)
                space = 'lin' if space == 'log' else 'log'
                lo, hi = self.CROSS[name]
                style = 0.3 + (style - 0.7) * 2.0               # never the default prior: 0.3 <= style < 0.9
            else:
                style = style / 0.7
            self.xspace[name], self.range[name] = space, (lo, hi)
            a = self.grid_point(lo, hi)
            b = self.grid_point(lo, hi)
            if a == b:
                b = a + 0.5
            if style < 0.3:        # default prior from mode + boundaries (boundaries are linear-space)
                if space == 'log':
                    self.opt.set_boundary(name, [10.0 ** a, 10.0 ** b])
                    self.pri[name] = ('loguniform', a, b)
                else:
                    self.opt.set_boundary(name, [a, b])
                    self.pri[name] = ('uniform', a, b)
                    if name in self.OBS_ROLE:
                        self.obs_setup.append(lambda name=name, a=a, b=b: self.opt.set_boundary(name, [a, b]))
            elif style < 0.6:
                if space == 'log':
                    self.opt.set_prior(name, LogUniform(bounds=[a, b]))
                    self.pri[name] = ('loguniform', a, b)
                else:
                    self.opt.set_prior(name, Uniform(bounds=[a, b]))
                    self.pri[name] = ('uniform', a, b)
            else:
                mean = a
                std = rng.choice([0.125, 0.25, 0.5]) if (space == 'log' or hi - lo < 4) else (hi - lo) / rng.choice([8.0, 16.0])
                if space == 'log':
                    self.opt.set_prior(name, LogGaussian(mean=mean, std=std))
                    self.pri[name] = ('loggauss', mean, std)
                else:
                    self.opt.set_prior(name, Gaussian(mean=mean, std=std))
                    self.pri[name] = ('gauss', mean, std)
        self.opt.compile_params()
        self.fit = [p[0] for p in self.opt.fitting_parameters]      # the optimizer's order
        self.space = self.mode                                      # the parameter's mode (after set_mode, if used)
        self.cross = [n for n in self.fit if self.xspace[n] != self.space[n]]
        self.unf = [n for n in tracked if n not in self.fit]
        if self.obspar:
            self.unf += [n for n, _, _ in self.OBS_CANDS if n not in self.fit]
        self.unf_space = {n: ('log' if self.entry(n)[4] == 'log' else 'lin') for n in self.unf}
        self.bound = Bound(sampler, self.opt, tmpdir)

    def is_gas(self, name):
        return name in self.GASES or (name.split('_')[0] in self.GASES and name.split('_')[-1] in ('surface', 'top'))

    def extreme_prior(self, name, space, rng_range, route):
        """A prior whose boundaries lie at the far ends of the documented domain (trace-gas upper limits of 1e-15, 1e-30;
        boundaries of 1e+20; negative / zero / large linear boundaries), built through one of the public routes:
        the default prior of compile_params (set_boundary on a log-mode parameter; set_mode + set_boundary), and the
        constructor keywords of the prior classes (bounds / lin_bounds, mean / lin_mean).  The points the likelihood is
        evaluated at stay in the ordinary range of the parameter."""
        from taurex.core.priors import Uniform, LogUniform, LogGaussian
        rng = self.rng
        a, b = rng.choice(self.EXTREME_LOW), rng.choice(self.EXTREME_HIGH)
        if rng.random() < 0.5:
            a, b = b, a                                          # boundaries may be given in either order
        self.route[name] = route
        log_range = rng_range if space == 'log' else self.CROSS.get(name)
        lin_range = rng_range if space == 'lin' else self.CROSS.get(name)
        if route == 'default-log-bounds':                        # compile_params: LogUniform(lin_bounds = boundaries)
            self.opt.set_boundary(name, [10.0 ** a, 10.0 ** b])
        elif route == 'loguniform-lin_bounds':
            self.opt.set_prior(name, LogUniform(lin_bounds=[10.0 ** a, 10.0 ** b]))
        elif route == 'loguniform-bounds':
            self.opt.set_prior(name, LogUniform(bounds=[a, b]))
        elif route == 'set_mode-log':                            # a linear-mode parameter switched to log mode
            self.opt.set_mode(name, 'log')
            self.opt.set_boundary(name, [10.0 ** a, 10.0 ** b])
            self.mode = dict(self.mode, **{name: 'log'})
        elif route == 'loggauss-lin_mean':
            a, b = rng.choice(self.EXTREME_LOW + self.EXTREME_HIGH[2:]), rng.choice([0.125, 0.25, 0.5])
            self.opt.set_prior(name, LogGaussian(lin_mean=10.0 ** a, lin_std=10.0 ** b))
            self.pri[name] = ('loggauss', a, b)
        if route in ('default-log-bounds', 'loguniform-lin_bounds', 'loguniform-bounds', 'set_mode-log'):
            self.pri[name] = ('loguniform', a, b)
        if route in ('set_mode-linear', 'uniform-bounds'):
            a, b = rng.choice(self.EXTREME_LIN)
            if rng.random() < 0.5:
                a, b = b, a
            if route == 'set_mode-linear':                       # a log-mode parameter switched to linear mode
                self.opt.set_mode(name, 'linear')
                self.opt.set_boundary(name, [a, b])
                self.mode = dict(self.mode, **{name: 'lin'})
            else:
                self.opt.set_prior(name, Uniform(bounds=[a, b]))
            self.pri[name] = ('uniform', a, b)
            self.xspace[name], self.range[name] = 'lin', lin_range
        else:
            self.xspace[name], self.range[name] = 'log', log_range

    def build_observation(self):
        """A (new) observation of this world: bin layout, error bars, data = twin at the reference point + offsets;
        sets obs / twin_obs / twin_binner / C / bin_lo / bin_hi / d0."""
        from taurex.data.spectrum.array import ArraySpectrum
        rng, wide = self.rng, self.wide
        self.nobs += 1
        # observation: bin layout (rows of an ArraySpectrum: wavelength, data, error, wavelength width)
        fmt = '4col'
        if self.kind == 'wide':
            if self.nobs > 1:                  # the next observation of a re-used optimizer: any other layout class
                wide = rng.choice([c for c in WIDE_CLASSES if c != self.layout])
            self.layout = wide
            wl, wlw = fn.survey_layout(rng) if wide == 'survey' else fg.wide_layout(rng, wide)
            # the FORMAT of the observation (round 4): 3 columns (no widths: the library derives them from the centres, the
            # derived bins overlap their neighbours), a second instrument observing part of the same range, bins contiguous
            # in wavelength with a constant width (their wavenumber bins overlap by slivers)
            fmt = self.fmt if (wide != 'survey' or self.fmt == '3col') else '4col'
        else:
            # (the second observation of a re-used optimizer: half of the time with the same number of bins)
            nb = len(self.bin_lo) if (self.nobs > 1 and rng.random() < 0.5) else rng.randint(3, 8)
            centres = np.array(sorted(rng.sample(range(1060, 1941, 20), nb)), dtype=float)
            widths = np.array([rng.choice([20.0, 40.0, 60.0, 100.0, 150.0]) for _ in centres])
            wl = 10000.0 / centres
            wlw = 10000.0 / (centres - widths / 2) - 10000.0 / (centres + widths / 2)
        if self.kind == 'wide' and not hasattr(self, 'full_native'):
            for n, v in self.ref_values.items():
                self.twin[n] = v
            self.full_native = np.array(self.twin.model()[0], dtype=float)
        base = (wl, wlw)
        for attempt in (fmt, '4col'):
            wl, wlw = base
            if attempt == 'uniform-wl':
                wl, wlw = fy.uniform_wl_layout(rng)
            elif attempt == 'second-instrument':
                wl, wlw, nextra = fy.add_second_instrument(rng, wl, wlw)
                if nextra == 0:
                    continue
            cols = [wl, np.zeros_like(wl), np.ones_like(wl)] + ([] if attempt == '3col' else [wlw])
            probe = ArraySpectrum(np.stack(cols, axis=1))
            self.bin_lo = probe.wavenumberGrid - probe.binWidths / 2                  # the bins the observation reports
            self.bin_hi = probe.wavenumberGrid + probe.binWidths / 2
            if attempt != '3col':
                # with a width column the bins are GIVEN: the oracle takes them from the rows themselves (centre
                # 10000/wl, width 10000 dwl / wl^2, each row keeping its own width), not from the loaded object
                o = np.argsort(10000.0 / np.asarray(wl, dtype=float))
                cen = (10000.0 / np.asarray(wl, dtype=float))[o]
                wid = (10000.0 * np.asarray(wlw, dtype=float) / np.asarray(wl, dtype=float) ** 2)[o]
                self.bin_lo, self.bin_hi = cen - wid / 2, cen + wid / 2
            # the licence of spec/LikeGrid.tla: every bin 1.5 native spacings inside the clip window of the code
            # (and well inside the native grid: the bins a 3-column observation derives next to a gap can be very broad)
            if attempt == '4col' or (fn.inside_window(self.full_native, self.bin_lo, self.bin_hi, probe.wavenumberGrid) and
                                     self.bin_lo.min() > 1.1 * self.full_native.min() and
                                     self.bin_hi.max() < 0.9 * self.full_native.max()):
                break
        self.fmt_used = attempt
        raw = probe.rawData                                                           # in the observation's own order
        nb = len(wl)
        # error bars, data = twin at a reference point + offsets
        for n, v in self.ref_values.items():
            self.twin[n] = v
        g, s, _, _ = self.twin.model()
        if self.kind == 'wide':
            ref = fg.overlap_mean(g, s, self.bin_lo, self.bin_hi)
            self.overlap_cells = fy.max_overlap_cells(g, self.bin_lo, self.bin_hi)
            if not np.all(np.isfinite(ref)):
                raise Machinery('wide layout has a bin outside the native grid')
            nat_lo, nat_hi = fg.native_bins(g)
            if not (self.bin_lo.min() - g.min() > 20 * (nat_hi[0] - nat_lo[0]) and
                    g.max() - self.bin_hi.max() > 20 * (nat_hi[-1] - nat_lo[-1])):
                raise Machinery('the native grid is not much wider than the observation (%s, %s: %r .. %r)' % (self.layout, self.fmt_used, self.bin_lo.min(), self.bin_hi.max()))
            if self.layout == 'survey' and not fn.inside_window(g, self.bin_lo, self.bin_hi, probe.wavenumberGrid):
                raise Machinery('survey layout outside the licensed clip window (LGInsideWindow)')
        else:
            from taurex.binning import FluxBinner
            ref = FluxBinner(probe.wavenumberGrid, probe.binWidths).bindown(g, s)[1]
        # a survey-size observation has hundreds of bins with error bars of 10 - 30 ppm
        levels = [1e-5, 2e-5, 3e-5] if self.layout == 'survey' else [4e-5, 8e-5, 1.6e-4, 3e-4]
        err = np.array([rng.choice(levels) for _ in range(nb)])
        data = ref + err * np.array([rng.randint(-2, 2) for _ in range(nb)])
        self.d0 = []
        if self.obspar:
            self.d0 = [int(round(float(v) / self.DUNIT)) for v in data]
            data = np.array(self.d0, dtype=float) * self.DUNIT
        arr = np.stack([raw[:, 0], data, err] + ([raw[:, 3]] if raw.shape[1] == 4 else []), axis=1)
        # the rows of the observation file come in any order, each row keeping its own value, error bar and width
        arr = arr[rng.sample(range(nb), nb)]
        mk = fo.offset_scale_spectrum_class() if self.obspar else ArraySpectrum
        self.obs = mk(arr.copy())
        self.twin_obs = mk(arr.copy())
        self.twin_binner = self.twin_obs.create_binner()
        self.C = fx.gauss_const(self.twin_obs.errorBar)
        # log10 of the product of the sigma sqrt(2 pi): outside binary64 below -323 / above 308
        self.log10_product = math.fsum(math.log10(float(e) * math.sqrt(2.0 * math.pi)) for e in err)

    def switch_observation(self):
        """The SAME optimizer is pointed at another observation of this world (other layout, usually another number of
        bins, other error bars and data), as a user fitting a second visit does: set_observed ; what was done to the
        observation's parameters is done again on the new one ; compile_params ; compute_fit -> new callbacks."""
        self.build_observation()
        self.opt.set_observed(self.obs)
        for redo in self.obs_setup:
            redo()
        self.opt.compile_params()
        fit = [p[0] for p in self.opt.fitting_parameters]
        if fit != self.fit:
            return 'fitted parameters %r before, %r after set_observed' % (self.fit, fit)
        self.bound = Bound(self.sampler, self.opt, self.tmpdir)
        self.last_valid_x = None
        return None

    def on_model(self):
        """Per projected position: 1 if the parameter lives on the forward model."""
        return [0 if n in self.OBS_ROLE else 1 for n in self.fit + self.unf]

    def entry(self, name):
        return (self.obs if name in self.OBS_ROLE else self.model).fittingParameters[name]

    def roles(self):
        """Per fitted position: "model", or the role of the observation parameter."""
        return [self.OBS_ROLE.get(n, 'model') for n in self.fit]

    def data_side(self, x):
        """The data side of chi2 for the vector x by the rule of the trace specification, in exact integers:
        dat8[b] = d0[b] * (8 scale) + 10 * (8 offset[ppm])   (units DUNIT / 8; scale and offset on the 1/8 grid)."""
        val = dict(self.OBS_INIT)
        for n, xi in zip(self.fit, x):
            if n in val:
                val[n] = xi
        s8, o8 = val['obs_scale'] * 8, val['obs_offset'] * 8
        if s8 != int(s8) or o8 != int(o8):
            raise Machinery('observation parameters off the 1/8 grid: %r' % (val,))
        return [d * int(s8) + 10 * int(o8) for d in self.d0]

    def grid_point(self, lo, hi):
        n = int(round((hi - lo) * 8))
        return lo + self.rng.randint(0, n) / 8.0

    def kinds(self):
        return [self.pri[n][0] for n in self.fit]

    def par_scaled(self):
        return [[int(round(self.pri[n][1] * S)), int(round(self.pri[n][2] * S))] for n in self.fit]

    def project(self, model, obs):
        out = []
        for n in self.fit:
            v = float((obs if n in self.OBS_ROLE else model)[n])
            out.append(v if self.pri[n][0] in ('uniform', 'gauss') else safe_log10(v))
        for n in self.unf:
            v = float((obs if n in self.OBS_ROLE else model)[n])
            out.append(v if self.unf_space[n] == 'lin' else safe_log10(v))
        return [scaled(v) for v in out]

    def random_x(self):
        x = []
        for n in self.fit:
            lo, hi = self.range[n]
            r = self.rng.random()
            sp = self.xspace[n]                                            # space of the prior = of x
            if self.is_gas(n) and r < 0.25:                            # mixing ratio near / above unity (a layer-dependent
                # profile: at the surface or at the top only, unless both values are pushed up)
                x.append(self.rng.choice([0.0, 0.125, -0.125, 0.5] if sp == 'log' else [1.0, 1.125, 0.875, 1.5]))
            elif self.is_gas(n) and sp == 'log' and r < 0.33:
                x.append(self.rng.choice([-30.0, -20.0, -15.0, -13.0]))    # a trace gas at the far low end of the domain
            elif n == 'P_point1' and r < 0.2:
                x.append(self.rng.choice([6.0, 6.5, -1.0, -1.5]))          # inverted pressure nodes
            elif n == 'T' and sp == 'lin' and r < 0.12:
                x.append(self.rng.choice([-250.0, 0.0]))                   # NaN in every bin, no exception
            elif n == 'planet_radius' and sp == 'lin' and r < 0.06:
                x.append(-0.5)                                             # NaN in every bin, no exception
            else:
                x.append(self.grid_point(lo, hi))
        return x

    def oracle(self, x, inject):
        """The twin's outcome, with the validity of the chemistry decided layer by layer from separate gas-profile
        objects: an atmosphere whose non-fill gases sum above unity in SOME layer is invalid, whatever the twin says."""
        oc, z, chi2 = self.oracle_twin(x, inject)
        self.layers.set({n: (xi if self.pri[n][0] in ('uniform', 'gauss') else 10.0 ** xi)
                         for n, xi in zip(self.fit, x) if self.is_gas(n)})
        self.tot = self.layers.scaled_totals()
        self.layer_cls = fy.layers_class(self.tot)
        if self.layer_cls and oc in ('ok', 'NaNSome'):
            oc, z, chi2 = 'InvalidChemistry', None, None
        return oc, z, chi2

    def oracle_twin(self, x, inject):
        """Independent evaluation: second instance, public model[param] = value API, the observation's
        own (second) binner, plain-Python Gaussian.  Returns (outcome, z of the comparable bins, chi2 over them);
        outcome = "ok" | exception class | "NaNAll" (no bin comparable) | "NaNSome"."""
        from taurex.exceptions import InvalidModelException
        for n, xi in zip(self.fit, x):
            (self.twin_obs if n in self.OBS_ROLE else self.twin)[n] = \
                xi if self.pri[n][0] in ('uniform', 'gauss') else 10.0 ** xi
        # the data side: the observation as the vector of THIS call describes it (exact rule of the specification)
        data = [float(d) for d in self.twin_obs.spectrum]
        if self.obspar:
            ruled = [d8 / 8.0 * self.DUNIT for d8 in self.data_side(x)]
            if not all(close(a, b, rel=1e-12, abs_=1e-15) for a, b in zip(data, ruled)):
                raise Machinery('fixture: OffsetScaleSpectrum does not follow the data rule of the specification')
            data = ruled
        if inject == 'raise':
            return 'InvalidModel', None, None
        try:
            if self.kind == 'wide':
                # the FULL native grid, binned by the independent overlap-weighted mean
                g, s, _, _ = self.twin.model()
                s = np.array(s, dtype=float)
                if inject == 'NaNAll':
                    s[:] = np.nan
                binned = fg.overlap_mean(g, s, self.bin_lo, self.bin_hi)
            else:
                g, s, _, _ = self.twin.model(wngrid=self.twin_obs.wavenumberGrid)
                s = np.array(s, dtype=float)
                if inject == 'NaNAll':
                    s[:] = np.nan
                elif inject == 'NaNSome':
                    s[len(s) // 2:] = np.nan
                binned = self.twin_binner.bindown(g, s)[1]
        except InvalidModelException as e:
            return EXC_NAMES.get(type(e).__name__, 'InvalidModel'), None, None
        if not any(math.isfinite(float(m)) for m in binned):
            return 'NaNAll', None, None           # no bin comparable (NaN, or -inf: negative radius AND temperature)
        if any(math.isinf(float(m)) for m in binned):
            # an infinite model value in some bins (negative radius AND temperature: -inf wherever the optical depth
            # overflows): chi2 is infinite by the formula itself and the atmosphere is invalid -- the likelihood must not
            # be finite; recorded with the spectra that have no comparable bin
            return 'NaNAll', None, None
        z = [(float(d) - float(m)) / float(e) for d, m, e in
             zip(data, binned, self.twin_obs.errorBar) if float(m) == float(m)]
        if not z:
            return 'NaNAll', None, None
        chi2 = math.fsum(v * v for v in z)
        return ('ok' if len(z) == len(binned) else 'NaNSome'), z, chi2


def safe_log10(v):
    return math.log10(v) if v > 0 else float('nan')


def scaled(v):
    if v != v or abs(v) > 2e5:
        return 999999999
    return int(round(v * S))


def normal_quantile(u):
    if u <= 0.0 or u >= 1.0:
        return None
    return statistics.NormalDist().inv_cdf(u)


def record_trace(ctx, rng, tid, sampler, tmpdir, ncalls, events, pyverdicts, wide=None, fmt='4col', layered=None,
                 extreme=None):
    w = RealWorld(rng, sampler, tmpdir, wide=wide, fmt=fmt, layered=layered, extreme=extreme)
    base = dict(tid=tid, S=S)
    events.append(dict(base, ev='setup', id=len(events), kinds=w.kinds(), par=w.par_scaled(), nfit=len(w.fit),
                       proj=w.project(w.model, w.obs), sampler=sampler, cross=len(w.cross),
                       orole=w.roles(), d0=w.d0, off0=scaled(w.OBS_INIT['obs_offset']), sc0=scaled(w.OBS_INIT['obs_scale']),
                       kind=w.kind, obspar=w.obspar, lp=w.log10_product, layered=w.layered or '', route=extreme or ''))

    def fmt_class():
        # the format / overlap class of the CURRENT observation of the wide world
        if not wide or (w.fmt_used == '4col' and w.overlap_cells <= 1e-6):
            return ''
        return ':%s:%s' % (w.fmt_used, 'bins-overlap' if w.overlap_cells > 1 else
                           'bins-overlap-by-slivers' if w.overlap_cells > 1e-6 else 'no-overlap')
    world = w.kind + (':' + w.layered if w.layered else '')
    cls0 = '%s:%s%s%s%s' % (sampler, world, ':' + wide if wide else '', fmt_class(), ':obs-params' if w.obspar else '')
    # half of the traces: ONE long-lived optimizer, pointed at a second observation half-way through
    switch_at = ncalls // 2 if rng.random() < 0.5 else -1
    for c in range(ncalls):
        if c == switch_at:
            nb0 = len(w.bin_lo)
            try:
                why = w.switch_observation()
            except Machinery:
                raise
            except Exception as e:   # noqa
                pyverdicts.append(('never_raises', False, cls0 + ':set-observed', 'set_observed / compile_params / '
                                   'compute_fit on a re-used optimizer raised %r' % (e,), tid))
                return
            cls0 = '%s:%s%s%s%s:reused:%s-nbins' % (sampler, world, ':' + w.layout if wide else '', fmt_class(),
                                                    ':obs-params' if w.obspar else '',
                                                    'same' if len(w.bin_lo) == nb0 else 'other')
            if why:
                pyverdicts.append(('prior_in_fit_order', False, cls0, why, tid))
                return
            events.append(dict(base, ev='setobs', id=len(events), d0=w.d0, proj=w.project(w.model, w.obs), keep=w.on_model(),
                               nb0=nb0, nb=len(w.bin_lo)))
        # the first call on a survey-size observation and the first call after set_observed: a log-likelihood call at
        # the low end of every prior range (a valid atmosphere in the wide world), so that these classes never stay empty
        safe = c == switch_at or (c == 0 and w.layout == 'survey')
        # a trace with boundaries at the far ends of the domain: the prior callback at both corners of the unit cube
        corner = c - 1 if (extreme and c in (1, 2) and not safe) else None
        if corner is not None or (not safe and rng.random() < 0.3):
            den = rng.choice([2, 4, 8, 16])
            u = [Fraction(rng.randint(1, den - 1), den) if w.pri[n][0] in ('gauss', 'loggauss')
                 else Fraction(rng.randint(0, den), den) for n in w.fit]
            if corner is not None:
                u = [Fraction(1 + 2 * corner, 4) if w.pri[n][0] in ('gauss', 'loggauss') else Fraction(corner, 1) for n in w.fit]
            try:
                out = w.bound.prior([float(v) for v in u])
            except Exception as e:   # noqa
                pyverdicts.append(('never_raises', False, cls0 + ':prior', 'prior raised %r' % e, tid))
                return
            z = [normal_quantile(float(v)) if w.pri[n][0] in ('gauss', 'loggauss') else 0.0 for v, n in zip(u, w.fit)]
            events.append(dict(base, ev='prior', id=len(events), u=[[v.numerator, v.denominator] for v in u],
                               z=[scaled(v) for v in z], out=[scaled(v) for v in out],
                               routes=sorted(w.route.values())))
            # sharp comparison, Python side
            for n, ui, zi, oi in zip(w.fit, u, z, out):
                kind, a, b = w.pri[n]
                exp = (min(a, b) + float(ui) * abs(b - a)) if kind in ('uniform', 'loguniform') else a + b * zi
                pyverdicts.append(('prior_value_1e-9', close(oi, exp, rel=REL, abs_=1e-12),
                                   '%s:prior:%s%s' % (cls0, kind, ':far-boundaries:' + w.route[n] if n in w.route else ''),
                                   'prior %s(%r,%r)%s of %s at u=%s: got %r expected %r' %
                                   (kind, a, b, ' built through ' + w.route[n] if n in w.route else '', n, ui, oi, exp), tid))
            continue
        x = w.random_x()
        if c > 2 and rng.random() < 0.15 and w.last_valid_x is not None:
            x = list(w.last_valid_x)                      # revisit a point after other (possibly invalid) calls
        r = rng.random()
        inject = 'raise' if r < 0.1 else 'NaNAll' if r < 0.16 else 'NaNSome' if r < 0.22 else None
        if safe:
            x, inject = [w.range[n][0] for n in w.fit], None
        if w.kind == 'wide' and inject == 'NaNSome':
            inject = None                      # defined on native indices of the clipped grid: narrow worlds only
        before = w.project(w.model, w.obs)
        oc, z, chi2 = w.oracle(x, inject)
        w.fault.armed = inject
        try:
            ret = float(w.bound.loglike(x))
            kind = 'num' if math.isfinite(ret) else 'nan'
            exc = None
        except Exception as e:   # noqa
            ret, kind, exc = float('nan'), 'raise', e
        w.fault.armed = None
        after = w.project(w.model, w.obs)
        big = False
        chi_obs = 0
        zs = []
        if kind == 'num' and oc in ('ok', 'NaNSome'):
            chi_f = -2.0 * (ret - w.C)
            # (32-bit integers in TLC: the sum of the squared scaled residuals and the scaled chi2 must both fit, whatever the
            #  implementation returned -- a wrong value is a verdict of the sharp comparison below, not a crash of TLC)
            big = max(abs(v) for v in z) > 150 or not abs(chi_f) <= 1e5 or not chi2 <= 1e5
            if not big:
                chi_obs = int(round(chi_f * 1e4))
                zs = [int(round(v * 100)) for v in z]
        elif kind == 'num':
            big = True
        events.append(dict(base, ev='like', id=len(events), x=[scaled(v) for v in x], before=before, after=after,
                           oc=oc, ret=kind, chi=chi_obs, zs=zs, big=big, dat8=w.data_side(x) if w.obspar else [],
                           moved=bool(w.obspar) and w.data_side(x) != [8 * d for d in w.d0], nobs=w.nobs,
                           lp=w.log10_product, tot=w.tot, TS=fy.TOT_UNIT, lcls=w.layer_cls, fmt=w.fmt_used if wide else '',
                           ovl=w.overlap_cells if wide else 0.0,
                           far=any(w.is_gas(n) and w.xspace[n] == 'log' and xi < -12.5 for n, xi in zip(w.fit, x))))
        label = ('inject-%s:' % inject if inject else '') + ('valid' if oc == 'ok' else oc) + \
            (':' + w.layer_cls if w.layer_cls else '')
        cls = '%s:%s%s' % (cls0, label, ':cross-space' if w.cross else '')
        if exc is not None:
            pyverdicts.append(('never_raises', False, cls, 'loglike(%r) raised %r' % (x, exc), tid))
            return
        if oc == 'ok':
            exp = w.C - chi2 / 2.0
            pyverdicts.append(('value_1e-9', kind == 'num' and close(ret, exp, rel=REL, abs_=1e-9), cls,
                               'fit=%r priors=%r x=%r got %r expected %r' % (w.fit, w.kinds(), x, ret, exp), tid))
            w.last_valid_x = x
        elif oc == 'NaNSome':
            exp = w.C - chi2 / 2.0
            pyverdicts.append(('partial_nan_skips_or_nan', kind == 'nan' or close(ret, exp, rel=REL, abs_=1e-9), cls,
                               'fit=%r x=%r got %r; accepted: non-finite or %r' % (w.fit, x, ret, exp), tid))
        else:
            pyverdicts.append(('invalid_never_finite', kind == 'nan', cls,
                               'fit=%r x=%r (%s) got %r' % (w.fit, x, oc, ret), tid))


RealWorld.last_valid_x = None


def run_traces(ctx, ntraces, ncalls):
    rng = random.Random(ctx.seed * 6007 + 6)
    tmpdir = tempfile.mkdtemp(prefix='c06_')
    fx.register_opacities()
    events, pyv = [], []
    try:
        fg.register_wide_opacities()
        for tid in range(ntraces):
            # every third group of three traces (one per sampler) lives in the wide world, layout classes in turn
            wide = WIDE_CLASSES[(tid // 9) % len(WIDE_CLASSES)] if (tid // 3) % 3 == 2 else None
            # (round 4) the observation formats of the wide world in turn; every second group of narrow traces has a
            # layer-dependent gas profile; every fifth trace has prior boundaries at the far ends of the domain, the
            # public routes that build such a prior in turn
            fmt = fy.FORMATS[(tid % 3 + tid // 9) % len(fy.FORMATS)] if wide else '4col'
            layered = fy.PROFILES[(tid // 9 + tid) % len(fy.PROFILES)] if (tid // 3) % 3 == 1 else None
            extreme = RealWorld.EXTREME_ROUTES[(tid // 5) % len(RealWorld.EXTREME_ROUTES)] if tid % 5 == 2 else None
            record_trace(ctx, rng, tid, SAMPLERS[tid % 3], tmpdir, ncalls, events, pyv, wide=wide, fmt=fmt, layered=layered,
                         extreme=extreme)
    finally:
        shutil.rmtree(tmpdir, ignore_errors=True)
    for clause, ok, cls, detail, tid in pyv:
        ctx.verdict(clause, ok, cls=cls, detail=detail, vector=dict(kind='trace', seed=ctx.seed, tid=tid, ntraces=ntraces, ncalls=ncalls))
    slim = [{k: v for k, v in e.items() if k not in ('sampler', 'cross', 'kind', 'obspar', 'lp', 'nb0', 'nb', 'moved', 'nobs',
                                                      'layered', 'route', 'routes', 'lcls', 'fmt', 'ovl', 'far')} for e in events]
    accepted, bad, res = validate_trace('Trace_Likelihood', 'Trace_Likelihood.cfg', slim)
    ctx.add_tlc('trace', res, counts=False)
    if res.postcondition_false and not bad:
        raise Machinery('trace spec did not consume the whole trace:\n' + res.out[-1500:])
    badt = {b['tid']: b for b in bad}
    setups = {e['tid']: e for e in events if e['ev'] == 'setup'}
    for tid in range(ntraces):
        b = badt.get(tid)
        ev = events[b['id']] if b else None
        ctx.verdict('trace_protocol', b is None, cls='%s:trace:%s' % (setups[tid]['sampler'], b['why'] if b else ''),
                    detail='TLC rejected event %r' % (ev,), vector=dict(kind='trace', seed=ctx.seed, tid=tid, ntraces=ntraces, ncalls=ncalls))
    ctx.traces += ntraces
    nlike = sum(1 for e in events if e['ev'] == 'like')
    ninv = sum(1 for e in events if e['ev'] == 'like' and e['oc'] != 'ok')
    ctx.note('real-model traces: %d traces, %d events (%d loglike, %d invalid/injected, %d prior)' %
             (ntraces, len(events), nlike, ninv, sum(1 for e in events if e['ev'] == 'prior')))
    if ninv < 5 or nlike - ninv < 20:
        raise Machinery('trace generator produced too few valid/invalid calls (%d/%d)' % (nlike - ninv, ninv))
    nall = sum(1 for e in events if e['ev'] == 'like' and e['oc'] == 'NaNAll')
    nsome = sum(1 for e in events if e['ev'] == 'like' and e['oc'] == 'NaNSome')
    ncross = sum(1 for e in events if e['ev'] == 'setup' and e['cross'])
    ctx.note('real-model traces: %d all-NaN calls (no exception), %d partially-NaN calls, %d traces with a prior in the '
             'other space than the parameter mode' % (nall, nsome, ncross))
    if nall < 3 or nsome < 2 or ncross < 3:
        raise Machinery('trace generator: too few all-NaN / partially-NaN calls or cross-space traces (%d/%d/%d)'
                        % (nall, nsome, ncross))
    # the two input classes added after the seeded changes: wide native grid, observation with fitted parameters
    likes = [e for e in events if e['ev'] == 'like']
    wide_ok = [e for e in likes if setups[e['tid']]['kind'] == 'wide' and e['oc'] == 'ok']
    wide_tlc = [e for e in wide_ok if e['ret'] == 'num' and not e['big']]
    obs_ok = [e for e in likes if setups[e['tid']]['obspar'] and e['oc'] == 'ok']
    obs_moved_n = sum(1 for e in obs_ok if e['moved'])
    obs_tlc = [e for e in obs_ok if e['ret'] == 'num' and not e['big']]
    nwide = sum(1 for e in setups.values() if e['kind'] == 'wide')
    nobs = sum(1 for e in setups.values() if e['obspar'])
    ctx.note('real-model traces: %d in the wide world (%d valid calls, %d of them with chi2 checked by TLC), %d with a '
             'fitted observation parameter (%d valid calls, %d with the observation moved off its initial state, %d with '
             'chi2 checked by TLC)' % (nwide, len(wide_ok), len(wide_tlc), nobs, len(obs_ok), obs_moved_n, len(obs_tlc)))
    if nwide < 6 or len(wide_ok) < 20 or nobs < 6 or obs_moved_n < 15:
        raise Machinery('trace generator: too few wide-grid / observation-parameter calls (%d/%d/%d/%d)' %
                        (nwide, len(wide_ok), nobs, obs_moved_n))
    # the history and magnitude classes added after the third round of seeded changes: the SAME optimizer pointed at
    # a second observation (same / other number of bins), observations whose product of sigma sqrt(2 pi) leaves binary64
    switches = [e for e in events if e['ev'] == 'setobs']
    after = [e for e in likes if e['nobs'] > 1 and e['oc'] == 'ok']
    after_inv = [e for e in likes if e['nobs'] > 1 and e['oc'] not in ('ok', 'NaNSome')]
    extreme = [e for e in likes if e['oc'] == 'ok' and not -300.0 < e['lp'] < 300.0]
    extreme_samplers = {setups[e['tid']]['sampler'] for e in extreme}
    ctx.note('real-model traces: %d optimizers pointed at a second observation half-way (%d of them with another number '
             'of bins; %d valid and %d invalid calls afterwards); %d valid calls on observations whose product of '
             'sigma sqrt(2 pi) is outside binary64 (samplers %s)' %
             (len(switches), sum(1 for e in switches if e['nb'] != e['nb0']), len(after), len(after_inv), len(extreme),
              sorted(extreme_samplers)))
    if not ctx.has_violations() and (len(switches) < 6 or len(after) < 12 or len(after_inv) < 3 or
                                     len(extreme_samplers) < 3):
        raise Machinery('trace generator: too few re-used optimizers / survey-size observations (%d/%d/%d/%r)' %
                        (len(switches), len(after), len(after_inv), sorted(extreme_samplers)))
    # the classes added after the fourth round of seeded changes: atmospheres above unity in SOME layers only (layer-
    # dependent gas profiles), observations whose bins overlap each other (3 columns, a second instrument, slivers),
    # priors whose boundaries lie at the far ends of the domain (every route), trace gases at 1e-13 .. 1e-30
    some = [e for e in likes if e['lcls'] == 'some-layers-above-unity']
    allv = [e for e in likes if e['lcls'] == 'all-layers-above-unity']
    lay_ok = [e for e in likes if setups[e['tid']]['layered'] and e['oc'] == 'ok']
    ovl_big = [e for e in likes if e['oc'] == 'ok' and e['ovl'] > 1]
    ovl_sliver = [e for e in likes if e['oc'] == 'ok' and 1e-6 < e['ovl'] <= 1]
    col3 = {e['tid'] for e in likes if e['fmt'] == '3col' and e['oc'] == 'ok'}
    priors = [e for e in events if e['ev'] == 'prior']
    far_pr = [e for e in priors if e['routes'] and min(e['out']) < -12 * S - 1]
    far_routes = {r for e in priors for r in e['routes']}
    far_x = [e for e in likes if e['far'] and e['oc'] == 'ok']
    ctx.note('real-model traces: %d calls with SOME layers above unity (%d with all layers), %d valid calls on layer-'
             'dependent profiles; %d / %d valid calls on observations whose bins overlap by more than a native cell / by '
             'slivers, %d 3-column observations; %d prior calls below 1e-12 through the routes %s; %d valid calls with a trace '
             'gas below 10^-12.5' % (len(some), len(allv), len(lay_ok), len(ovl_big), len(ovl_sliver), len(col3), len(far_pr),
                                     sorted(far_routes), len(far_x)))
    if not ctx.has_violations() and (len(some) < 3 or len(allv) < 1 or len(lay_ok) < 5 or len(ovl_big) < 3 or
                                     len(ovl_sliver) < 3 or len(col3) < 2 or len(far_pr) < 3 or len(far_routes) < 5 or
                                     len(far_x) < 2):
        raise Machinery('trace generator: too few calls of the layered / overlapping-bins / far-boundary classes '
                        '(%d/%d/%d %d/%d/%d %d/%d/%d)' % (len(some), len(allv), len(lay_ok), len(ovl_big), len(ovl_sliver),
                                                         len(col3), len(far_pr), len(far_routes), len(far_x)))
    ctx.add_sample(dict(trace_event=next(e for e in slim if e['ev'] == 'like' and e['ret'] == 'num')))
    # canaries: corrupt one field of accepted events; TLC must reject
    goodl = [e for e in slim if e['ev'] == 'like' and e['tid'] not in badt and e['ret'] == 'num' and not e['big']]
    goodn = [e for e in slim if e['ev'] == 'like' and e['tid'] not in badt and e['ret'] == 'nan' and e['oc'] != 'NaNSome']
    if not goodl or not goodn:
        if any(c['bad'] or c['known'] for c in ctx.clauses.values()):
            ctx.note('canary skipped: no accepted finite/NaN event left (violations already reported)')
            return
        raise Machinery('no event available for the canary')
    goodd = [e for e in goodl if e['dat8'] and e['oc'] == 'ok']
    kinds = ('chi', 'written', 'finite_for_invalid', 'data')
    goods = [e for e in slim if e['ev'] == 'setobs' and e['tid'] not in badt]
    if not goodd:
        if not any(c['bad'] or c['known'] for c in ctx.clauses.values()):
            raise Machinery('no accepted event of an observation with parameters for the data-side canary')
        ctx.note('data-side canary skipped: no accepted event of an observation with parameters is left '
                 '(violations already reported)')
        kinds = kinds[:3]
    if goods:
        kinds = kinds + ('setobs',)
    elif not ctx.has_violations():
        raise Machinery('no accepted set_observed event for the canary')
    # (round 4) one layer above unity scored with a finite likelihood; a log prior floored at 1e-12
    kinds = kinds + ('layers',)
    goodp = [e for e in slim if e['ev'] == 'prior' and e['tid'] not in badt and min(e['out']) < -12 * S - 1]
    if goodp:
        kinds = kinds + ('prior_floor',)
    elif not ctx.has_violations():
        raise Machinery('no accepted prior event below 1e-12 for the canary')
    batch = []
    for k, which in enumerate(kinds):
        pool = goodn if which == 'finite_for_invalid' else goodd if which == 'data' else goods if which == 'setobs' else \
            goodp if which == 'prior_floor' else goodl
        e0 = pool[len(pool) // 2]
        tr = [dict(e, tid=900000 + k) for e in slim if e['tid'] == e0['tid'] and e['id'] <= e0['id']]
        c = tr[-1]
        if which == 'chi':
            c['chi'] = c['chi'] * 2 + 4 * (sum(abs(v) for v in c['zs']) + 10)
        elif which == 'written':
            c['after'] = list(c['after'])
            c['after'][0] += 5
        elif which == 'data':
            c['dat8'] = list(c['dat8'])
            c['dat8'][0] += 8              # the data side of one bin off by one unit (1e-7): e.g. a stale offset
        elif which == 'layers':
            c['tot'] = list(c['tot'][:-1]) + [3 * c['TS']]
        elif which == 'prior_floor':
            c['out'] = [max(v, -12 * S) for v in c['out']]
        elif which == 'setobs':
            c['proj'] = list(c['proj'])
            c['proj'][c['keep'].index(1)] += 5          # set_observed disturbed a parameter of the forward model
        else:
            c['ret'] = 'num'
            c['big'] = True
        batch += tr
    _, bad2, _ = validate_trace('Trace_Likelihood', 'Trace_Likelihood.cfg', batch)      # one TLC run for all canaries
    rejected = {b['tid'] for b in bad2}
    for k, which in enumerate(kinds):
        if 900000 + k not in rejected:
            raise Machinery('canary (%s) accepted: trace validation is vacuous' % which)


def observe_overlapping(ctx):
    """Layouts OUTSIDE the clip window of the code (a broad bin reaching beyond [cmin - W, cmax + W], W from the centres
    only -- e.g. two broad overlapping photometric bands): the specification refutes the clause there
    (MC_LikeGrid_ref_anylayout.cfg).  The real code is observed on one such layout; the deviation is a finding that is
    judged only once a known-finding entry for this class exists (see tools/reports/C06.md), otherwise it is recorded
    in the evidence notes."""
    from taurex.data.spectrum.array import ArraySpectrum
    fx.register_opacities()
    fg.register_wide_opacities()
    model, twin = fg.make_wide_transmission(), fg.make_wide_transmission()
    wl, wlw = fg.overlapping_layout()
    probe = ArraySpectrum(np.stack([wl, np.zeros_like(wl), np.ones_like(wl), wlw], axis=1))
    lo, hi = probe.wavenumberGrid - probe.binWidths / 2, probe.wavenumberGrid + probe.binWidths / 2
    g, s, _, _ = twin.model()
    ref = fg.overlap_mean(g, s, lo, hi)
    err = np.array([5e-5, 5e-5])
    obs = ArraySpectrum(np.stack([probe.rawData[:, 0], ref + err, err, probe.rawData[:, 3]], axis=1))
    tmpdir = tempfile.mkdtemp(prefix='c06_')
    try:
        opt = make_optimizer('nestle', obs, model, tmpdir)
        for name, par in list(model.fittingParameters.items()):
            if par[5]:
                opt.disable_fit(name)
        opt.enable_fit('T')
        opt.compile_params()
        b = Bound('nestle', opt, tmpdir)
        twin['T'] = 1250.0
        g, s, _, _ = twin.model()
        binned = fg.overlap_mean(g, s, lo, hi)
        exp = fx.gauss_const(err) - math.fsum(((float(d) - float(m)) / float(e)) ** 2
                                              for d, m, e in zip(obs.spectrum, binned, err)) / 2.0
        ret = float(b.loglike([1250.0]))
    finally:
        shutil.rmtree(tmpdir, ignore_errors=True)
    ok = close(ret, exp, rel=REL, abs_=1e-9)
    cls = 'nestle:wide:overlapping-broad-bins'
    detail = 'bands 0.43-0.89 and 0.6-1.0 micron, T=1250: got %r, full-grid value %r' % (ret, exp)
    if ok or ctx.match_finding('binned_on_full_grid', cls, None) is not None:
        ctx.verdict('binned_on_full_grid', ok, cls=cls, detail=detail, vector=dict(kind='overlap'))
    else:
        ctx.note('UNJUDGED FINDING (layout outside the clip window, no known-finding entry yet): ' + detail)


# ----------------------------------------------------------------------------------------------

def run(ctx):
    q = ctx.tier == 'quick'
    fx.load_optimizers()
    ctx.bounds = dict(
        tier=ctx.tier,
        exhaustive='toy world(s) %s: 2-3 fitted parameters (linear + log prior; "mixed": user priors in the other space '
                   'than the parameter mode, both directions) + 1 unfitted, 2 bins over 4 native points, '
                   'all grid vectors x all injected fault classes (3 exception classes, NaN in all bins, NaN in one bin) '
                   'x all unit-cube grid points, all call sequences'
                   % ('two, mixed' if q else 'two, three, mixed'),
        behaviours='TLC -simulate, depth %d, three samplers, natural + injected invalid models' % (9 if q else 12),
        grid='native lattice of 57 points (spacing 1, 2, 3) much wider than the observation; layout families geo / rev '
             '(contiguous, widths growing / shrinking up to 9x), gap, phot (narrow bins + one broad photometric bin beyond a '
             'gap), two (two instruments), ovl (bins overlapping each other inside the window: two instruments over the '
             'same range, a band on top of spectral bins, the same band twice, contiguous bins widened by slivers; native '
             'spacing 1 and 2); %s; margin rules max (code) / first / last / min / halfmax; bin search each (code) / resume'
             % ('2 starts x lengths 3, 5, a = 3' if q else '4 starts x lengths 3-6, a = 0, 1, 3'),
        observation_parameters='toy world "obs": offset (lin) and scale (log) fitted on the observation, all vectors x '
                               'fault classes x call sequences; real traces: OffsetScaleSpectrum (offset in ppm, scale), '
                               'one or both fitted, uniform / Gaussian priors, points on a 1/8 grid',
        reused_optimizer='toy world "hist": ONE optimizer pointed at three observations (2 bins, 2 bins with another layout, 3 '
                         'bins; other data and error bars) in any order between evaluations, all vectors x fault classes x call '
                         'sequences; TLC-generated walks (harness/history.py) over observation (real ArraySpectrum, 2 / 2 / 3 '
                         'bins) x fitted subset x boundaries, three samplers, compared with fresh optimizers; half of the '
                         'real-model traces switch to a second observation half-way (another layout class / number of bins)',
        size_and_magnitude='n = %s bins x unit 2^-11 (transit depth, error bars 2e-6..3e-5) / 2^-91 (flux ~1e-26) / 2^60 x '
                           'heteroscedastic error bars (factor 16), three samplers; wide real traces: survey-size layouts '
                           '(R 40-50 over 0.5-12 micron, 120-160 bins, error bars 10-30 ppm)'
                           % ('3, 24, 150, 400' if q else '3, 11, 24, 60, 150, 400, 1000; two error-bar levels'),
        wide_traces='a third of the real-model traces: CO2 + CO on an 800-point constant-R native grid 0.3-25 micron, '
                    'observations: constant R 8-20 over 0.4-12 micron, the same with gaps, R 30-45 spectrograph + 1-3 '
                    'broad photometric bands, two instruments (R 30-40 and R 5-7); heteroscedastic errors',
        layers_formats_boundaries='a third of the narrow traces: H2O as TwoLayerGas / TwoPointGas (surface / top value '
                                  'fitted; above unity at the surface only, at the top only, everywhere); wide traces: '
                                  'observation formats 4 columns / 3 columns (widths derived from the centres) / a second '
                                  'instrument over part of the range / contiguous constant-width wavelength bins; every fifth '
                                  'trace: prior boundaries 1e-30 .. 1e+20 (linear: negative, zero, 2e4) through set_boundary, '
                                  'set_mode + set_boundary, Uniform(bounds), LogUniform(bounds | lin_bounds), '
                                  'LogGaussian(lin_mean, lin_std), prior callback at both corners of the cube; trace gases at '
                                  '1e-13 .. 1e-30',
        traces='real TransmissionModel (isothermal / N-point; H2O, CH4), 3-8 random bins, 1-4 fitted parameters, '
               'Uniform/LogUniform/Gaussian/LogGaussian priors (default, same space as the mode, other space), points on '
               'a 1/8 grid; invalid: mixing ratio >= 1, inverted nodes, T <= 0 / negative radius (all-NaN spectrum), '
               'injected exception / all-NaN / partially-NaN optical depth')
    ctx.assumptions = [
        'TLC + CommunityModules Json/IOUtils',
        'recording doubles call the callbacks with the conventions of nestle / PyMultiNest (in-place ctypes cube) / '
        'pypolychord as transcribed from their documentation; the real samplers are not installed',
        'toy ForwardModel and fault-injecting contribution are harness fixtures',
        'oracle of the real-model traces: a second model instance driven through model[param] = value, '
        'a second FluxBinner of the same observation, math.fsum / math.log; statistics.NormalDist for Gaussian priors',
        'FluxBinner itself is the subject of C05, not of this check',
        'native bins are centred on the native points with the mid-point width (FluxBinner convention, Grid.tla of C13); '
        'observations report their bins in ascending wavenumber (as ArraySpectrum / ObservedSpectrum do)',
        'layouts whose bins reach outside the window [cmin - W, cmax + W] of clip_native_to_wngrid (W: widest mid-point '
        'width of the centres) are not judged: refuted at design level, observed on the code, reported as a finding',
        'an observation parameter that changes errorBar (not spectrum) is outside the generated classes',
        'per-layer totals of the non-fill gases: the library\'s gas-profile classes (ConstantGas, TwoLayerGas, TwoPointGas) '
        'evaluated on separate objects on the model\'s pressure grid; the validity decision of TaurexChemistry is not consulted',
        'observation formats other than 4 columns are generated only where every reported bin lies 1.5 native spacings '
        'inside the clip window (LGInsideWindow), else the 4-column layout is used',
        're-use of an optimizer = set_observed(new) ; (settings of the new observation\'s own parameters applied again) ; '
        'compile_params() ; compute_fit(): callbacks of an earlier compute_fit are not used after set_observed',
        'survey-size wide layouts keep every bin 1.5 native spacings inside the clip window of the code (bins at least 3.6 '
        'native spacings wide); sharper observations fall under the known finding L-C13b of C13 and are not generated']
    # The design-level TLC runs do not depend on the implementation: they run in two background threads (TLC is a
    # subprocess) while this thread drives the real code; their verdicts (Machinery on a violated design invariant, a
    # vacuous action or a missing expected counterexample) are collected at the end.
    import threading
    from concurrent.futures import ThreadPoolExecutor
    lock, add_tlc = threading.Lock(), ctx.add_tlc

    def locked_add_tlc(*a, **k):
        with lock:
            return add_tlc(*a, **k)
    ctx.add_tlc = locked_add_tlc
    acts = dict(need_actions=('PriorCall', 'LogLike'))
    design = [
        (ctx.check_spec, ('exhaustive-two', 'MC_Likelihood', 'MC_Likelihood_quick.cfg'), acts),
        (ctx.check_spec, ('exhaustive-mixed', 'MC_Likelihood', 'MC_Likelihood_mixed.cfg'), acts),
        # the observation carries fitted parameters (offset, scale): the data side of chi2 follows the vector of THIS call
        (ctx.check_spec, ('exhaustive-obs', 'MC_Likelihood', 'MC_Likelihood_obs.cfg'), acts),
        # non-vacuity of the clauses / design-level finding L-C06 (as-built mechanism)
        (ctx.expect_refuted, ('asbuilt-chi2-zero', 'MC_Likelihood', 'MC_Likelihood_asbuilt.cfg', 'ValidEqualsGaussian'), {}),
        (ctx.expect_refuted, ('narrow-except', 'MC_Likelihood', 'MC_Likelihood_narrow.cfg', 'NeverRaises'), {}),
        # update_model exponentiating by the parameter's mode instead of applying prior.prior (priors in the other space)
        (ctx.expect_refuted, ('write-by-parameter-mode', 'MC_Likelihood', 'MC_Likelihood_bymode.cfg', 'WrittenIsPriorOfX'), {}),
        # a model that is NaN in every bin scored as chi2 = 0
        (ctx.expect_refuted, ('all-nan-scored-zero', 'MC_Likelihood', 'MC_Likelihood_allnan.cfg', 'InvalidNeverFinite'), {}),
        # chi2 against a copy of the observed spectrum captured when compute_fit starts / read before update_model
        (ctx.expect_refuted, ('observation-frozen-copy', 'MC_Likelihood', 'MC_Likelihood_obsfrozen.cfg',
                              'ValidEqualsGaussian'), {}),
        (ctx.expect_refuted, ('observation-one-call-late', 'MC_Likelihood', 'MC_Likelihood_obslag.cfg',
                              'ValidEqualsGaussian'), {}),
        # ONE long-lived optimizer pointed at three observations one after the other (other layout, other number of bins)
        (ctx.check_spec, ('exhaustive-hist', 'MC_Likelihood', 'MC_Likelihood_hist.cfg'),
         dict(need_actions=('PriorCall', 'LogLike', 'SetObserved'), workers=2)),
        # the binner built at the first evaluation and never rebuilt: the model is binned to an earlier observation's bins
        (ctx.expect_refuted, ('binner-built-once-lazily', 'MC_Likelihood', 'MC_Likelihood_lazybinner.cfg',
                              'ValidEqualsGaussian'), dict(workers=1)),
        # the normalisation term formed as the log of a product: leaves binary64 for many bins / small or large units
        (ctx.expect_refuted, ('normalisation-log-of-product', 'MC_LikeNorm', 'MC_LikeNorm_ref_logprod.cfg',
                              'NormIsSumOfLogs'), dict(workers=1)),
        # native grid much wider than the observation: margin of the clip taken from the first bin (not the widest)
        (ctx.expect_refuted, ('clip-margin-of-first-bin', 'MC_LikeGrid', 'MC_LikeGrid_ref_first.cfg',
                              'LikelihoodOfFullGrid'), {}),
        # design-level finding: a broad bin reaching beyond the window computed from the centres (overlapping bins)
        (ctx.expect_refuted, ('any-layout-overlapping-broad-bins', 'MC_LikeGrid', 'MC_LikeGrid_ref_anylayout.cfg',
                              'LikelihoodOfFullGrid'), {}),
        # (round 4) bins that overlap each other inside the window: a binner whose search for the native cells of a bin
        # resumes at the last cell the previous bin used
        (ctx.expect_refuted, ('binner-search-resumes-after-previous-bin', 'MC_LikeGrid', 'MC_LikeGrid_ref_resume.cfg',
                              'LikelihoodOfFullGrid'), dict(workers=1)),
        # (round 4) an atmosphere rejected only when EVERY layer is above unity
        (ctx.expect_refuted, ('invalid-only-if-all-layers-above-unity', 'MC_Likelihood', 'MC_Likelihood_alllayers.cfg',
                              'InvalidNeverFinite'), dict(workers=1)),
    ]
    if not q:
        design.insert(2, (ctx.check_spec, ('exhaustive-three', 'MC_Likelihood', 'MC_Likelihood_thorough.cfg'), acts))
        for rule in ('last', 'min', 'halfmax'):
            design.append((ctx.expect_refuted, ('clip-margin-%s' % rule, 'MC_LikeGrid', 'MC_LikeGrid_ref_%s.cfg' % rule,
                                                'LikelihoodOfFullGrid'), {}))
        design.append((ctx.expect_refuted, ('layouts-with-widths-varying-2x', 'MC_LikeGrid', 'MC_LikeGrid_ref_nogrowth.cfg',
                                            'NoGrowth'), {}))
        # the binner built by the constructor only: another number of bins raises out of the callback
        design.append((ctx.expect_refuted, ('binner-built-by-constructor-only', 'MC_Likelihood',
                                            'MC_Likelihood_initbinner.cfg', 'NeverRaises'), dict(workers=1)))
        design.append((ctx.expect_refuted, ('normalisation-half-log-of-product-of-squares', 'MC_LikeNorm',
                                            'MC_LikeNorm_ref_halflogprodsq.cfg', 'NormIsSumOfLogs'), dict(workers=1)))
        # non-vacuity: the generated observations do drive the product of the error bars out of binary64
        design.append((ctx.expect_refuted, ('observations-beyond-the-range-of-the-product', 'MC_LikeNorm',
                                            'MC_LikeNorm_ref_smallonly.cfg', 'ProductRepresentable'), dict(workers=1)))
    pool = ThreadPoolExecutor(max_workers=3)
    # the layouts of MC_LikeGrid are exported by a design-level run too: started first, its vectors are bound last
    grid_cfg = 'MC_LikeGrid_quick.cfg' if q else 'MC_LikeGrid_thorough.cfg'
    grid_run = pool.submit(ctx.check_spec, 'exhaustive-likegrid', 'MC_LikeGrid', grid_cfg)
    futures = [grid_run] + [pool.submit(f, *a, **k) for f, a, k in design]
    try:
        # observations of any size and magnitude: the normalisation term
        run_norm_vectors(ctx, 'MC_LikeNorm_quick.cfg' if q else 'MC_LikeNorm_thorough.cfg')
        n = run_behaviours(ctx, 30 if q else 300, 9 if q else 12,
                           ('two', 'mixed', 'obs', 'hist') if q else ('two', 'three', 'mixed', 'obs', 'hist'))
        ctx.note('replayed %d simulated behaviours' % n)
        # one long-lived optimizer, settings changed between fits, compared with freshly built optimizers
        n = run_optimizer_history(ctx, 6 if q else 30)
        ctx.note('replayed %d TLC-generated walks over the settings of a re-used optimizer' % n)
        run_traces(ctx, 45 if q else 600, 14 if q else 20)
        # observation layouts on a native grid much wider than the observation: clipping contract + exported vectors
        run_grid_vectors(ctx, grid_cfg, res=grid_run.result())
        observe_overlapping(ctx)
    except BaseException:
        for f in futures:
            f.cancel()
        raise
    finally:
        pool.shutdown(wait=True)
    for f in futures:
        f.result()                   # re-raises Machinery of a design-level run
    ctx.exhaustive = True


def replay(ctx, violations):
    fx.load_optimizers()
    seen = set()
    for v in violations:
        vec = v.get('vector') or {}
        if vec.get('kind') == 'behaviour':
            key = repr(vec)
            if key in seen:
                continue
            seen.add(key)
            tmpdir = tempfile.mkdtemp(prefix='c06_')
            try:
                replay_behaviour(ctx, vec['sampler'], dict(layout=vec['layout'], hist=vec['hist'], obs=vec.get('obs')), tmpdir)
            finally:
                shutil.rmtree(tmpdir, ignore_errors=True)
        elif vec.get('kind') == 'grid':
            key = ('grid', vec['cfg'])
            if key in seen:
                continue
            seen.add(key)
            run_grid_vectors(ctx, vec['cfg'])
        elif vec.get('kind') == 'norm':
            key = ('norm', vec['cfg'])
            if key in seen:
                continue
            seen.add(key)
            run_norm_vectors(ctx, vec['cfg'])
        elif 'history' in vec:
            if 'history' in seen:
                continue
            seen.add('history')
            run_optimizer_history(ctx, 6)
        elif vec.get('kind') == 'trace':
            key = ('trace', vec['seed'])
            if key in seen:
                continue
            seen.add(key)
            ctx.seed = vec['seed']
            run_traces(ctx, vec.get('ntraces', 45), vec.get('ncalls', 14))
