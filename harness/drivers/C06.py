"""C06 -- every sampler is handed the Gaussian log-likelihood of the binned model.

Spec: spec/LikeRules.tla (shared rules), spec/Likelihood.tla (mechanism + clauses),
      spec/MC_Likelihood.tla (toy worlds, exhaustive + simulated behaviours), spec/Trace_Likelihood.tla.
Design level : exhaustive TLC on the toy worlds ("two": default priors; "mixed": set_prior priors living in the
               other space than the parameter's mode, both directions); fault classes: the three exception
               classes, "NaNAll" (NaN in every bin, no exception), "NaNSome"; four expected counterexamples
               (chi2 == 0 reported as NaN -- the as-built behaviour, ledger L-C06 --, a narrowed except clause,
               update_model exponentiating by the parameter's mode, an all-NaN model scored as chi2 = 0).
Binding C    : TLC-simulated behaviours (sequences of prior / loglike calls with natural and injected
               invalid models) replayed on the callbacks the real NestleOptimizer, MultiNestOptimizer and
               PolyChordOptimizer hand to recording doubles of nestle.sample, pymultinest.run and
               pypolychord.run_polychord; exact expected chi2/2 and written values from the spec.
Binding B    : random call sequences on real TransmissionModels (isothermal / N-point, H2O+CH4) with real
               ArraySpectrum observations (random bin layouts and error bars), all four prior classes;
               every call validated by TLC (Trace_Likelihood) + sharp 1e-9 comparison against a second,
               independently driven model instance; canary.
"""
import math
import random
import shutil
import statistics
import tempfile
from fractions import Fraction

import numpy as np

from ..core import Machinery, frac, close, run_tlc, validate_trace
from .. import fx_retrieval as fx
from .. import fx_like as fl
from .. import fx_likeobs as fo

SAMPLERS = ('nestle', 'multinest', 'polychord')
REL = 1e-9
S = 1000


# ----------------------------------------------------------------------------------------------
# capturing the callbacks of one optimizer
# ----------------------------------------------------------------------------------------------

class Bound(object):
    """The two callbacks a wrapper handed to its sampler, with the sampler's calling convention."""

    def __init__(self, sampler, opt, tmpdir):
        import pymultinest
        import pypolychord
        self.sampler = sampler
        self.opt = opt
        cap = {}
        if sampler == 'nestle':
            def hook(loglike, prior, ndim, **kw):
                cap.update(ll=loglike, pr=prior, ndim=ndim)
                raise fx.Captured()
            with fx.NestlePatch(hook):
                try:
                    opt.compute_fit()
                except fx.Captured:
                    pass
            if not cap:
                raise Machinery('nestle.sample double was not called by compute_fit')
            self.prior = lambda u: [float(v) for v in cap['pr'](np.array(u, dtype=float))]
            self.loglike = lambda x: cap['ll'](np.array(x, dtype=float))
            self.ndim = cap['ndim']
        elif sampler == 'multinest':
            def hook(call):
                cap['call'] = call
                raise fx.Captured()
            pymultinest.HOOK = hook
            try:
                opt.compute_fit()
            except fx.Captured:
                pass
            finally:
                pymultinest.HOOK = None
            if not cap:
                raise Machinery('pymultinest.run double was not called by compute_fit')
            self.prior = lambda u: pymultinest.call_prior(cap['call'], u)
            self.loglike = lambda x: pymultinest.call_loglike(cap['call'], x)
            self.ndim = cap['call']['n_dims']
        else:
            def hook(call):
                cap['call'] = call
                raise fx.Captured()
            pypolychord.HOOK = hook
            try:
                opt.compute_fit()
            except fx.Captured:
                pass
            finally:
                pypolychord.HOOK = None
            if not cap:
                raise Machinery('pypolychord.run_polychord double was not called by compute_fit')
            self.prior = lambda u: pypolychord.call_prior(cap['call'], u)
            self.loglike = lambda x: pypolychord.call_loglike(cap['call'], x)
            self.ndim = cap['call']['nDims']


def make_optimizer(sampler, obs, model, tmpdir):
    N, M, P = fx.load_optimizers()
    if sampler == 'nestle':
        return N(observed=obs, model=model, num_live_points=5)
    if sampler == 'multinest':
        return M(multi_nest_path=tmpdir, observed=obs, model=model, num_live_points=5)
    return P(polychord_path=tmpdir, observed=obs, model=model, num_live_points=5)


# ----------------------------------------------------------------------------------------------
# binding C: simulated behaviours on the toy world
# ----------------------------------------------------------------------------------------------

def toy_bound(sampler, layout, tmpdir):
    model = fl.make_toy(layout)
    obs = fo.make_toy_obs(layout)                # "obs": the observation carries fitted parameters (offset, scale)
    opt = make_optimizer(sampler, obs, model, tmpdir)
    w = fx.TOY[layout]
    for n, f in zip(w['names'], w['fit']):
        if f:
            opt.enable_fit(n)
    for par in fo.obs_params(layout):
        if par[6]:
            opt.enable_fit(par[0])
    fl.install_user_priors(opt, layout)          # "mixed": priors in the other space than the parameter's mode
    opt.compile_params()
    return Bound(sampler, opt, tmpdir), model, obs


def toy_values(layout, model, obs):
    """Values held by the model's parameters, then by the observation's (the specification's `val`)."""
    return [float(v) for v in model.values] + [float(obs[par[0]]) for par in fo.obs_params(layout)]


def obs_moved(layout, step):
    """A loglike step of a behaviour whose observation parameters differ from their initial values."""
    pars = fo.obs_params(layout)
    return bool(pars) and step['op'] == 'loglike' and \
        [float(v) for v in step['vals'][-len(pars):]] != [float(p[5]) for p in pars]


def call_class(step):
    if step['op'] == 'prior':
        return 'prior'
    if step['inj'] != 'none':
        return 'inject:' + step['inj']
    if step['k'] == 'num':
        return 'chi2zero' if frac(step['h']) == 0 else 'valid'
    return 'natural-invalid'


def replay_behaviour(ctx, sampler, beh, tmpdir):
    layout = beh['layout']
    b, model, obs = toy_bound(sampler, layout, tmpdir)
    C = fx.gauss_const(fx.TOY[layout]['sig'])
    nfit = sum(fx.TOY[layout]['fit']) + sum(1 for par in fo.obs_params(layout) if par[6])
    if b.ndim != nfit:
        ctx.verdict('ndim', False, cls='%s:%s' % (sampler, layout), detail='ndim %r' % b.ndim, vector=None)
    for i, step in enumerate(beh['hist']):
        cls = '%s:%s:%s%s' % (sampler, layout, call_class(step), ':obs-moved' if obs_moved(layout, step) else '')
        vec = dict(kind='behaviour', sampler=sampler, layout=layout, hist=beh['hist'][:i + 1])
        if step['op'] == 'prior':
            u = [float(frac(v)) for v in step['u']]
            try:
                out = b.prior(u)
            except Exception as e:   # noqa
                ctx.verdict('never_raises', False, cls=cls, detail='prior raised %r' % e, vector=vec)
                return
            exp = [float(frac(v)) for v in step['out']]
            ok = len(out) == len(exp) and all(close(a, c, rel=1e-12, abs_=1e-12) for a, c in zip(out, exp))
            ctx.verdict('prior_in_fit_order', ok, cls=cls, detail='got %r expected %r' % (out, exp), vector=vec)
            if not ok:
                return
            continue
        if step['inj'] != 'none':
            model.inject = step['inj']
        try:
            ret = float(b.loglike([float(v) for v in step['x']]))
            raised = None
        except Exception as e:   # noqa
            ret, raised = None, e
        ctx.verdict('never_raises', raised is None, cls=cls, detail='loglike raised %r' % (raised,), vector=vec)
        if raised is not None:
            return
        vals = toy_values(layout, model, obs)
        okw = all(a == float(c) for a, c in zip(vals, step['vals']))
        ctx.verdict('written_is_prior_of_x', okw, cls=cls, detail='model holds %r expected %r' % (vals, step['vals']),
                    vector=vec)
        if step['k'] == 'num':
            exp = C - float(frac(step['h']))
            ok = math.isfinite(ret) and close(ret, exp, rel=REL, abs_=1e-12)
            ctx.verdict('valid_equals_gaussian', ok, cls=cls, detail='got %r expected %r (chi2/2 = %s)' %
                        (ret, exp, frac(step['h'])), vector=vec)
        elif step['k'] == 'part':
            # NaN in some bins: the statement is silent; non-finite, or the Gaussian over the comparable bins
            exp = C - float(frac(step['h']))
            ok = (not math.isfinite(ret)) or close(ret, exp, rel=REL, abs_=1e-12)
            ctx.verdict('partial_nan_skips_or_nan', ok, cls=cls, detail='got %r; accepted: non-finite or %r' %
                        (ret, exp), vector=vec)
        else:
            ok = not math.isfinite(ret)
            ctx.verdict('invalid_never_finite', ok, cls=cls, detail='got %r for an invalid model' % ret, vector=vec)
        if not (ok and okw):
            return


FAULT_RUNS = (('InvalidModel', 'NaNAll'), ('InvalidChemistry', 'NaNSome'), ('InvalidTemperature', 'NaNAll'))
FAULT_RUNS_OBS = (('InvalidModel', 'NaNAll'), ('InvalidTemperature', 'NaNSome'))     # quick tier, layout "obs"


def run_behaviours(ctx, nbeh, depth, layouts):
    tmpdir = tempfile.mkdtemp(prefix='c06_')
    try:
        total = 0
        seen = set()
        for li, layout in enumerate(layouts):
            runs = FAULT_RUNS_OBS if (layout == 'obs' and ctx.tier == 'quick') else FAULT_RUNS
            for fi, (fault, nanfault) in enumerate(runs):
                cfg = make_sim_cfg(layout, fault, nanfault, depth)
                try:
                    res = run_tlc('MC_Likelihood', cfg, workers=1, simulate='num=%d' % nbeh, depth=depth,
                                  seed=ctx.seed * 101 + li * 7 + fi + 1)
                finally:
                    import os
                    os.unlink(cfg)
                ctx.add_tlc('simulate-%s-%s' % (layout, fault), res, counts=False)
                behs = res.tagged('BEH')
                if len(behs) < nbeh // 2:
                    raise Machinery('TLC simulation printed %d behaviours, wanted %d' % (len(behs), nbeh))
                for bi, beh in enumerate(behs):
                    sampler = SAMPLERS[(bi + fi) % 3]
                    replay_behaviour(ctx, sampler, beh, tmpdir)
                    seen |= {(layout, call_class(st)) for st in beh['hist']}
                    seen |= {(layout, call_class(st) + ':obs-moved') for st in beh['hist'] if obs_moved(layout, st)}
                    total += 1
                    ctx.traces += 1
                if li == 0 and fi == 0:
                    ctx.add_sample(dict(behaviour=behs[0]))
        # vacuity: every layout must have met a valid call, a natural invalid one and each injected fault class
        for layout in layouts:
            for c in ('prior', 'valid', 'natural-invalid', 'inject:NaNAll', 'inject:NaNSome', 'inject:InvalidModel'):
                if (layout, c) not in seen:
                    raise Machinery('simulated behaviours of layout %s never contain a %s call' % (layout, c))
            # an observation with parameters: valid and invalid calls with the observation moved off its initial state
            if fo.obs_params(layout):
                for c in ('valid:obs-moved', 'natural-invalid:obs-moved'):
                    if (layout, c) not in seen:
                        raise Machinery('simulated behaviours of layout %s never contain a %s call' % (layout, c))
        return total
    finally:
        shutil.rmtree(tmpdir, ignore_errors=True)


def make_sim_cfg(layout, fault, nanfault, depth):
    import os
    from ..core import SPEC, write_cfg
    with open(os.path.join(SPEC, 'SIM_Likelihood.cfg')) as f:
        text = f.read()
    text = text.replace('Layout = "two"', 'Layout = "%s"' % layout)
    text = text.replace('Depth = 9', 'Depth = %d' % depth)
    text = text.replace('  Faults = {"InvalidModel"}', '  Faults = {"%s"}' % fault)
    text = text.replace('NaNFaults = {"NaNAll"}', 'NaNFaults = {"%s"}' % nanfault)
    if layout == 'obs':
        text = text.replace('UDen = 4', 'UDen = 2')      # four fitted parameters: fewer prior successors per state
    return write_cfg(text)


# ----------------------------------------------------------------------------------------------
# binding B: real models
# ----------------------------------------------------------------------------------------------

EXC_NAMES = {'InvalidChemistryException': 'InvalidChemistry', 'InvalidTemperatureException': 'InvalidTemperature'}


class RealWorld(object):
    """One optimizer over a real TransmissionModel + an oracle twin."""

    CANDS = {
        'isothermal': [('planet_radius', 'lin', (0.75, 1.25)), ('T', 'lin', (500.0, 2000.0)),
                       ('H2O', 'log', (-8.0, 1.0)), ('CH4', 'log', (-8.0, 0.0))],
        'npoint': [('planet_radius', 'lin', (0.75, 1.25)), ('T_surface', 'lin', (1000.0, 2000.0)),
                   ('T_point1', 'lin', (500.0, 2500.0)), ('T_top', 'lin', (500.0, 1500.0)),
                   ('P_point1', 'log', (0.0, 7.0)), ('H2O', 'log', (-8.0, 1.0))],
    }
    # prior-space ranges for a prior given through set_prior in the OTHER space than the parameter's mode
    # (log10 ranges for linear-mode parameters, linear ranges for the log-mode mixing ratios)
    CROSS = {'planet_radius': (-0.125, 0.125), 'T': (2.75, 3.25), 'T_surface': (3.0, 3.25), 'T_point1': (2.75, 3.375),
             'T_top': (2.75, 3.125), 'H2O': (0.125, 1.125), 'CH4': (0.125, 0.875)}
    TRACKED = {'isothermal': ['planet_radius', 'T', 'H2O', 'CH4', 'planet_mass'],
               'npoint': ['planet_radius', 'T_surface', 'T_point1', 'T_top', 'P_point1', 'H2O', 'CH4', 'planet_mass']}

    def __init__(self, rng, sampler, tmpdir):
        from taurex.core.priors import Uniform, LogUniform, Gaussian, LogGaussian
        self.rng = rng
        self.sampler = sampler
        self.kind = rng.choice(['isothermal', 'isothermal', 'npoint'])
        self.model = fx.make_transmission(self.kind)
        self.twin = fx.make_transmission(self.kind)
        if self.kind == 'npoint':
            for m in (self.model, self.twin):
                m._temperature_profile._limit_slope = 450.0
        self.fault = fl.nan_contribution_class()()
        self.model.add_contribution(self.fault)
        self.model.build()
        # observation: random bin layout, error bars; data = twin at a reference point + offsets
        nb = rng.randint(3, 8)
        centres = sorted(rng.sample(range(1060, 1941, 20), nb))
        widths = [rng.choice([20.0, 40.0, 60.0, 100.0, 150.0]) for _ in centres]
        g, s, _, _ = self.twin.model()
        from taurex.binning import FluxBinner
        ref = FluxBinner(np.array(centres, dtype=float), np.array(widths, dtype=float)).bindown(g, s)[1]
        err = np.array([rng.choice([4e-5, 8e-5, 1.6e-4, 3e-4]) for _ in centres])
        data = ref + err * np.array([rng.randint(-2, 2) for _ in centres])
        self.obs = fx.make_array_obs(centres, widths, data, err)
        self.twin_obs = fx.make_array_obs(centres, widths, data, err)
        self.twin_binner = self.twin_obs.create_binner()
        self.C = fx.gauss_const(self.twin_obs.errorBar)
        # fitted subset (declaration order is the model's, not ours) and priors
        cands = self.CANDS[self.kind]
        k = rng.randint(1, min(4, len(cands)))
        chosen = rng.sample(cands, k)
        self.opt = make_optimizer(sampler, self.obs, self.model, tmpdir)
        self.pri = {}
        for name, par in list(self.model.fittingParameters.items()):
            if par[5] and name not in [c[0] for c in chosen]:
                self.opt.disable_fit(name)            # some parameters are fitted by default
        self.xspace, self.range = {}, {}
        for name, space, (lo, hi) in chosen:
            self.opt.enable_fit(name)
            style = rng.random()
            if style >= 0.7 and name in self.CROSS:
                # a user prior in the other space than the parameter's mode (both directions)
                space = 'lin' if space == 'log' else 'log'
                lo, hi = self.CROSS[name]
                style = 0.3 + (style - 0.7) * 2.0               # never the default prior: 0.3 <= style < 0.9
            else:
                style = style / 0.7
            self.xspace[name], self.range[name] = space, (lo, hi)
            a = self.grid_point(lo, hi)
            b = self.grid_point(lo, hi)
            if a == b:
                b = a + 0.5
            if style < 0.3:        # default prior from mode + boundaries (boundaries are linear-space)
                if space == 'log':
                    self.opt.set_boundary(name, [10.0 ** a, 10.0 ** b])
                    self.pri[name] = ('loguniform', a, b)
                else:
                    self.opt.set_boundary(name, [a, b])
                    self.pri[name] = ('uniform', a, b)
            elif style < 0.6:
                if space == 'log':
                    self.opt.set_prior(name, LogUniform(bounds=[a, b]))
                    self.pri[name] = ('loguniform', a, b)
                else:
                    self.opt.set_prior(name, Uniform(bounds=[a, b]))
                    self.pri[name] = ('uniform', a, b)
            else:
                mean = a
                std = rng.choice([0.125, 0.25, 0.5]) if (space == 'log' or hi - lo < 4) else (hi - lo) / rng.choice([8.0, 16.0])
                if space == 'log':
                    self.opt.set_prior(name, LogGaussian(mean=mean, std=std))
                    self.pri[name] = ('loggauss', mean, std)
                else:
                    self.opt.set_prior(name, Gaussian(mean=mean, std=std))
                    self.pri[name] = ('gauss', mean, std)
        self.opt.compile_params()
        self.fit = [p[0] for p in self.opt.fitting_parameters]      # the optimizer's order
        self.space = {n: s for n, s, _ in cands}               # the parameter's mode
        self.cross = [n for n in self.fit if self.xspace[n] != self.space[n]]
        self.unf = [n for n in self.TRACKED[self.kind] if n not in self.fit]
        self.unf_space = {n: ('log' if self.model.fittingParameters[n][4] == 'log' else 'lin') for n in self.unf}
        self.bound = Bound(sampler, self.opt, tmpdir)

    def grid_point(self, lo, hi):
        n = int(round((hi - lo) * 8))
        return lo + self.rng.randint(0, n) / 8.0

    def kinds(self):
        return [self.pri[n][0] for n in self.fit]

    def par_scaled(self):
        return [[int(round(self.pri[n][1] * S)), int(round(self.pri[n][2] * S))] for n in self.fit]

    def project(self, model):
        out = []
        for n in self.fit:
            v = float(model[n])
            out.append(v if self.pri[n][0] in ('uniform', 'gauss') else safe_log10(v))
        for n in self.unf:
            v = float(model[n])
            out.append(v if self.unf_space[n] == 'lin' else safe_log10(v))
        return [scaled(v) for v in out]

    def random_x(self):
        x = []
        for n in self.fit:
            lo, hi = self.range[n]
            r = self.rng.random()
            sp = self.xspace[n]                                            # space of the prior = of x
            if n in ('H2O', 'CH4') and r < 0.25:                           # mixing ratio near / above unity
                x.append(self.rng.choice([0.0, 0.125, -0.125, 0.5] if sp == 'log' else [1.0, 1.125, 0.875, 1.5]))
            elif n == 'P_point1' and r < 0.2:
                x.append(self.rng.choice([6.0, 6.5, -1.0, -1.5]))          # inverted pressure nodes
            elif n == 'T' and sp == 'lin' and r < 0.12:
                x.append(self.rng.choice([-250.0, 0.0]))                   # NaN in every bin, no exception
            elif n == 'planet_radius' and sp == 'lin' and r < 0.06:
                x.append(-0.5)                                             # NaN in every bin, no exception
            else:
                x.append(self.grid_point(lo, hi))
        return x

    def oracle(self, x, inject):
        """Independent evaluation: second instance, public model[param] = value API, the observation's
        own (second) binner, plain-Python Gaussian.  Returns (outcome, z of the comparable bins, chi2 over them);
        outcome = "ok" | exception class | "NaNAll" (no bin comparable) | "NaNSome"."""
        from taurex.exceptions import InvalidModelException
        for n, xi in zip(self.fit, x):
            self.twin[n] = xi if self.pri[n][0] in ('uniform', 'gauss') else 10.0 ** xi
        if inject == 'raise':
            return 'InvalidModel', None, None
        try:
            g, s, _, _ = self.twin.model(wngrid=self.twin_obs.wavenumberGrid)
            s = np.array(s, dtype=float)
            if inject == 'NaNAll':
                s[:] = np.nan
            elif inject == 'NaNSome':
                s[len(s) // 2:] = np.nan
            binned = self.twin_binner.bindown(g, s)[1]
        except InvalidModelException as e:
            return EXC_NAMES.get(type(e).__name__, 'InvalidModel'), None, None
        if any(math.isinf(float(m)) for m in binned):
            raise Machinery('oracle model gave an infinite bin (outside the generated classes)')
        z = [(float(d) - float(m)) / float(e) for d, m, e in
             zip(self.twin_obs.spectrum, binned, self.twin_obs.errorBar) if float(m) == float(m)]
        if not z:
            return 'NaNAll', None, None
        chi2 = math.fsum(v * v for v in z)
        return ('ok' if len(z) == len(binned) else 'NaNSome'), z, chi2


def safe_log10(v):
    return math.log10(v) if v > 0 else float('nan')


def scaled(v):
    if v != v or abs(v) > 2e5:
        return 999999999
    return int(round(v * S))


def normal_quantile(u):
    if u <= 0.0 or u >= 1.0:
        return None
    return statistics.NormalDist().inv_cdf(u)


def record_trace(ctx, rng, tid, sampler, tmpdir, ncalls, events, pyverdicts):
    w = RealWorld(rng, sampler, tmpdir)
    base = dict(tid=tid, S=S)
    events.append(dict(base, ev='setup', id=len(events), kinds=w.kinds(), par=w.par_scaled(), nfit=len(w.fit),
                       proj=w.project(w.model), sampler=sampler, cross=len(w.cross)))
    cls0 = '%s:%s' % (sampler, w.kind)
    for c in range(ncalls):
        if rng.random() < 0.3:
            den = rng.choice([2, 4, 8, 16])
            u = [Fraction(rng.randint(1, den - 1), den) if w.pri[n][0] in ('gauss', 'loggauss')
                 else Fraction(rng.randint(0, den), den) for n in w.fit]
            try:
                out = w.bound.prior([float(v) for v in u])
            except Exception as e:   # noqa
                pyverdicts.append(('never_raises', False, cls0 + ':prior', 'prior raised %r' % e, tid))
                return
            z = [normal_quantile(float(v)) if w.pri[n][0] in ('gauss', 'loggauss') else 0.0 for v, n in zip(u, w.fit)]
            events.append(dict(base, ev='prior', id=len(events), u=[[v.numerator, v.denominator] for v in u],
                               z=[scaled(v) for v in z], out=[scaled(v) for v in out]))
            # sharp comparison, Python side
            for n, ui, zi, oi in zip(w.fit, u, z, out):
                kind, a, b = w.pri[n]
                exp = (min(a, b) + float(ui) * abs(b - a)) if kind in ('uniform', 'loguniform') else a + b * zi
                pyverdicts.append(('prior_value_1e-9', close(oi, exp, rel=REL, abs_=1e-12),
                                   '%s:prior:%s' % (cls0, kind), 'prior %s(%r,%r) at u=%s: got %r expected %r' %
                                   (kind, a, b, ui, oi, exp), tid))
            continue
        x = w.random_x()
        if c > 2 and rng.random() < 0.15 and w.last_valid_x is not None:
            x = list(w.last_valid_x)                      # revisit a point after other (possibly invalid) calls
        r = rng.random()
        inject = 'raise' if r < 0.1 else 'NaNAll' if r < 0.16 else 'NaNSome' if r < 0.22 else None
        before = w.project(w.model)
        oc, z, chi2 = w.oracle(x, inject)
        w.fault.armed = inject
        try:
            ret = float(w.bound.loglike(x))
            kind = 'num' if math.isfinite(ret) else 'nan'
            exc = None
        except Exception as e:   # noqa
            ret, kind, exc = float('nan'), 'raise', e
        w.fault.armed = None
        after = w.project(w.model)
        big = False
        chi_obs = 0
        zs = []
        if kind == 'num' and oc in ('ok', 'NaNSome'):
            chi_f = -2.0 * (ret - w.C)
            big = max(abs(v) for v in z) > 150 or chi_f > 1e5
            if not big:
                chi_obs = int(round(chi_f * 1e4))
                zs = [int(round(v * 100)) for v in z]
        elif kind == 'num':
            big = True
        events.append(dict(base, ev='like', id=len(events), x=[scaled(v) for v in x], before=before, after=after,
                           oc=oc, ret=kind, chi=chi_obs, zs=zs, big=big))
        label = ('inject-%s:' % inject if inject else '') + ('valid' if oc == 'ok' else oc)
        cls = '%s:%s%s' % (cls0, label, ':cross-space' if w.cross else '')
        if exc is not None:
            pyverdicts.append(('never_raises', False, cls, 'loglike(%r) raised %r' % (x, exc), tid))
            return
        if oc == 'ok':
            exp = w.C - chi2 / 2.0
            pyverdicts.append(('value_1e-9', kind == 'num' and close(ret, exp, rel=REL, abs_=1e-9), cls,
                               'fit=%r priors=%r x=%r got %r expected %r' % (w.fit, w.kinds(), x, ret, exp), tid))
            w.last_valid_x = x
        elif oc == 'NaNSome':
            exp = w.C - chi2 / 2.0
            pyverdicts.append(('partial_nan_skips_or_nan', kind == 'nan' or close(ret, exp, rel=REL, abs_=1e-9), cls,
                               'fit=%r x=%r got %r; accepted: non-finite or %r' % (w.fit, x, ret, exp), tid))
        else:
            pyverdicts.append(('invalid_never_finite', kind == 'nan', cls,
                               'fit=%r x=%r (%s) got %r' % (w.fit, x, oc, ret), tid))


RealWorld.last_valid_x = None


def run_traces(ctx, ntraces, ncalls):
    rng = random.Random(ctx.seed * 6007 + 6)
    tmpdir = tempfile.mkdtemp(prefix='c06_')
    fx.register_opacities()
    events, pyv = [], []
    try:
        for tid in range(ntraces):
            record_trace(ctx, rng, tid, SAMPLERS[tid % 3], tmpdir, ncalls, events, pyv)
    finally:
        shutil.rmtree(tmpdir, ignore_errors=True)
    for clause, ok, cls, detail, tid in pyv:
        ctx.verdict(clause, ok, cls=cls, detail=detail, vector=dict(kind='trace', seed=ctx.seed, tid=tid, ntraces=ntraces, ncalls=ncalls))
    slim = [{k: v for k, v in e.items() if k not in ('sampler', 'cross')} for e in events]
    accepted, bad, res = validate_trace('Trace_Likelihood', 'Trace_Likelihood.cfg', slim)
    ctx.add_tlc('trace', res, counts=False)
    if res.postcondition_false and not bad:
        raise Machinery('trace spec did not consume the whole trace:\n' + res.out[-1500:])
    badt = {b['tid']: b for b in bad}
    setups = {e['tid']: e for e in events if e['ev'] == 'setup'}
    for tid in range(ntraces):
        b = badt.get(tid)
        ev = events[b['id']] if b else None
        ctx.verdict('trace_protocol', b is None, cls='%s:trace:%s' % (setups[tid]['sampler'], b['why'] if b else ''),
                    detail='TLC rejected event %r' % (ev,), vector=dict(kind='trace', seed=ctx.seed, tid=tid, ntraces=ntraces, ncalls=ncalls))
    ctx.traces += ntraces
    nlike = sum(1 for e in events if e['ev'] == 'like')
    ninv = sum(1 for e in events if e['ev'] == 'like' and e['oc'] != 'ok')
    ctx.note('real-model traces: %d traces, %d events (%d loglike, %d invalid/injected, %d prior)' %
             (ntraces, len(events), nlike, ninv, sum(1 for e in events if e['ev'] == 'prior')))
    if ninv < 5 or nlike - ninv < 20:
        raise Machinery('trace generator produced too few valid/invalid calls (%d/%d)' % (nlike - ninv, ninv))
    nall = sum(1 for e in events if e['ev'] == 'like' and e['oc'] == 'NaNAll')
    nsome = sum(1 for e in events if e['ev'] == 'like' and e['oc'] == 'NaNSome')
    ncross = sum(1 for e in events if e['ev'] == 'setup' and e['cross'])
    ctx.note('real-model traces: %d all-NaN calls (no exception), %d partially-NaN calls, %d traces with a prior in the '
             'other space than the parameter mode' % (nall, nsome, ncross))
    if nall < 3 or nsome < 2 or ncross < 3:
        raise Machinery('trace generator: too few all-NaN / partially-NaN calls or cross-space traces (%d/%d/%d)'
                        % (nall, nsome, ncross))
    ctx.add_sample(dict(trace_event=next(e for e in slim if e['ev'] == 'like' and e['ret'] == 'num')))
    # canaries: corrupt one field of accepted events; TLC must reject
    goodl = [e for e in slim if e['ev'] == 'like' and e['tid'] not in badt and e['ret'] == 'num' and not e['big']]
    goodn = [e for e in slim if e['ev'] == 'like' and e['tid'] not in badt and e['ret'] == 'nan' and e['oc'] != 'NaNSome']
    if not goodl or not goodn:
        if any(c['bad'] or c['known'] for c in ctx.clauses.values()):
            ctx.note('canary skipped: no accepted finite/NaN event left (violations already reported)')
            return
        raise Machinery('no event available for the canary')
    for which in ('chi', 'written', 'finite_for_invalid'):
        e0 = goodl[len(goodl) // 2] if which != 'finite_for_invalid' else goodn[len(goodn) // 2]
        tr = [dict(e) for e in slim if e['tid'] == e0['tid'] and e['id'] <= e0['id']]
        c = tr[-1]
        if which == 'chi':
            c['chi'] = c['chi'] * 2 + 4 * (sum(abs(v) for v in c['zs']) + 10)
        elif which == 'written':
            c['after'] = list(c['after'])
            c['after'][0] += 5
        else:
            c['ret'] = 'num'
            c['big'] = True
        ok2, bad2, _ = validate_trace('Trace_Likelihood', 'Trace_Likelihood.cfg', tr)
        if ok2 or not bad2:
            raise Machinery('canary (%s) accepted: trace validation is vacuous' % which)


# ----------------------------------------------------------------------------------------------

def run(ctx):
    q = ctx.tier == 'quick'
    fx.load_optimizers()
    ctx.bounds = dict(
        tier=ctx.tier,
        exhaustive='toy world(s) %s: 2-3 fitted parameters (linear + log prior; "mixed": user priors in the other space '
                   'than the parameter mode, both directions) + 1 unfitted, 2 bins over 4 native points, '
                   'all grid vectors x all injected fault classes (3 exception classes, NaN in all bins, NaN in one bin) '
                   'x all unit-cube grid points, all call sequences'
                   % ('two, mixed' if q else 'two, three, mixed'),
        behaviours='TLC -simulate, depth %d, three samplers, natural + injected invalid models' % (9 if q else 12),
        traces='real TransmissionModel (isothermal / N-point; H2O, CH4), 3-8 random bins, 1-4 fitted parameters, '
               'Uniform/LogUniform/Gaussian/LogGaussian priors (default, same space as the mode, other space), points on '
               'a 1/8 grid; invalid: mixing ratio >= 1, inverted nodes, T <= 0 / negative radius (all-NaN spectrum), '
               'injected exception / all-NaN / partially-NaN optical depth')
    ctx.assumptions = [
        'TLC + CommunityModules Json/IOUtils',
        'recording doubles call the callbacks with the conventions of nestle / PyMultiNest (in-place ctypes cube) / '
        'pypolychord as transcribed from their documentation; the real samplers are not installed',
        'toy ForwardModel and fault-injecting contribution are harness fixtures',
        'oracle of the real-model traces: a second model instance driven through model[param] = value, '
        'a second FluxBinner of the same observation, math.fsum / math.log; statistics.NormalDist for Gaussian priors',
        'FluxBinner itself is the subject of C05, not of this check']
    ctx.check_spec('exhaustive-two', 'MC_Likelihood', 'MC_Likelihood_quick.cfg', need_actions=('PriorCall', 'LogLike'))
    ctx.check_spec('exhaustive-mixed', 'MC_Likelihood', 'MC_Likelihood_mixed.cfg', need_actions=('PriorCall', 'LogLike'))
    if not q:
        ctx.check_spec('exhaustive-three', 'MC_Likelihood', 'MC_Likelihood_thorough.cfg',
                       need_actions=('PriorCall', 'LogLike'))
    # the observation carries fitted parameters (offset, scale): the data side of chi2 follows the vector of THIS call
    ctx.check_spec('exhaustive-obs', 'MC_Likelihood', 'MC_Likelihood_obs.cfg', need_actions=('PriorCall', 'LogLike'))
    ctx.exhaustive = True
    # non-vacuity of the clauses / design-level finding L-C06 (as-built mechanism)
    ctx.expect_refuted('asbuilt-chi2-zero', 'MC_Likelihood', 'MC_Likelihood_asbuilt.cfg', 'ValidEqualsGaussian')
    ctx.expect_refuted('narrow-except', 'MC_Likelihood', 'MC_Likelihood_narrow.cfg', 'NeverRaises')
    # update_model exponentiating by the parameter's mode instead of applying prior.prior (priors in the other space)
    ctx.expect_refuted('write-by-parameter-mode', 'MC_Likelihood', 'MC_Likelihood_bymode.cfg', 'WrittenIsPriorOfX')
    # a model that is NaN in every bin scored as chi2 = 0
    ctx.expect_refuted('all-nan-scored-zero', 'MC_Likelihood', 'MC_Likelihood_allnan.cfg', 'InvalidNeverFinite')
    # chi2 against a copy of the observed spectrum captured when compute_fit starts / read before update_model
    ctx.expect_refuted('observation-frozen-copy', 'MC_Likelihood', 'MC_Likelihood_obsfrozen.cfg', 'ValidEqualsGaussian')
    ctx.expect_refuted('observation-one-call-late', 'MC_Likelihood', 'MC_Likelihood_obslag.cfg', 'ValidEqualsGaussian')
    n = run_behaviours(ctx, 30 if q else 300, 9 if q else 12,
                       ('two', 'mixed', 'obs') if q else ('two', 'three', 'mixed', 'obs'))
    ctx.note('replayed %d simulated behaviours' % n)
    run_traces(ctx, 45 if q else 600, 14 if q else 20)


def replay(ctx, violations):
    fx.load_optimizers()
    seen = set()
    for v in violations:
        vec = v.get('vector') or {}
        if vec.get('kind') == 'behaviour':
            key = repr(vec)
            if key in seen:
                continue
            seen.add(key)
            tmpdir = tempfile.mkdtemp(prefix='c06_')
            try:
                replay_behaviour(ctx, vec['sampler'], dict(layout=vec['layout'], hist=vec['hist']), tmpdir)
            finally:
                shutil.rmtree(tmpdir, ignore_errors=True)
        elif vec.get('kind') == 'trace':
            key = ('trace', vec['seed'])
            if key in seen:
                continue
            seen.add(key)
            ctx.seed = vec['seed']
            run_traces(ctx, vec.get('ntraces', 45), vec.get('ncalls', 14))
