"""C02 -- emission / direct-image spectra equal the documented layered thermal integral.

Spec: spec/Dyad.tla (exact sums of n/d 2^-k), spec/Emission.tla (operators, actions Surface / Layer(l) /
      Integrate / Normalise(kind), clauses), spec/MC_Emission.tla (+cfgs), spec/Trace_Emission.tla.
Binding A: TLC-exported (layer optical depths in ln 2 units, temperature indices, quadrature, exact
      intensity / flux / normalised output as B-sums) replayed into EmissionModel.partial_model(),
      EmissionModel.model() and DirectImageModel.model() with exact per-layer opacities; the Planck
      table is the harness's own plain-Python evaluation.
Binding B: seeded random atmospheres (T-profiles, compositions, opacity magnitudes, layer counts,
      ngauss 1..8, stars, planets, distances) -> isothermal identity, hot/cold bounds, the
      Gauss-Legendre facts and the direct-image proportionality law, each logged event validated by
      TLC (spec/Trace_Emission.tla) + canary.
Correlated-k mode (the statement quantifies over both opacity modes): spec/EmissionK.tla (extends KTable /
      Emission: the same state machine with weight-averaged slant transmittances, no clamp), exhaustive
      configs + expected counterexample (slant factor applied outside the k-sum), exported vectors with
      NON-degenerate coefficients over visible surfaces replayed through pickle k-tables into
      EmissionModel / DirectImageModel, and random k-table atmospheres in binding B.
Binding C (spec/EmissionCalls.tla): TLC-generated walks over the public entry points of ONE long-lived model with three
      opacity sources (model / partial_model / model_contrib / model_full_contrib / bare path_integral: several path
      integrals per initialisation of the star); every path integral compared with the exact documented integral of its
      sub-composition over the stellar blackbody, every array the integrals share (the star's stored spectrum, profiles,
      opacity arrays handed in, quadrature) re-read after every call; expected counterexamples: a shared array rescaled in place.
History independence (spec/Functional.tla, harness/history.py): long-lived Emission / DirectImage models
      whose spectral window (equally long windows passed to model(wngrid=..)), star temperature, planet
      radius, temperature parameter and k-table set change between evaluations equal freshly built ones.
"""
import math
import os
import random
from fractions import Fraction

import numpy as np

from ..core import Machinery, frac, close, validate_trace
from .. import fx_emission as fx
from .. import fx_ktable as fxk
from .. import fx_emcalls as fxc

WN = [800.0, 2500.0]
TK = {1: 600.0, 2: 1100.0, 3: 1700.0}
STAR_T = 5000.0
REL = 1e-9
S_TRACE = 1000000
EXP_M10 = math.exp(-10.0)


def bcols():
    """B[t][w] of the specification filled by the harness's Planck evaluation (per unit pi)."""
    return [dict((t, fx.planck_b(WN[w], TK[t])) for t in TK) for w in range(len(WN))]



def code_raised(ctx, ex, cls, vec):
    """An exception raised by the code under test on a valid configuration is a violation (clause
    evaluates_without_error); an exception raised inside the harness is re-raised (machinery)."""
    import traceback
    if isinstance(ex, Machinery):
        raise ex
    tb = traceback.extract_tb(ex.__traceback__)
    if '/harness/' in tb[-1].filename:
        raise ex
    ctx.verdict('evaluates_without_error', False, cls=cls,
                detail='%s: %s at %s:%s' % (type(ex).__name__, ex, os.path.basename(tb[-1].filename), tb[-1].name), vector=vec)


def cls_of(v):
    return '%s:%s:%s:q%d:n%d' % ('iso' if v['isothermal'] else 'noniso', 'sat' if v['saturated'] else 'unsat',
                                 v['kind'], v['qid'], len(v['e']))


# ----------------------------------------------------------------------------
# binding A
# ----------------------------------------------------------------------------

def check_vector_group(ctx, tp, vecs, cache):
    """All exported vectors with one temperature profile: one emission + one direct-image model."""
    from taurex.cache import OpacityCache
    bc = bcols()
    temps = [TK[t] for t in tp]
    v0 = vecs[0]
    rp, rs, dist, kd = v0['rp'], v0['rs'], v0['dist'], v0['kd']
    fx.reset_all()
    em = fx.Atmos('emission', temps, WN, star_T=STAR_T, rp_over_rs=Fraction(rp, rs))
    di = fx.Atmos('direct', temps, WN, star_T=STAR_T, rp_over_d=Fraction(rp, dist), register=False)
    di.table = em.table
    bstar = [fx.planck_b(w, STAR_T) for w in WN]
    done_I = set()
    for v in vecs:
      try:
        e = v['e']
        cls = cls_of(v)
        em.set_layer_tau(e)
        di.table = em.table
        mu_raw, w_raw = fx.raw_quadrature(v['quad'])
        key = (repr(e), v['qid'])
        if key not in done_I:
            done_I.add(key)
            em.model.set_quadratures(mu_raw, w_raw)
            I, imu, w, _ = em.model.partial_model()
            ok_q = (np.allclose(np.ravel(imu), [q[0] for q in v['quad']], rtol=1e-14) and
                    np.allclose(np.ravel(w), [float(frac(q[1])) for q in v['quad']], rtol=1e-14))
            ctx.verdict('quadrature_mapping', ok_q, cls=cls, detail='1/mu %r w %r' % (np.ravel(imu), np.ravel(w)),
                        vector=dict(v, what='quad'))
            for a in range(len(v['quad'])):
                for wi in range(len(WN)):
                    exp, scale = fx.bsum_float(v['inten'][a][wi], bc[wi])
                    got = float(I[a][wi])
                    ok = abs(got - exp) <= REL * abs(exp)
                    ctx.verdict('intensity_formula', ok, cls=cls,
                                detail='angle 1/mu=%s wn=%s got %r expected %r' % (v['quad'][a][0], WN[wi], got, exp),
                                vector=dict(v, what='intensity', a=a, w=wi))
                    # the property's consequences, on the real numbers
                    lo, hi = bc[wi][v['tmin']], bc[wi][v['tmax']]
                    okb = lo * (1 - 1e-12) <= got <= hi * (1 + (EXP_M10 if v['saturated'] else 0.0) + 1e-12)
                    ctx.verdict('hot_cold_bounds', okb, cls=cls, detail='got %r not in [%r, %r(1+e^-10)]' % (got, lo, hi),
                                vector=dict(v, what='intensity', a=a, w=wi))
        if v['kind'] == 'eclipse':
            em.model.set_quadratures(mu_raw, w_raw)
            _, flux, _, _ = em.model.model()
            for wi in range(len(WN)):
                exp, _ = fx.bsum_float(v['out'][wi], bc[wi])
                # substitute the uninterpreted stellar table entry of the config by the harness's value
                exp = exp * cache['bstar_spec'][wi] / bstar[wi]
                got = float(flux[wi])
                ctx.verdict('eclipse_flux_formula', abs(got - exp) <= REL * abs(exp), cls=cls,
                            detail='wn=%s got %r expected %r' % (WN[wi], got, exp), vector=dict(v, what='eclipse', w=wi))
                if v['isothermal'] and v['weightsok']:
                    ratio = fx.planck_b(WN[wi], temps[0]) / bstar[wi] * (Fraction(rp, rs) ** 2)
                    r = got / float(ratio)
                    oki = 1 - 1e-12 <= r <= 1 + (EXP_M10 if v['saturated'] else 0.0) + 1e-12
                    ctx.verdict('isothermal_identity', oki, cls=cls, detail='flux/blackbody ratio = %r' % r,
                                vector=dict(v, what='eclipse', w=wi))
        else:
            di.model.set_quadratures(mu_raw, w_raw)
            _, dflux, _, _ = di.model.model()
            for wi in range(len(WN)):
                fl, _ = fx.bsum_float(v['flux'][wi], bc[wi])
                # law: direct / (2 pi F Rp^2 / d^2) is one constant (not pinned)
                denom = 2.0 * math.pi * fl * (di.rp_m / di.d_m) ** 2
                cache['direct_ratios'].append((float(dflux[wi]) / denom, cls, dict(v, what='direct', w=wi)))
      except Exception as ex:
        code_raised(ctx, ex, 'vector:' + cls_of(v), dict(v, what='raise'))
    ctx.add_sample(dict(vector=dict(e=v0['e'], tp=tp, quad=v0['quad'], kind=v0['kind'],
                                    intensity_terms=v0['inten'][0][0])))


def run_vectors(ctx, cfg, label, ratios):
    res = ctx.check_spec('export-' + label, 'MC_Emission', cfg, workers=1, deque=True)
    vecs = res.tagged('VEC')
    if not vecs:
        raise Machinery('no vectors exported by ' + cfg)
    groups = {}
    for v in vecs:
        groups.setdefault(tuple(v['tp']), []).append(v)
    cache = dict(bstar_spec=[7, 11], direct_ratios=ratios)
    for tp, g in sorted(groups.items()):
        check_vector_group(ctx, list(tp), g, cache)
    fx.reset_all()
    return len(vecs)


def finish_direct_law(ctx, ratios):
    if not ratios:
        return
    ref = sorted(r for r, _, _ in ratios)[len(ratios) // 2]
    ok_ref = ref > 0 and math.isfinite(ref)
    for r, cls, vec in ratios:
        ctx.verdict('direct_image_proportional', ok_ref and abs(r - ref) <= REL * abs(ref), cls=cls,
                    detail='direct/(flux Rp^2/d^2) = %r, median %r' % (r, ref), vector=vec)


# ----------------------------------------------------------------------------
# binding A in correlated-k mode (spec/EmissionK.tla)
# ----------------------------------------------------------------------------

def kcls_of(v):
    return 'ktable:%s:%s:%s:%s:q%d:n%d:ng%d' % ('iso' if v['isothermal'] else 'noniso', 'visible' if v['visible'] else 'opaque',
                                               'degenerate' if v['degenerate'] else 'generic', v['kind'], v['qid'],
                                               len(v['kk']), v['ng'])


def check_kvector_group(ctx, d, tp, vecs, cache):
    """All exported k-table vectors with one temperature profile: one emission + one direct-image model, both
    constructed and evaluated under opacity_method='ktables' on a pickle table written per vector."""
    nw = len(vecs[0]['kk'][0])
    ng = vecs[0]['ng']
    wn = WN[:nw]
    bc = bcols()
    temps = [TK[t] for t in tp]
    v0 = vecs[0]
    rp, rs, dist = v0['rp'], v0['rs'], v0['dist']
    fx.reset_all()
    em = fxk.KAtmos(d, 'emission', temps, wn, ng, star_T=STAR_T, rp_over_rs=Fraction(rp, rs), with_grey=True)
    di = fxk.KAtmos(d, 'direct', temps, wn, ng, star_T=STAR_T, rp_over_d=Fraction(rp, dist), with_grey=True)
    bstar = [fx.planck_b(w, STAR_T) for w in wn]
    done = {}
    for v in vecs:
      cls = kcls_of(v)
      try:
        key = (repr(v['kk']), repr(v['c']), v['wid'], v['qid'])
        if key not in done:
            em.write(v['kk'], [float(frac(x)) for x in v['wts']])
            em.set_grey(v['c'])
            di.set_grey(v['c'])
            mu_raw, w_raw = fx.raw_quadrature(v['quad'])
            em.model.set_quadratures(mu_raw, w_raw)
            di.model.set_quadratures(mu_raw, w_raw)
            I, imu, w, _ = em.model.partial_model()
            _, flux, _, _ = em.model.model()
            _, dflux, _, _ = di.model.model()
            done[key] = (np.array(I), np.array(flux), np.array(dflux))
            for a in range(len(v['quad'])):
                for wi in range(nw):
                    exp, _ = fx.bsum_float(v['kint'][a][wi], bc[wi])
                    got = float(I[a][wi])
                    ctx.verdict('intensity_formula', abs(got - exp) <= REL * abs(exp), cls=cls,
                                detail='k-table mode, angle 1/mu=%s wn=%s got %r expected %r' % (v['quad'][a][0], wn[wi], got, exp),
                                vector=dict(v, what='kintensity', a=a, w=wi))
                    lo, hi = bc[wi][v['tmin']], bc[wi][v['tmax']]       # no clamp in this branch: no slack
                    ctx.verdict('hot_cold_bounds', lo * (1 - 1e-12) <= got <= hi * (1 + 1e-12), cls=cls,
                                detail='k-table mode, got %r not in [%r, %r]' % (got, lo, hi), vector=dict(v, what='kintensity', a=a, w=wi))
        I, flux, dflux = done[key]
        if v['kind'] == 'eclipse':
            for wi in range(nw):
                exp, _ = fx.bsum_float(v['out'][wi], bc[wi])
                exp = exp * cache['bstar_spec'][wi] / bstar[wi]
                got = float(flux[wi])
                ctx.verdict('eclipse_flux_formula', abs(got - exp) <= REL * abs(exp), cls=cls,
                            detail='k-table mode, wn=%s got %r expected %r' % (wn[wi], got, exp), vector=dict(v, what='keclipse', w=wi))
                if v['isothermal'] and v['weightsok']:
                    ratio = fx.planck_b(wn[wi], temps[0]) / bstar[wi] * (Fraction(rp, rs) ** 2)
                    r = got / float(ratio)
                    ctx.verdict('isothermal_identity', 1 - 1e-12 <= r <= 1 + 1e-12, cls=cls,
                                detail='k-table mode, flux/blackbody ratio = %r' % r, vector=dict(v, what='keclipse', w=wi))
        else:
            for wi in range(nw):
                fl, _ = fx.bsum_float(v['flux'][wi], bc[wi])
                denom = 2.0 * math.pi * fl * (di.a.rp_m / di.a.d_m) ** 2
                cache['direct_ratios'].append((float(dflux[wi]) / denom, cls, dict(v, what='kdirect', w=wi)))
      except Exception as ex:
        code_raised(ctx, ex, 'vector:' + cls, dict(v, what='kraise'))
        fx.set_mode('xsec')
    ctx.add_sample(dict(vector=dict(kk=v0['kk'], wts=v0['wts'], c=v0['c'], tp=tp, quad=v0['quad'], kind=v0['kind'],
                                    intensity_terms=v0['kint'][0][0])))


def run_kvectors(ctx, cfg, label, ratios):
    res = ctx.check_spec('export-' + label, 'MC_EmissionK', cfg, workers=1, deque=True)
    vecs = res.tagged('VEC')
    # what makes the position of the slant factor observable: coefficients that differ across the points,
    # a surface that is still seen, an angle with 1/mu > 1
    sharp = [v for v in vecs if v['visible'] and not v['degenerate'] and any(q[0] > 1 for q in v['quad'])]
    if len(sharp) < 20 or not any(v['isothermal'] for v in sharp):
        raise Machinery('%s exports too few non-degenerate vectors with a visible surface (%d)' % (cfg, len(sharp)))
    groups = {}
    for v in vecs:
        groups.setdefault((tuple(v['tp']), v['ng'], len(v['kk'][0])), []).append(v)
    cache = dict(bstar_spec=[7, 11], direct_ratios=ratios)
    with fx.TempDir() as d:
        for (tp, ng, nw), g in sorted(groups.items()):
            check_kvector_group(ctx, d, list(tp), g, cache)
    fx.reset_all()
    return len(vecs)


# ----------------------------------------------------------------------------
# binding C: call walks on ONE long-lived model (spec/EmissionCalls.tla)
# ----------------------------------------------------------------------------

ENTRY_NAME = dict(model='model()', partial='partial_model()', contrib='model_contrib()', fullc='model_full_contrib()',
                  path='path_integral()')


def shape_ok(got, shape):
    return got is not None and getattr(got, 'shape', None) == tuple(shape)


def check_shared(ctx, before, a_model, given, grid, star_T, cls, vec, star_initialised=True):
    """After a public call: every array the path integrals share is what it was (private copies / re-read
    properties), and the star still exposes the stellar blackbody on the grid of the evaluation."""
    bad = fxc.changed_inputs(before, a_model, given)
    ctx.verdict('shared_inputs_read_only', not bad, cls=cls + (':' + ','.join(bad)[:80] if bad else ''),
                detail='arrays shared by the path integrals changed during the call: %s' % ', '.join(bad), vector=vec)
    if star_initialised:
        ok, detail = fxc.star_is_blackbody(a_model, grid, star_T)
        ctx.verdict('shared_inputs_read_only', ok, cls=cls + ('' if ok else ':star_sed'),
                    detail='after the call the star does not hold the stellar blackbody: ' + detail, vector=vec)


def check_walk_group(ctx, kind, tp, sid, walks, cache):
    """All exported walks of one (model class, temperature profile, source set): ONE model object, the walks
    replayed one after the other (their concatenation is a behaviour of the specification for a larger MaxCalls:
    no walk starts with path_integral)."""
    bc = bcols()
    temps = [TK[t] for t in tp]
    w0 = walks[0]
    rp, rs, dist, kd = w0['rp'], w0['rs'], w0['dist'], w0['kd']
    fx.reset_all()
    mkind = 'emission' if kind == 'eclipse' else 'direct'
    a = fxc.SourceAtmos(mkind, temps, WN, star_T=STAR_T, rp_over_rs=Fraction(rp, rs), rp_over_d=Fraction(rp, dist))
    a.set_sources(w0['src'])
    m = a.model
    bstar = [fx.planck_b(w, STAR_T) for w in WN]
    nm = len(a.mols)
    for wk in walks:
        vec0 = dict(calls_walk=True, kind=kind, tp=tp, sid=sid, qid=wk['qid'], calls=wk['calls'])
        trail = []
        last_grid = None
        try:
            mu_raw, w_raw = fx.raw_quadrature(wk['quad'])
            m.set_quadratures(mu_raw, w_raw)
            na = len(wk['quad'])
            for ci, entry in enumerate(wk['calls']):
                trail.append(entry)
                logs = [r for r in wk['log'] if r['call'] == ci + 1]
                groups = [(fxc.GREY if min(r['sub']) > nm else 'Absorption') for r in logs] if entry == 'contrib' else []
                comps = [((fxc.GREY, 'grey') if r['sub'][0] > nm else ('Absorption', a.mols[r['sub'][0] - 1])) for r in logs] \
                    if entry == 'fullc' else []
                base = 'calls:%s:%s' % (kind, '>'.join(trail))
                vec = dict(vec0, call=ci)
                before = fxc.exposed(m)
                o = fxc.run_entry(m, entry, last_grid, groups, comps)
                if len(o.items) != len(logs):
                    raise Machinery('walk %r: the specification logs %d path integrals for %s, the harness ran %d'
                                    % (wk['calls'], len(logs), entry, len(o.items)))
                last_grid = o.grid
                gok = o.grid is not None and np.asarray(o.grid).shape == (len(WN),) and np.allclose(o.grid, WN, rtol=0, atol=0)
                check_shared(ctx, before, m, a.given, WN, STAR_T, base, vec)
                for r, (label, got) in zip(logs, o.items):
                    sub = '+'.join(a.names_of(r['sub']))
                    cls = '%s:%s[%s]:%s:%s' % (base, entry, sub, 'iso' if wk['isothermal'] else 'noniso', 'sat' if r['sat'] else 'unsat')
                    v = dict(vec, sub=r['sub'])
                    if entry == 'partial':
                        if not (gok and shape_ok(got, (na, len(WN)))):
                            ctx.verdict('intensity_formula', False, cls=cls, detail='%s returned %r on grid %r' % (label, got, o.grid), vector=v)
                            continue
                        for ai in range(na):
                            for wi in range(len(WN)):
                                exp, _ = fx.bsum_float(r['res'][ai][wi], bc[wi])
                                g_ = float(got[ai][wi])
                                ctx.verdict('intensity_formula', abs(g_ - exp) <= REL * abs(exp), cls=cls,
                                            detail='%s after %s: angle 1/mu=%s wn=%s got %r expected %r'
                                                   % (label, ' '.join(trail[:-1]) or 'construction', wk['quad'][ai][0], WN[wi], g_, exp), vector=v)
                        continue
                    if not (gok and shape_ok(got, (len(WN),))):
                        ctx.verdict('eclipse_flux_formula' if kind == 'eclipse' else 'direct_image_proportional', False, cls=cls,
                                    detail='%s returned %r on grid %r' % (label, got, o.grid), vector=v)
                        continue
                    for wi in range(len(WN)):
                        exp, _ = fx.bsum_float(r['res'][wi], bc[wi])
                        g_ = float(got[wi])
                        if kind == 'eclipse':
                            exp = exp * cache['bstar_spec'][wi] / bstar[wi]
                            ctx.verdict('eclipse_flux_formula', abs(g_ - exp) <= REL * abs(exp), cls=cls,
                                        detail='%s after %s: wn=%s got %r, documented integral of the sources {%s} over the stellar blackbody %r'
                                               % (label, ' '.join(trail[:-1]) or 'construction', WN[wi], g_, sub, exp), vector=v)
                            lo = bc[wi][wk['tmin']] / bstar[wi] * float(Fraction(rp, rs) ** 2)
                            hi = bc[wi][wk['tmax']] / bstar[wi] * float(Fraction(rp, rs) ** 2)
                            if wk['weightsok']:
                                slack = EXP_M10 if r['sat'] else 0.0
                                ctx.verdict('hot_cold_bounds', lo * (1 - 1e-12) <= g_ <= hi * (1 + slack + 1e-12), cls=cls,
                                            detail='%s: wn=%s got %r not in [%r, %r(1+e^-10)]' % (label, WN[wi], g_, lo, hi), vector=v)
                                if wk['isothermal']:
                                    q_ = g_ / lo
                                    ctx.verdict('isothermal_identity', 1 - 1e-12 <= q_ <= 1 + slack + 1e-12, cls=cls,
                                                detail='%s of an isothermal atmosphere (sources {%s}): flux/blackbody ratio = %r' % (label, sub, q_), vector=v)
                        else:
                            # out = 2 F Rp^2 / (KD d^2) in the specification: F = out KD d^2 / (2 Rp^2)
                            fl = exp * kd * dist * dist / (2.0 * rp * rp)
                            denom = 2.0 * math.pi * fl * (a.rp_m / a.d_m) ** 2
                            cache['direct_ratios'].append((g_ / denom, cls, v))
        except fxc.BadReturn as ex:
            ctx.verdict('evaluates_without_error', False, cls='calls:%s:%s' % (kind, '>'.join(trail)), detail=str(ex), vector=dict(vec0, what='raise'))
        except Exception as ex:
            code_raised(ctx, ex, 'calls:%s:%s' % (kind, '>'.join(trail)), dict(vec0, what='raise'))
    ctx.traces += len(walks)


def run_calls(ctx, cfg, label, ratios, only=None):
    res = ctx.check_spec('calls-' + label, 'MC_EmissionCalls', cfg, workers=1, deque=True)
    walks = res.tagged('WALK')
    if cfg == 'MC_EmissionCalls_quick.cfg':
        call_walks(ctx, res)
    # what makes a write to a shared array observable: a second path integral after ONE initialisation of the star
    multi = [w for w in walks if any(c in ('contrib', 'fullc', 'path') for c in w['calls'])]
    if len(multi) < 10 or not any('path' in w['calls'] for w in walks) or not any(w['isothermal'] for w in multi):
        raise Machinery('%s exports too few walks with several path integrals per initialisation (%d of %d)' % (cfg, len(multi), len(walks)))
    groups = {}
    for w in walks:
        groups.setdefault((w['kind'], tuple(w['tp']), w['sid']), []).append(w)
    cache = dict(bstar_spec=[7, 11], direct_ratios=ratios)
    for (kind, tp, sid), g in sorted(groups.items()):
        if only is not None and (kind, list(tp), sid) != only:
            continue
        check_walk_group(ctx, kind, list(tp), sid, g, cache)
    ctx.add_sample(dict(walk=dict(calls=walks[0]['calls'], kind=walks[0]['kind'], tp=walks[0]['tp'], src=walks[0]['src'],
                                  first_path=dict(sub=walks[0]['log'][0]['sub'], terms=walks[0]['log'][0]['res'][0]))))
    fx.reset_all()
    return len(walks)



def check_planck(ctx):
    """Separate clause: the repository's black_body against the harness's table (1e-10)."""
    from taurex.util.emission import black_body
    wn = np.array([200.0, 800.0, 2500.0, 9000.0, 25000.0])
    for T in (300.0, 600.0, 1100.0, 1700.0, 3000.0, 5000.0, 6500.0):
        got = black_body(wn, T)
        for i, w in enumerate(wn):
            exp = fx.planck_flux(w, T)
            ctx.verdict('planck_table', close(got[i], exp, rel=1e-10), cls='planck', detail='wn=%s T=%s got %r expected %r' % (w, T, got[i], exp),
                        vector=dict(what='planck', wn=float(w), T=T))


# ----------------------------------------------------------------------------
# binding B
# ----------------------------------------------------------------------------

def random_atmos(rng, kind, iso):
    """Random layer count, temperatures, opacity magnitudes (transparent .. saturated), star, planet."""
    n = rng.randint(2, 30)
    nw = rng.randint(2, 5)
    wn = sorted(rng.uniform(300.0, 9000.0) for _ in range(nw))
    if iso:
        temps = [rng.uniform(300.0, 2500.0)] * n
    else:
        style = rng.random()
        if style < 0.4:
            temps = [rng.uniform(300.0, 2500.0) for _ in range(n)]
        elif style < 0.7:   # inversion-free decreasing
            t0 = rng.uniform(800.0, 2500.0)
            temps = [t0 * (1.0 - 0.6 * i / n) for i in range(n)]
        else:               # thermal inversion
            t0 = rng.uniform(400.0, 1200.0)
            temps = [t0 * (1.0 + 0.9 * i / n) for i in range(n)]
    a = fx.Atmos(kind, temps, wn, star_T=rng.uniform(3000.0, 7000.0), mix=10 ** rng.uniform(-6, -2),
                 planet_radius=rng.uniform(0.3, 2.0), planet_mass=rng.uniform(0.3, 3.0),
                 star_radius=rng.uniform(0.3, 2.0), distance=rng.uniform(1.0, 50.0),
                 pmin=10 ** rng.uniform(-2, 1), pmax=10 ** rng.uniform(4, 6.5), ngauss=rng.randint(1, 8),
                 with_grey=rng.random() < 0.4)
    mag = rng.choice([0.0, 1e-3, 0.1, 1.0, 1.0, 3.0, 20.0, 60.0])
    e = [[mag * rng.choice([0.0, 0.2, 1.0, 1.7]) * rng.uniform(0.5, 1.5) for _ in range(nw)] for _ in range(n)]
    a.set_layer_tau(e)
    tot = np.sum(np.array(e), axis=0) * fx.LN2
    a.tau_of = {'Absorption': tot.copy()}           # per contribution (sub-composition) column depth
    if a.grey is not None:
        c = [[rng.choice([0.0, 0.05, 0.5]) * rng.uniform(0.5, 1.5) for _ in range(nw)] for _ in range(n)]
        a.set_grey_tau(c)
        a.tau_of['LayerGrey'] = np.sum(np.array(c), axis=0) * fx.LN2
        tot = tot + a.tau_of['LayerGrey']
    a.total_tau = tot
    a.saturated = bool(tot.min() >= 10.0 - 1e-9)
    a.maybe_saturated = bool(tot.min() >= 10.0 - 1e-6)
    return a


def scaled(x):
    m = int(round(x * S_TRACE))
    if abs(m) >= 2 ** 30:
        return 2 ** 30 - 1 if m > 0 else -(2 ** 30 - 1)
    return m


def random_katmos(rng, path, kind, iso):
    """Random atmosphere in correlated-k mode: 2..12 layers, 1..6 quadrature points, coefficients that differ
    across the points by up to three decades, columns from transparent (surface seen) to opaque."""
    n = rng.randint(2, 12)
    nw = rng.randint(2, 4)
    ngk = rng.randint(1, 6)
    wn = sorted(rng.uniform(300.0, 9000.0) for _ in range(nw))
    temps = [rng.uniform(300.0, 2500.0)] * n if iso else [rng.uniform(300.0, 2500.0) for _ in range(n)]
    k = fxk.KAtmos(path, kind, temps, wn, ngk, star_T=rng.uniform(3000.0, 7000.0), mix=10 ** rng.uniform(-6, -2),
                   planet_radius=rng.uniform(0.3, 2.0), planet_mass=rng.uniform(0.3, 3.0),
                   star_radius=rng.uniform(0.3, 2.0), distance=rng.uniform(1.0, 50.0),
                   pmin=10 ** rng.uniform(-2, 1), pmax=10 ** rng.uniform(4, 6.5), ngauss=rng.randint(1, 8),
                   with_grey=rng.random() < 0.4)
    if rng.random() < 0.4:
        wts = [float(x) / 2.0 for x in np.polynomial.legendre.leggauss(ngk)[1]]
    else:
        r = [rng.uniform(0.05, 1.0) for _ in range(ngk)]
        wts = [x / sum(r) for x in r]
    mag = rng.choice([1e-3, 0.05, 0.3, 1.0, 1.0, 3.0, 12.0])
    spread = rng.choice([0.0, 1.0, 2.0, 3.0])
    kk = [[[mag * rng.choice([0.0, 0.3, 1.0, 2.5]) * rng.uniform(0.2, 1.8) * 10 ** (spread * ((g + 0.5) / ngk - 0.5))
            for g in range(ngk)] for _ in range(nw)] for _ in range(n)]
    k.write(kk, wts)
    if k.grey is not None:
        k.set_grey([[rng.choice([0.0, 0.05, 0.5]) * rng.uniform(0.5, 1.5) for _ in range(nw)] for _ in range(n)])
    a = k.a
    a.saturated = a.maybe_saturated = False        # the k-table branch never clamps: no slack
    return a


_CALL_WALKS = {}


def call_walks(ctx=None, res=None):
    """The call sequences exported by TLC from spec/EmissionCalls.tla (quick config), once per process."""
    if 'w' not in _CALL_WALKS:
        if res is None:
            from ..core import run_tlc
            res = run_tlc('MC_EmissionCalls', 'MC_EmissionCalls_quick.cfg', workers=1, deque=True)
            if ctx is not None:
                ctx.add_tlc('calls-walks', res, counts=False)
        seqs = sorted({tuple(w['calls']) for w in res.tagged('WALK')})
        if len(seqs) < 8:
            raise Machinery('MC_EmissionCalls_quick.cfg exports only %d call sequences' % len(seqs))
        _CALL_WALKS['w'] = seqs
    return _CALL_WALKS['w']


def replay_calls_on_random(ctx, a, kind, kmode, iso, calls, add, vec, cls0, r0):
    """Binding B over the entry points: one TLC-generated call sequence on the SAME random model that has just been
    evaluated.  Every path integral it runs is the spectrum of an atmosphere (the whole composition, one contribution,
    one component): hot/cold bounds and the isothermal identity for each (events validated by Trace_Emission), and
    the shared arrays are re-read after every call."""
    m = a.model
    names = ['Absorption'] + (['LayerGrey'] if a.grey is not None else [])
    comps = [('Absorption', a.mol)] + ([('LayerGrey', 'grey')] if a.grey is not None else [])
    given = dict(('opacity[%s][%r]' % (a.mol, k), (v, np.array(v, dtype=float, copy=True))) for k, v in a.table.items())
    if a.grey is not None:
        given['sigma[LayerGrey]'] = (a.grey.table, np.array(a.grey.table, dtype=float, copy=True))
    tmin, tmax = min(a.temps), max(a.temps)
    blo = np.array([fx.planck_b(x, tmin) for x in a.wn])
    bhi = np.array([fx.planck_b(x, tmax) for x in a.wn])
    if kind == 'emission':
        geo = (a.rp_m / a.rs_m) ** 2
        unit = geo / np.array([fx.planck_b(x, a.star_T) for x in a.wn])          # out = 2F * unit
    else:
        unit = np.asarray(r0, dtype=float) * math.pi * (a.rp_m / a.d_m) ** 2     # calibrated on this model's own full evaluation
    trail, last_grid = [], a.wn
    for ci, entry in enumerate(calls):
        trail.append(entry)
        base = 'calls:%s%s:%s' % ('ktable:' if kmode else '', kind, '>'.join(trail))
        v = dict(vec, calls=list(calls), call=ci)
        before = fxc.exposed(m)
        o = fxc.run_entry(m, entry, last_grid, names, comps)
        last_grid = o.grid
        check_shared(ctx, before, m, given, a.wn, a.star_T, base, v)
        subs = {'contrib': names, 'fullc': names}.get(entry, [None])
        for sub, (label, got) in zip(subs, o.items):
            tau = None if kmode else (a.total_tau if sub is None else a.tau_of.get(sub))
            maybe = (not kmode) and tau is not None and bool(np.min(tau) >= 10.0 - 1e-6)
            cls = '%s:%s[%s]:%s:%s' % (base, entry, sub or 'all', 'iso' if iso else 'noniso', 'sat' if maybe else 'unsat')
            shape = (len(m._mu_quads), len(a.wn)) if entry == 'partial' else (len(a.wn),)
            if not shape_ok(got, shape):
                ctx.verdict('hot_cold_bounds', False, cls=cls, detail='%s returned %r' % (label, got), vector=v)
                continue
            val = got if entry == 'partial' else got / unit          # intensity, or 2F = sum of w mu I over sum w mu
            lo, hi = float(np.min(val / blo)), float(np.max(val / bhi))
            if not (math.isfinite(lo) and math.isfinite(hi)):
                ctx.verdict('hot_cold_bounds', False, cls=cls, detail='%s returned %r' % (label, got), vector=v)
                continue
            add(dict(ev='bounds', lo=scaled(lo), hi=scaled(hi), S=S_TRACE, sat=1 if maybe else 0, iso=0), cls,
                '%s after %s: value/cold >= %r, value/hot <= %r' % (label, ' '.join(trail[:-1]) or 'model()', lo, hi), v)
            if iso:
                top = float(np.max(val / blo))
                ok = lo >= 1 - 1e-12 and top <= 1 + (EXP_M10 if maybe else 0.0) + 1e-12
                ctx.verdict('isothermal_identity', ok, cls=cls,
                            detail='%s of an isothermal atmosphere after %s: value / blackbody ratio in [%r, %r]'
                                   % (label, ' '.join(trail[:-1]) or 'model()', lo, top), vector=v)



def run_traces(ctx, n_models, n_k=0):
    with fx.TempDir() as kpath:
        _run_traces(ctx, n_models, n_k, kpath)


def _run_traces(ctx, n_models, n_k, kpath):
    rng = random.Random(ctx.seed * 104729 + 2)
    krng = random.Random(ctx.seed * 104729 + 7)
    wrng = random.Random(ctx.seed * 104729 + 13)
    seqs = call_walks(ctx)
    events, meta = [], {}
    direct = []

    def add(ev, cls, detail, vec):
        ev['id'] = len(events)
        events.append(ev)
        meta[ev['id']] = (cls, detail, vec)

    for i in range(n_models + n_k):
        fx.reset_all()
        kmode = i >= n_models
        if kmode:
            j = i - n_models
            iso = (j % 2 == 0)
            kind = 'direct' if j % 4 == 3 else 'emission'
            vec = dict(trace=True, kmode=True, model_index=j, seed=ctx.seed)
        else:
            iso = (i % 2 == 0)
            kind = 'direct' if i % 5 == 4 else 'emission'
            vec = dict(trace=True, model_index=i, seed=ctx.seed)
        try:
            a = random_katmos(krng, kpath, kind, iso) if kmode else random_atmos(rng, kind, iso)
            m = a.model
            ng = len(m._mu_quads)
            # "integrated over emission angle by Gauss-Legendre quadrature" with the number of points asked for
            ctx.verdict('quadrature_points_as_requested', ng == a.ngauss, cls='quad:%s:ngauss%d' % (kind, a.ngauss),
                        detail='%s model constructed with ngauss=%d integrates over %d angles' % (kind, a.ngauss, ng), vector=vec)
            # Gauss-Legendre facts of the quadrature actually used by this model
            mu = [float(x) for x in m._mu_quads]
            wq = [float(x) for x in m._wi_quads]
            add(dict(ev='quad', mu=[int(round(x * 10000)) for x in mu], w=[int(round(x * 10000)) for x in wq], S=10000),
                'quad:ngauss%d' % ng, 'mu=%r w=%r' % (mu, wq), vec)
            # sharp, on the floats themselves: exactness for polynomials of degree <= 2n-1 on [0,1]
            okq = all(0.0 < x < 1.0 for x in mu)
            for k in range(2 * ng):
                s = sum(Fraction(w_) * Fraction(x) ** k for x, w_ in zip(mu, wq))
                okq = okq and abs(float(s) - 1.0 / (k + 1)) <= 1e-13
            ctx.verdict('gauss_legendre_exact_degree', okq, cls='quad:ngauss%d' % ng, detail='mu=%r w=%r' % (mu, wq), vector=vec)
            I, imu, w, _ = m.partial_model()
            _, out, _, _ = m.model()
            slack = 1 if a.maybe_saturated else 0
            cls0 = '%s%s:%s:%s:ngauss%d' % ('ktable:' if kmode else '', 'iso' if iso else 'noniso', 'sat' if a.saturated else 'unsat', kind, ng)
            tmin, tmax = min(a.temps), max(a.temps)
            rI_lo, rI_hi, rF_lo, rF_hi = [], [], [], []
            twoF = 2.0 * np.sum(I * (w / imu), axis=0)      # per unit pi: flux_total / pi, from the model's own I
            for wi, wnv in enumerate(a.wn):
                blo, bhi = fx.planck_b(wnv, tmin), fx.planck_b(wnv, tmax)
                for ai in range(I.shape[0]):
                    rI_lo.append(float(I[ai][wi]) / blo)
                    rI_hi.append(float(I[ai][wi]) / bhi)
                if kind == 'emission':
                    bs = fx.planck_b(wnv, a.star_T)
                    geo = (a.rp_m / a.rs_m) ** 2
                    rF_lo.append(float(out[wi]) / (blo / bs * geo))
                    rF_hi.append(float(out[wi]) / (bhi / bs * geo))
                else:
                    direct.append((float(out[wi]) / (math.pi * twoF[wi] * (a.rp_m / a.d_m) ** 2), cls0, vec))
            # one event per model: extreme ratios (min of value/cold, max of value/hot)
            add(dict(ev='bounds', lo=scaled(min(rI_lo)), hi=scaled(max(rI_hi)), S=S_TRACE, sat=slack, iso=0),
                cls0 + ':intensity', 'I/B_cold >= %r, I/B_hot <= %r' % (min(rI_lo), max(rI_hi)), vec)
            if kind == 'emission':
                add(dict(ev='bounds', lo=scaled(min(rF_lo)), hi=scaled(max(rF_hi)), S=S_TRACE, sat=slack, iso=0),
                    cls0 + ':flux', 'F/ratio_cold >= %r, F/ratio_hot <= %r' % (min(rF_lo), max(rF_hi)), vec)
            if iso:
                add(dict(ev='bounds', lo=scaled(min(rI_lo)), hi=scaled(max(rI_lo)), S=S_TRACE, sat=slack, iso=1),
                    cls0 + ':intensity_identity', 'I/B in [%r, %r]' % (min(rI_lo), max(rI_lo)), vec)
                # sharp (1e-12), on the floats
                lo_ok = min(rI_lo) >= 1 - 1e-12 and max(rI_lo) <= 1 + (EXP_M10 if a.maybe_saturated else 0.0) + 1e-12
                ctx.verdict('isothermal_identity', lo_ok, cls=cls0, detail='I/B in [%r, %r]' % (min(rI_lo), max(rI_lo)), vector=vec)
                if kind == 'emission':
                    f_ok = min(rF_lo) >= 1 - 1e-12 and max(rF_lo) <= 1 + (EXP_M10 if a.maybe_saturated else 0.0) + 1e-12
                    ctx.verdict('isothermal_identity', f_ok, cls=cls0, detail='flux/(B(T)/B(T*)(Rp/Rs)^2) in [%r, %r]' % (min(rF_lo), max(rF_lo)), vector=vec)
                    add(dict(ev='bounds', lo=scaled(min(rF_lo)), hi=scaled(max(rF_lo)), S=S_TRACE, sat=slack, iso=1),
                        cls0 + ':flux_identity', 'flux ratio in [%r, %r]' % (min(rF_lo), max(rF_lo)), vec)
            calls = seqs[wrng.randrange(len(seqs))]
            r0 = None if kind == 'emission' else np.asarray(out, dtype=float) / (math.pi * twoF * (a.rp_m / a.d_m) ** 2)
            replay_calls_on_random(ctx, a, kind, kmode, iso, calls, add, vec, cls0, r0)
        except fxc.BadReturn as ex:
            ctx.verdict('evaluates_without_error', False, cls='trace:model', detail=str(ex), vector=vec)
        except Exception as ex:
            code_raised(ctx, ex, 'trace:model', vec)
    # direct-image law as one stateful trace: every ratio equals the first one
    if direct:
        for r, cls0, vec in direct:
            add(dict(ev='direct', r=scaled(r), S=S_TRACE), cls0 + ':direct_law', 'direct/(pi 2F Rp^2/d^2) = %r' % r, vec)
        finish_direct_law(ctx, direct)
    fx.reset_all()
    if not events:
        if ctx.clauses.get('evaluates_without_error', {}).get('bad'):
            return          # every model raised: already reported as violations
        raise Machinery('no trace event was recorded')
    accepted, bad, res = validate_trace('Trace_Emission', 'Trace_Emission.cfg', events)
    ctx.add_tlc('trace-emission', res, counts=False)
    if res.postcondition_false and not bad:
        raise Machinery('Trace_Emission did not consume the whole trace:\n' + res.out[-1500:])
    badids = {b['id'] for b in bad}
    ctx.traces += len(events)
    for ev in events:
        cls, detail, vec = meta[ev['id']]
        ctx.verdict('trace_' + ev['ev'], ev['id'] not in badids, cls=cls, detail='TLC rejected event %r (%s)' % (ev, detail), vector=vec)
    ctx.add_sample(dict(trace_event=events[1]))
    # canary
    good = [e for e in events if e['id'] not in badids and e['ev'] == 'bounds']
    if not good:
        raise Machinery('no event available for the canary')
    c = dict(good[len(good) // 2])
    c['lo'] = c['lo'] - 5000 if c['lo'] <= c['S'] + 10 else c['S'] - 5000
    ok2, bad2, _ = validate_trace('Trace_Emission', 'Trace_Emission.cfg', [c])
    if ok2 or not bad2:
        raise Machinery('canary accepted: Trace_Emission is vacuous')
    q = dict([e for e in events if e['ev'] == 'quad'][0])
    q['w'] = [2 * x for x in q['w']]
    ok3, bad3, _ = validate_trace('Trace_Emission', 'Trace_Emission.cfg', [q])
    if ok3 or not bad3:
        raise Machinery('canary (weights not halved) accepted: Trace_Emission is vacuous')


# ----------------------------------------------------------------------------
# history independence of long-lived models (spec/Functional.tla)
# ----------------------------------------------------------------------------

def history_scenarios(ctx, root):
    """Settings a user changes between evaluations of ONE model: the spectral window passed to model(wngrid=..)
    (three windows with equally many native points, or two windows and the native grid), the star temperature,
    the planet radius, a temperature-profile parameter, the directory of k-tables."""
    native = fxk.linear_native()
    ksets = [fxk.KSet(root, 0, native, [0.05, 0.15, 0.3, 0.5], 2.0),
             fxk.KSet(root, 1, native, [0.25, 0.25, 0.5], 3.0),
             fxk.KSet(root, 2, native, [2.0 / 3.0, 1.0 / 3.0], 0.0)]
    W = fxk.WindowScenario
    return [W('emission:xsec', 'emission', 'xsec', ['window', 'star_T', 'T']),
            W('emission:xsec:isothermal', 'emission', 'xsec', ['window', 'star_T', 'T'], tprofile='iso', native_as_third=True),
            W('direct:xsec', 'direct', 'xsec', ['window', 'planet_radius', 'T']),
            W('emission:ktables', 'emission', 'ktables', ['window', 'star_T', 'kset'], ksets=ksets),
            W('direct:ktables', 'direct', 'ktables', ['window', 'kset', 'T'], ksets=ksets, native_as_third=True)]


def run_histories(ctx, nwalks):
    from .. import history
    with fx.TempDir() as root:
        fx.reset_all()
        scs = history_scenarios(ctx, root)
        history.run_history(ctx, scs, nwalks)
        for sc in scs:
            sc.require_equal_windows()
    fx.reset_all()


def _tick(label, _t=[None]):
    import time
    if os.environ.get('VERIF_TIMING'):
        now = time.time()
        if _t[0] is not None:
            print('TIMING %-28s %.1fs' % (label, now - _t[0]), flush=True)
        _t[0] = now


def run(ctx):
    q = ctx.tier == 'quick'
    _tick('start')
    ctx.bounds = dict(tier=ctx.tier,
                      exhaustive='3 layers x 2 wavenumbers, per-layer depth rows over {0,1,15} ln2 (quick) / {0,1,3,15} and 4 layers (thorough), '
                                 '3 temperatures, quadratures with 1/mu in {1,2,4}; k-table mode: 2 layers, 2-3 points, 6 rows, 2 weight sets',
                      vectors='3 (4) layers, rows with distinct depths incl. saturated columns, 6..27 temperature profiles, 5 quadratures, eclipse + direct; '
                              'k-table mode: 2-3 layers, 2-3 points with different coefficients, visible and opaque surfaces',
                      traces='random atmospheres 2..30 layers, 2..5 wavenumbers, ngauss 1..8, depths 0..60 ln2 per layer; random k-table atmospheres',
                      calls='every walk of 2 (quick) / 3 (thorough) public calls over {model, partial_model, model_contrib, model_full_contrib, '
                            'path_integral} on one model with 3 opacity sources (2 molecules of one contribution + a grey contribution), 2-3 layers, '
                            '3-4 source sets (transparent, zero, saturating on its own), eclipse + direct; one such walk on every random atmosphere',
                      history='TLC-generated set/eval walks (depth 9, 3 settings x 3 values) on long-lived Emission / DirectImage models')
    ctx.assumptions = ['Planck table: plain-Python CODATA-2018 evaluation in the harness (compared with the repository kernel as a separate clause)',
                       'per-layer cross-sections are scaled with the model\'s own deltaz and densityProfile (layer geometry is C11)',
                       'k-table files: PickleKTable layout written by the harness; pressure grid = layer pressures, values constant in T',
                       'history: every model owns the opacity / k-table objects it has loaded (installed in the cache singletons '
                       'through their public API for its own evaluations)',
                       'call walks: a bare path_integral(grid) is only issued after model() / partial_model() / path_integral() '
                       '(the state model() documents as prepared); the walks of one configuration are replayed one after the other on one object',
                       'TLC + CommunityModules Json/IOUtils; exported term lists evaluated with Python Fractions']
    ctx.check_spec('exhaustive', 'MC_Emission', 'MC_Emission_%s.cfg' % ctx.tier, deque=True,
                   need_actions=('Surface', 'Layer', 'Integrate', 'Normalise'))
    ctx.check_spec('exhaustive-quadratures', 'MC_Emission', 'MC_Emission_quads.cfg', deque=True)
    if not q:
        ctx.check_spec('exhaustive-4-layers', 'MC_Emission', 'MC_Emission_thorough4.cfg', deque=True)
    ctx.check_spec('exhaustive-ktable', 'MC_EmissionK', 'MC_EmissionK_quick.cfg', deque=True,
                   need_actions=('EKEmit', 'EKIntegrate', 'EKNormalise'))
    ctx.check_spec('exhaustive-ktable-3-points', 'MC_EmissionK', 'MC_EmissionK_quick3.cfg', deque=True)
    if not q:
        ctx.check_spec('exhaustive-ktable-3-layers', 'MC_EmissionK', 'MC_EmissionK_thorough.cfg', deque=True)
    ctx.exhaustive = True
    _tick('exhaustive')
    ctx.expect_refuted('refute-clamp-one-side', 'MC_Emission', 'MC_Emission_refute_clamp.cfg', 'Telescoping')
    ctx.expect_refuted('refute-range-off-by-one', 'MC_Emission', 'MC_Emission_refute_range.cfg', 'IsothermalIdentity')
    ctx.expect_refuted('refute-weights', 'MC_Emission', 'MC_Emission_refute_weights.cfg', 'FluxIsothermalIdentity')
    ctx.expect_refuted('refute-slant-outside-k-sum', 'MC_EmissionK', 'MC_EmissionK_refute_slant.cfg', 'EKTelescoping')
    _tick('refutations')
    check_planck(ctx)
    cfgs = ['EX_Emission_quick.cfg', 'EX_Emission_quads.cfg'] if q else \
           ['EX_Emission_thorough.cfg', 'EX_Emission_quads.cfg', 'EX_Emission_thorough4.cfg']
    ratios = []          # the direct-image constant is one number over BOTH opacity modes
    for cfg in cfgs:
        run_vectors(ctx, cfg, cfg[3:-4], ratios)
        _tick('vectors ' + cfg)
    for cfg in (['EX_EmissionK_quick.cfg', 'EX_EmissionK_quick3.cfg'] if q else ['EX_EmissionK_thorough.cfg', 'EX_EmissionK_quick3.cfg']):
        run_kvectors(ctx, cfg, cfg[3:-4], ratios)
        _tick('vectors ' + cfg)
    ctx.expect_refuted('refute-star-spectrum-rescaled-in-place', 'MC_EmissionCalls', 'MC_EmissionCalls_refute_sed.cfg', 'EveryPathDocumented', workers=1)
    if not q:
        ctx.expect_refuted('refute-star-spectrum-rescaled-in-place (shared arrays)', 'MC_EmissionCalls', 'MC_EmissionCalls_refute_sed_readonly.cfg',
                           'InputsReadOnly', workers=1)
        ctx.expect_refuted('refute-opacity-rescaled-in-place', 'MC_EmissionCalls', 'MC_EmissionCalls_refute_opacity.cfg', 'EveryPathDocumented', workers=1)
    for cfg in (['MC_EmissionCalls_quick.cfg'] if q else ['MC_EmissionCalls_thorough.cfg', 'MC_EmissionCalls_thorough3.cfg']):
        run_calls(ctx, cfg, cfg[17:-4], ratios)
        _tick('calls ' + cfg)
    finish_direct_law(ctx, ratios)
    run_traces(ctx, 60 if q else 600, 16 if q else 160)
    _tick('traces')
    run_histories(ctx, 8 if q else 80)
    _tick('histories')


def replay(ctx, violations):
    """Vectors are replayed one by one; trace cases are regenerated from (seed, model index); histories are re-run."""
    done_trace = done_ktrace = done_hist = False
    done_calls = set()
    for v in violations:
        vec = v['vector'] or {}
        if vec.get('calls_walk'):
            # the walks of one (model class, temperature profile, source set) are replayed on one object, as in run()
            cfg = 'MC_EmissionCalls_thorough3.cfg' if len(vec['tp']) == 3 else \
                  ('MC_EmissionCalls_thorough.cfg' if len(vec['calls']) == 3 else 'MC_EmissionCalls_quick.cfg')
            key = (cfg, vec['kind'], tuple(vec['tp']), vec['sid'])
            if key not in done_calls:
                done_calls.add(key)
                ratios = []
                run_calls(ctx, cfg, 'replay', ratios, only=(vec['kind'], list(vec['tp']), vec['sid']))
                for r, cls, vv in ratios:
                    ctx.verdict('direct_image_proportional', math.isfinite(r) and r > 0, cls=cls, detail='ratio %r' % r, vector=vv)
        elif vec.get('history'):
            if not done_hist:
                run_histories(ctx, 8)
                done_hist = True
        elif vec.get('trace') and vec.get('kmode'):
            if not done_ktrace:
                ctx.seed = vec.get('seed', ctx.seed)
                run_traces(ctx, 0, max(vec.get('model_index', 0) + 1, 16))
                done_ktrace = True
        elif vec.get('trace'):
            if not done_trace:
                ctx.seed = vec.get('seed', ctx.seed)
                run_traces(ctx, max(vec.get('model_index', 0) + 1, 60))
                done_trace = True
        elif vec.get('what') == 'planck':
            check_planck(ctx)
        elif 'kint' in vec:
            cache = dict(bstar_spec=[7, 11], direct_ratios=[])
            with fx.TempDir() as d:
                check_kvector_group(ctx, d, vec['tp'], [vec], cache)
            for r, cls, vv in cache['direct_ratios']:
                ctx.verdict('direct_image_proportional', math.isfinite(r) and r > 0, cls=cls, detail='ratio %r' % r, vector=vv)
        else:
            cache = dict(bstar_spec=[7, 11], direct_ratios=[])
            check_vector_group(ctx, vec['tp'], [vec], cache)
            for r, cls, vv in cache['direct_ratios']:
                # a single vector cannot establish the law; compare with the constant seen at the pinned commit's formula
                ctx.verdict('direct_image_proportional', math.isfinite(r) and r > 0, cls=cls, detail='ratio %r' % r, vector=vv)
    fx.reset_all()
